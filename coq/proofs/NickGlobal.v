(* NickGlobal.v - a connection's nickname is set and changed by its own NICK lines only.  Per command: every command of a
   registered connection other than NICK leaves nick and source prefix of its record as they are; the registration commands
   of an unregistered one other than NICK leave the nick; lifted to every event of every connection. *)
From IRC Require Import Str Wild Glob Mask Parse Reply State Handlers Step.
From IRCP Require Import StrP InvDefs InvPrims InvNick InvHandlers InvStep Reach RegP NickP OperP ModesFrame ConnFrame.
From stdpp Require Import gmap.

Local Arguments lit : simpl never.

Section frame.
Context (cfg : config) (verify : str -> str -> bool) (i : nat).

Definition is_nick (cmd : command) : bool := match cmd with NICK _ => true | _ => false end.
Definition cnick (c : conn) := (c_nick c, c_source c).

Theorem dispatch_conn_nick s c cmd msg r :
  InvS s -> conn_ok i s c -> c_auth c = true -> is_nick cmd = false ->
  dispatch cfg verify i s c cmd msg = Ok r -> cnick (h_conn r) = cnick c.
Proof.
  intros I C A NN H.
  destruct (own_user i s c C A) as [nick [u [Hn [Hu [Hc [Ho Hg]]]]]].
  assert (forall r0, same_result s c r0 -> cnick (h_conn r0) = cnick c) as Same.
  { intros r0 [_ [E _]]. now rewrite E. }
  assert (forall (P : res hres), (exists r0, P = Ok r0 /\ same_result s c r0) -> P = Ok r -> cnick (h_conn r) = cnick c) as S2.
  { intros P [r0 [-> Hs]] [= <-]. now apply Same. }
  assert (forall o, Ok {| h_sh := s; h_conn := c; h_out := o; h_quit := false |} = Ok r -> cnick (h_conn r) = cnick c) as S3.
  { intros o [= <-]. reflexivity. }
  assert (h_conn r = c -> cnick (h_conn r) = cnick c) as EQ by (intros ->; reflexivity).
  destruct cmd; try discriminate NN; cbn [dispatch] in H.
  - unfold process_cap in H. destruct sub.
    + injection H as <-. reflexivity.
    + injection H as <-. reflexivity.
    + destruct caps as [cs|]; [destruct (forallb _ cs)|]; injection H as <-; reflexivity.
    + rewrite A in H. injection H as <-. reflexivity.
  - injection H as <-. reflexivity.
  - unfold process_pass in H. rewrite A in H. injection H as <-. reflexivity.
  - unfold process_user in H. rewrite A in H. injection H as <-. reflexivity.
  - injection H as <-. reflexivity.
  - injection H as <-. reflexivity.
  - destruct (oper_spec cfg verify i s c name password nick u Hn Hu) as [r0 [Hr [Ec _]]].
    rewrite Hr in H. injection H as <-. now apply EQ.
  - injection H as <-. reflexivity.
  - apply EQ. eapply join_conn; eauto.
  - apply EQ. eapply part_conn; eauto.
  - apply EQ. eapply topic_conn; eauto.
  - eapply S2; [|exact H]. now apply process_names_ok.
  - unfold process_list in H. destruct server; eapply S3; exact H.
  - apply EQ. eapply invite_conn; eauto.
  - apply EQ. eapply kick_conn; eauto.
  - unfold process_motd in H. destruct target; eapply S3; exact H.
  - unfold process_version in H. destruct target; eapply S3; exact H.
  - unfold process_admin in H. destruct target; eapply S3; exact H.
  - eapply S3; exact H.
  - unfold process_lusers in H. destruct (lusers_lines s (client_name c)); cbn [rbind] in H; [|discriminate]. eapply S3; exact H.
  - unfold process_time in H. destruct server; eapply S3; exact H.
  - unfold process_stats in H. destruct server; [eapply S3; exact H|].
    rewrite Ho in H. cbn [rbind] in H. rewrite Hg in H. cbn [rbind] in H. destruct (is_local_oper _); eapply S3; exact H.
  - unfold process_links in H. destruct remote_server, server_mask; eapply S3; exact H.
  - unfold process_help in H. destruct (help_topic _); eapply S3; exact H.
  - eapply S3; exact H.
  - unfold process_mode in H. rewrite Ho in H. cbn [rbind] in H. destruct (validate_channel target).
    + destruct (chans s !! target) as [co|]; [|eapply S3; exact H].
      destruct (ch_users co !! nick) as [rk|]; [|eapply S3; exact H].
      apply EQ. eapply mode_channel_conn; eauto.
    + destruct (bool_decide (nick = target)).
      * destruct (mode_user_no_grant cfg i s c nick modes r u Hu H) as [m' [_ [_ [_ [Ec _]]]]]. now apply EQ.
      * destruct (users s !! target); eapply S3; exact H.
  - eapply S2; [|exact H]. now apply process_privmsg_ok.
  - eapply S2; [|exact H]. now apply process_privmsg_ok.
  - eapply S2; [|exact H]. now apply process_who_ok.
  - eapply S2; [|exact H]. now apply process_whois_ok.
  - unfold process_whowas in H. destruct server; eapply S3; exact H.
  - apply EQ. eapply kill_conn; eauto.
  - eapply S3; exact H.
  - eapply S3; exact H.
  - unfold process_squit in H. destruct (bool_decide _); [|eapply S3; exact H]. apply EQ. eapply die_conn; eauto.
  - apply EQ. eapply away_conn; eauto.
  - eapply S3; exact H.
  - eapply S2; [|exact H]. now apply process_wallops_ok.
  - eapply S3; exact H.
  - apply EQ. eapply die_conn; eauto.
Qed.

(* registration keeps the nick the connection asked for *)
Lemma authenticate_nick s c r : authenticate cfg verify i s c = Ok r -> c_nick (h_conn r) = c_nick c.
Proof.
  unfold authenticate. destruct (c_capneg c); [intros [= <-]; reflexivity|].
  remember (c_nick c) as on eqn:Hon. destruct on as [nick|]; [|intros [= <-]; cbn; congruence].
  destruct (c_name c) as [name|]; [|intros [= <-]; cbn; congruence].
  destruct (negb _); [intros [= <-]; cbn; congruence|].
  match goal with |- (if ?g then _ else _) = _ -> _ => destruct g end; [|intros [= <-]; cbn; congruence].
  destruct (users s !! nick); [intros [= <-]; cbn; congruence|].
  destruct (c_sender_taken c); [discriminate|].
  destruct (lusers_lines _ _); cbn [rbind]; [|discriminate]. intros [= <-]. cbn. congruence.
Qed.

Lemma unauth_dispatch_nick s c cmd msg r : c_auth c = false -> needs_registration cmd = false -> is_nick cmd = false ->
  dispatch cfg verify i s c cmd msg = Ok r -> c_nick (h_conn r) = c_nick c.
Proof.
  intros A Hn NN. destruct cmd; try discriminate Hn; try discriminate NN; cbn [dispatch].
  - unfold process_cap. destruct sub.
    + intros [= <-]; reflexivity.
    + intros [= <-]; reflexivity.
    + destruct caps as [cs|]; [destruct (forallb _ cs)|]; intros [= <-]; reflexivity.
    + rewrite A. intros H. apply authenticate_nick in H. exact H.
  - intros [= <-]; reflexivity.
  - unfold process_pass. rewrite A. intros H. apply authenticate_nick in H. exact H.
  - unfold process_user. rewrite A. intros H. apply authenticate_nick in H. exact H.
  - intros [= <-]; reflexivity.
Qed.

(* a line that is not a NICK command (including every line that does not parse) leaves the nick alone *)
Definition nick_line (l : str) : Prop := exists msg n, tokenize l = inl msg /\ command_of_message msg = inl (NICK n).

Theorem line_nick s c l r : InvS s -> conn_ok i s c -> ~ nick_line l ->
  process_line cfg verify i s c l = Ok r -> c_nick (h_conn r) = c_nick c.
Proof.
  intros I C NL H.
  assert (forall o, Ok {| h_sh := s; h_conn := c; h_out := o; h_quit := false |} = Ok r -> c_nick (h_conn r) = c_nick c) as Same.
  { intros o [= <-]. reflexivity. }
  unfold process_line in H. destruct (tokenize l) as [msg|[| |]] eqn:Ht; try (eapply Same; exact H).
  destruct (command_of_message msg) as [cmd|e] eqn:Hcmd; [|eapply Same; exact H].
  destruct (needs_registration cmd && negb (c_auth c)) eqn:G; [eapply Same; exact H|].
  assert (is_nick cmd = false) as NN.
  { destruct cmd; try reflexivity. exfalso. apply NL. exists msg, nickname. auto. }
  destruct (c_auth c) eqn:A.
  - pose proof (dispatch_conn_nick s c cmd msg r I C A NN H) as F. unfold cnick in F. congruence.
  - cbn in G. rewrite andb_true_r in G. eapply unauth_dispatch_nick; eauto.
Qed.

End frame.

Section global.
Context (cfg : config) (verify : str -> str -> bool).

(* where a connection record after a step comes from: it is the record before the step; or the step is a line of that very
   connection that did not end the session, and the record is the handler's; or the connection was accepted in this step *)
Lemma step_conn w i e w' o cl j c' : Inv w -> step cfg verify w i e = Ok (w', o, cl) -> conns w' !! j = Some c' ->
  conns w !! j = Some c' \/
  (j = i /\ exists c l r, conns w !! i = Some c /\ e = EvLine l /\ process_line cfg verify i (sh w) c l = Ok r /\ c' = h_conn r) \/
  (j = i /\ conns w !! i = None /\ exists secure, e = EvOpen secure /\ c' = conn_new (lit "127.0.0.1") secure).
Proof.
  intros I H Hc'. pose proof (InvK_of_Inv w I) as K. unfold step in H.
  destruct (step_raw cfg verify w i e) as [[[w1 o1] c1]|] eqn:H1; [|discriminate]. cbn [rbind] in H.
  destruct (step_raw_frame cfg verify w i e w1 o1 c1 K H1) as [K1 [_ [Hoth [_ [Hcl _]]]]].
  destruct (deliver_kills_ok cfg w1 K1) as [w2 [o2 [c2 [H2 [_ [_ [_ [_ [Hkeep Hgone]]]]]]]]].
  rewrite H2 in H. cbn [rbind] in H. injection H as <- _ _.
  destruct (decide (j ∈ c2)) as [Hin|Hnin]; [rewrite (Hgone j Hin) in Hc'; discriminate|].
  rewrite (Hkeep j Hnin) in Hc'.
  destruct (decide (j = i)) as [->|Hne]; [|rewrite (Hoth j Hne) in Hc'; left; exact Hc'].
  destruct (conns w !! i) as [c|] eqn:Hc.
  - destruct e; cbn [step_raw] in H1; rewrite Hc in H1.
    + injection H1 as <- _ _. left. congruence.
    + destruct (process_line cfg verify i (sh w) c l) as [r|] eqn:Hr; cbn [rbind] in H1; [|discriminate].
      destruct (h_quit r).
      * assert (i ∈ c1) as Hi1.
        { destruct (teardown i _) as [wx|]; cbn [rbind] in H1; [|discriminate]. injection H1 as _ _ <-. left. }
        rewrite (Hcl Hi1) in Hc'. discriminate.
      * injection H1 as <- _ _. cbn in Hc'. rewrite lookup_insert in Hc'. injection Hc' as <-.
        right. left. split; [reflexivity|]. exists c, l, r. auto.
    + assert (i ∈ c1) as Hi1 by (destruct (teardown i w) as [wx|]; cbn [rbind] in H1; [|discriminate]; injection H1 as _ _ <-; left).
      rewrite (Hcl Hi1) in Hc'. discriminate.
    + assert (i ∈ c1) as Hi1 by (destruct (teardown i w) as [wx|]; cbn [rbind] in H1; [|discriminate]; injection H1 as _ _ <-; left).
      rewrite (Hcl Hi1) in Hc'. discriminate.
    + assert (i ∈ c1) as Hi1 by (destruct (teardown i w) as [wx|]; cbn [rbind] in H1; [|discriminate]; injection H1 as _ _ <-; left).
      rewrite (Hcl Hi1) in Hc'. discriminate.
    + injection H1 as <- _ _. left. congruence.
    + assert (i ∈ c1) as Hi1 by (destruct (teardown i w) as [wx|]; cbn [rbind] in H1; [|discriminate]; injection H1 as _ _ <-; left).
      rewrite (Hcl Hi1) in Hc'. discriminate.
  - destruct e; cbn [step_raw] in H1; rewrite Hc in H1; try (injection H1 as <- _ _; rewrite Hc in Hc'; discriminate).
    destruct (server_quit (sh w)); [injection H1 as <- _ _; rewrite Hc in Hc'; discriminate|].
    match type of H1 with (if ?g then _ else _) = _ => destruct g end; [|injection H1 as <- _ _; rewrite Hc in Hc'; discriminate].
    injection H1 as <- _ _. cbn in Hc'. rewrite lookup_insert in Hc'. injection Hc' as <-.
    right. right. split; [reflexivity|]. split; [reflexivity|]. eauto.
Qed.

Lemma not_nick_line_dec l : nick_line l \/ ~ nick_line l.
Proof.
  unfold nick_line. destruct (tokenize l) as [msg|er] eqn:Ht; [|right; intros [m [n [T _]]]; discriminate T].
  destruct (command_of_message msg) as [cmd|er] eqn:Hcmd.
  - destruct cmd; try (right; intros [m [n [T1 T2]]]; injection T1 as <-; rewrite Hcmd in T2; discriminate T2).
    left. eauto.
  - right. intros [m [n [T1 T2]]]. injection T1 as <-. rewrite Hcmd in T2. discriminate T2.
Qed.

(* over every event of every connection: a connection record that is there before and after the step has the same nick
   unless the event is that connection's own NICK line *)
Theorem nick_changes_only_by_own_nick w i e w' o cl j c c' : Inv w -> step cfg verify w i e = Ok (w', o, cl) ->
  conns w !! j = Some c -> conns w' !! j = Some c' -> c_nick c' = c_nick c \/ (j = i /\ exists l, e = EvLine l /\ nick_line l).
Proof.
  intros I H Hc Hc'. pose proof (InvK_of_Inv w I) as K.
  destruct (step_conn w i e w' o cl j c' I H Hc') as [E|[[-> [c0 [l [r [Hc0 [-> [Hr ->]]]]]]]|[-> [Hn _]]]].
  - left. congruence.
  - rewrite Hc in Hc0. injection Hc0 as <-. destruct (not_nick_line_dec l) as [NL|NL]; [right; eauto|].
    left. exact (line_nick cfg verify i (sh w) c l r (ik_s w K) (ik_cu w K i c Hc) NL Hr).
  - congruence.
Qed.

(* on the user table: the nick a user is keyed by after a step is the key of the same connection's user before the step,
   unless the event is the owner's own NICK line (a change) or the line that completes its registration *)
Theorem user_key_changes_only_by_own_nick w i e w' o cl n u' : Inv w -> step cfg verify w i e = Ok (w', o, cl) ->
  users (sh w') !! n = Some u' ->
  (exists u, users (sh w) !! n = Some u /\ u_conn u = u_conn u') \/
  (u_conn u' = i /\ exists l, e = EvLine l /\ (nick_line l \/ exists c, conns w !! i = Some c /\ c_auth c = false)).
Proof.
  intros I H Hu'. pose proof (InvK_of_Inv w I) as K. destruct (step_frame cfg verify w i e w' o cl I H) as [I' _].
  destruct (iw_uc w' I' n u' Hu') as [c' [Hc' [A' Hn']]].
  destruct (step_conn w i e w' o cl (u_conn u') c' I H Hc') as [E|[[Ei [c0 [l [r [Hc0 [-> [Hr ->]]]]]]]|[_ [_ [sec [_ ->]]]]]].
  - left. destruct (iw_cu w I (u_conn u') c' E A') as [nk [u [Hnk [Hu Hcu]]]]. exists u. rewrite Hnk in Hn'. injection Hn' as <-. auto.
  - destruct (not_nick_line_dec l) as [NL|NL]; [right; split; [exact Ei|]; eauto|].
    destruct (c_auth c0) eqn:A0; [|right; split; [exact Ei|]; exists l; split; [reflexivity|]; right; eauto].
    left. pose proof (line_nick cfg verify i (sh w) c0 l r (ik_s w K) (ik_cu w K i c0 Hc0) NL Hr) as En.
    destruct (iw_cu w I i c0 Hc0 A0) as [nk [u [Hnk [Hu Hcu]]]]. exists u. rewrite En, Hnk in Hn'. injection Hn' as <-. split; [exact Hu|congruence].
  - discriminate A'.
Qed.

End global.
