(* KeepaliveP.v - dead peers are dropped at the deadline of the first unanswered PING, live
   peers are never dropped, other traffic is irrelevant. *)
From IRC Require Import Keepalive.
From Coq Require Import List NArith Lia Sorting.Sorted.
Import ListNotations.
Open Scope N_scope.

(* a running timer with deadline d that sees no PONG before d fires at d *)
Lemma timer_fires pt evs : forall d h,
  (forall t e, In (t, e) evs -> t < d -> e <> KPong) -> d <= h ->
  ka_run pt (Some d) evs h = Some d.
Proof.
  induction evs as [|[t e] evs IH]; intros d h Hno Hh; cbn [ka_run].
  - destruct (N.leb_spec d h); [reflexivity|lia].
  - destruct (N.leb_spec d t); [reflexivity|].
    assert (e <> KPong) as He by (apply (Hno t e); [now left|assumption]).
    destruct e; [|contradiction|]; apply IH; auto; intros t' e' Hin; apply Hno; now right.
Qed.

(* dead peer: the first PING that finds no timer running and is not answered in time closes the
   connection exactly pong_timeout later - whatever else is sent meanwhile, including further
   PINGs of the server (pong_timeout >= ping_timeout) *)
Theorem dead_peer_dropped pt t0 evs h :
  (forall t e, In (t, e) evs -> t < t0 + pt -> e <> KPong) -> t0 + pt <= h ->
  ka_run pt None ((t0, KPing) :: evs) h = Some (t0 + pt).
Proof. intros Hno Hh. cbn [ka_run]. now apply timer_fires. Qed.

(* the connection is only ever closed by a timer, at its deadline: a PING time plus pong_timeout *)
Lemma closed_only_at_deadline pt evs : forall dl h c,
  ka_run pt dl evs h = Some c ->
  dl = Some c \/ exists t, In (t, KPing) evs /\ c = t + pt.
Proof.
  induction evs as [|[t e] evs IH]; intros dl h c; cbn [ka_run].
  - destruct dl as [d|]; [|discriminate]. destruct (N.leb d h); [|discriminate]. intros [= <-]. now left.
  - assert (forall dl', ka_run pt dl' evs h = Some c -> dl' = Some c \/ exists t0, In (t0, KPing) ((t, e) :: evs) /\ c = t0 + pt) as K.
    { intros dl' H. apply IH in H as [H|[t' [Hin ->]]]; [now left|]. right. exists t'. split; [now right|reflexivity]. }
    destruct dl as [d|].
    + destruct (N.leb d t); [intros [= <-]; now left|].
      destruct e; intros H; apply K in H as [H|H]; auto; discriminate.
    + destruct e; intros H; apply K in H as [H|H]; auto; try discriminate.
      injection H as <-. right. exists t. split; [now left|reflexivity].
Qed.

(* live peer: the events are in time order and every PING is followed by a PONG less than
   pong_timeout later (the token does not matter: KPong carries none) - then the connection is
   never closed, for every horizon *)
Definition times_sorted (evs : list (N * kev)) : Prop := StronglySorted (fun a b => fst a <= fst b) evs.

Definition answered (pt : N) (evs : list (N * kev)) : Prop :=
  forall l1 t l2, evs = l1 ++ (t, KPing) :: l2 -> exists t', In (t', KPong) l2 /\ t' < t + pt.

Lemma live_aux pt evs : forall dl h,
  times_sorted evs ->
  (forall d, dl = Some d -> exists t', In (t', KPong) evs /\ t' < d) ->
  answered pt evs ->
  ka_run pt dl evs h = None.
Proof.
  induction evs as [|[t e] evs IH]; intros dl h Hs Hd Ha; cbn [ka_run].
  - destruct dl as [d|]; [|reflexivity]. destruct (Hd d eq_refl) as [t' [[] _]].
  - inversion Hs as [|? ? Hs' Hall]; subst.
    assert (answered pt evs) as Ha'.
    { intros l1 t1 l2 E. apply (Ha ((t, e) :: l1) t1 l2). now rewrite E. }
    destruct dl as [d|].
    + destruct (Hd d eq_refl) as [t' [Hin Ht']].
      assert (t <= t') as Hle.
      { destruct Hin as [[= -> _]|Hin]; [lia|]. rewrite Forall_forall in Hall. apply (Hall _ Hin). }
      destruct (N.leb_spec d t); [lia|].
      destruct e.
      * apply IH; auto. intros d' [= <-]. destruct Hin as [[=]|Hin]. eauto.
      * apply IH; auto. intros d' [=].
      * apply IH; auto. intros d' [= <-]. destruct Hin as [[=]|Hin]. eauto.
    + destruct e.
      * apply IH; auto. intros d' [= <-]. apply (Ha [] t evs eq_refl).
      * apply IH; auto. intros d' [=].
      * apply IH; auto. intros d' [=].
Qed.

Theorem live_peer_kept pt evs h :
  times_sorted evs -> answered pt evs -> ka_run pt None evs h = None.
Proof. intros Hs Ha. apply live_aux; auto. intros d [=]. Qed.

(* traffic other than PONG neither resets nor delays the timer *)
Theorem other_traffic_irrelevant pt evs : forall dl h,
  times_sorted evs -> (forall t e, In (t, e) evs -> t <= h) ->
  ka_run pt dl (filter (fun x => match snd x with KOther => false | _ => true end) evs) h = ka_run pt dl evs h.
Proof.
  induction evs as [|[t e] evs IH]; intros dl h Hs Hh; [reflexivity|].
  inversion Hs as [|? ? Hs' Hall]; subst.
  assert (forall t' e', In (t', e') evs -> t' <= h) as Hh' by (intros; eapply Hh; right; eauto).
  destruct e; cbn [filter snd ka_run].
  - destruct dl as [d|]; [destruct (N.leb d t); [reflexivity|]|]; apply IH; auto.
  - destruct dl as [d|]; [destruct (N.leb d t); [reflexivity|]|]; apply IH; auto.
  - destruct dl as [d|]; [|apply IH; auto].
    destruct (N.leb_spec d t) as [Hle|Hlt]; [|apply IH; auto].
    apply timer_fires.
    + intros t' e' Hin Hlt. apply filter_In in Hin as [Hin _]. rewrite Forall_forall in Hall.
      specialize (Hall _ Hin). cbn in Hall. lia.
    + specialize (Hh t KOther (or_introl eq_refl)). lia.
Qed.
