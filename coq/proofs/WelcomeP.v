(* WelcomeP.v - the welcome burst is built from the configuration. *)
From IRC Require Import Str Wild Glob Mask Parse Reply State Handlers Step.
From IRCP Require Import StrP InvDefs InvPrims InvHandlers.
From stdpp Require Import gmap.
Open Scope N_scope.

Local Arguments lit : simpl never.

Section welcome.
Context (cfg : config) (verify : str -> str -> bool) (i : nat).

(* a completed registration: the new connection state, the new user and the lines sent *)
Theorem registration_burst s c r nick :
  c_auth c = false ->
  authenticate cfg verify i s c = Ok r -> c_auth (h_conn r) = true -> c_nick c = Some nick ->
  exists name registered lus,
    c_name c = Some name /\
    let c1 := c_with_auth true registered (c_sender_taken c) c in
    let c2 := c_with_auth true registered true c in
    let u := new_user cfg i c1 name (default [] (c_real c)) in
    let client := client_name c2 in
    h_conn r = c2 /\ h_sh r = st_add_user nick u s /\ lusers_lines (st_add_user nick u s) client = Ok lus /\
    h_out r = mine cfg i ([ rpl_welcome client (cfg_network cfg) nick name (c_host c);
                            rpl_yourhost client (cfg_name cfg) (version_str cfg);
                            rpl_created client (lit "T");
                            rpl_myinfo client (cfg_name cfg) (version_str cfg) ]
                          ++ isupport_lines cfg client ++ lus ++ motd_lines cfg client
                          ++ [ rpl_umodeis client (umodes_str (u_modes u)) ]).
Proof.
  intros A0. unfold authenticate. intros H Ha Hn. rewrite Hn in H.
  destruct (c_capneg c); [injection H as <-; cbn in Ha; congruence|].
  destruct (c_name c) as [name|] eqn:Hname; [|injection H as <-; cbn in Ha; congruence].
  destruct (negb _); [injection H as <-; cbn in Ha; congruence|].
  match type of H with (if ?g then _ else _) = _ => destruct g end; [|injection H as <-; cbn in Ha; discriminate Ha].
  destruct (users s !! nick); [injection H as <-; cbn in Ha; discriminate Ha|].
  destruct (c_sender_taken c) eqn:T; [discriminate H|].
  match type of H with context [st_add_user nick ?u0 s] => set (u := u0) in * end.
  destruct (lusers_lines (st_add_user nick u s) _) as [lus|] eqn:Hl; cbn [rbind] in H; [|discriminate H].
  injection H as <-. cbn [h_conn h_sh h_out].
  exists name, (match find_usercfg cfg name with Some _ => true | None => false end), lus.
  split; [reflexivity|]. cbn zeta. repeat split; try reflexivity. exact Hl.
Qed.

End welcome.
