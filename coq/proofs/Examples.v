(* Examples.v - non-vacuity: a concrete history run through the model by the kernel's evaluator.  The worlds the global
   theorems quantify over are inhabited by non-trivial states: users, a channel with ranks, a topic, an away text, an
   invitation - and the hypotheses of the step theorems (an invariant world and a successful step) are met by each step of
   this history (Reach.reachable_inv). *)
From stdpp Require Import gmap.
From IRC Require Import Str Wild Mask Parse Reply State Handlers Step.
From IRCP Require Import InvDefs InvStep Reach.
Open Scope N_scope.

Definition cfg0 : config :=
  {| cfg_name := lit "irc.irc"; cfg_admin_info := lit "A"; cfg_admin_info2 := None; cfg_admin_email := None; cfg_info := lit "I";
     cfg_motd := lit "M"; cfg_network := lit "N"; cfg_password := None; cfg_max_connections := None; cfg_max_joins := Some 2;
     cfg_ping_timeout := 120; cfg_pong_timeout := 20;
     cfg_default_umodes := {| um_invisible := false; um_oper := false; um_local_oper := false; um_registered := false; um_wallops := false |};
     cfg_operators := []; cfg_users := [];
     cfg_channels := [ {| cc_name := lit "#pre"; cc_topic := Some (lit "configured"); cc_modes := cmodes_default |} ];
     cfg_pkg_name := lit "p"; cfg_pkg_version := lit "1" |}.
Definition verify0 (p h : str) : bool := false.

Definition evs0 : list (nat * event) :=
  [ (0%nat, EvOpen false); (0%nat, EvLine (lit "NICK alice")); (0%nat, EvLine (lit "USER alice 8 * :Alice"));
    (1%nat, EvOpen true);  (1%nat, EvLine (lit "USER bob 8 * :Bob")); (1%nat, EvLine (lit "NICK bob"));
    (0%nat, EvLine (lit "JOIN #x")); (1%nat, EvLine (lit "JOIN #x,#pre"));
    (0%nat, EvLine (lit "MODE #x +ov bob bob")); (0%nat, EvLine (lit "TOPIC #x :hello there"));
    (1%nat, EvLine (lit "AWAY :gone fishing")); (0%nat, EvLine (lit "MODE #x +i"));
    (2%nat, EvOpen false); (2%nat, EvLine (lit "NICK carol")); (2%nat, EvLine (lit "USER carol 8 * :Carol"));
    (0%nat, EvLine (lit "INVITE carol #x")); (1%nat, EvLine (lit "NICK robert")); (0%nat, EvLine (lit "PART #x :bye")) ].

Definition w0 : option world := match run cfg0 verify0 (world_init cfg0) evs0 with Ok (w, _) => Some w | Panic _ => None end.

Definition rank_of (w : world) (ch n : string) : option rank :=
  match chans (sh w) !! lit ch with Some co => ch_users co !! lit n | None => None end.

Example history_runs : is_Some_b w0 = true.
Proof. vm_compute. reflexivity. Qed.

(* bob, renamed robert, is operator and voiced on #x, away, on two channels; alice has parted; carol holds an invitation;
   the topic and the flags of #x are what was set; the configured channel is there with its topic *)
Example final_world :
  match w0 with
  | Some w =>
      rank_of w "#x" "robert" = Some {| r_founder := false; r_protected := false; r_voice := true; r_operator := true; r_half := false |}
      /\ rank_of w "#x" "alice" = None /\ rank_of w "#x" "bob" = None /\ rank_of w "#pre" "robert" = Some rank_none
      /\ (u_away <$> users (sh w) !! lit "robert") = Some (Some (lit "gone fishing"))
      /\ (fun u => elements (u_chans u)) <$> users (sh w) !! lit "robert" = Some [lit "#pre"; lit "#x"]
      /\ (fun u => elements (u_invited u)) <$> users (sh w) !! lit "carol" = Some [lit "#x"]
      /\ (fun u => elements (u_chans u)) <$> users (sh w) !! lit "alice" = Some []
      /\ (fun co => (ch_topic co, cm_invite_only (ch_modes co))) <$> chans (sh w) !! lit "#x" = Some (Some (lit "hello there", lit "alice"), true)
      /\ (fun co => (ch_topic co, ch_preconf co)) <$> chans (sh w) !! lit "#pre" = Some (Some (lit "configured", []), true)
      /\ size (users (sh w)) = 3%nat /\ nconns w = 3
  | None => False
  end.
Proof. vm_compute. repeat split; reflexivity. Qed.

(* the same world satisfies the invariant, as every reachable world does *)
Example final_world_inv : forall w, w0 = Some w -> Inv w.
Proof.
  intros w H. unfold w0 in H. destruct (run cfg0 verify0 (world_init cfg0) evs0) as [[w' outs]|] eqn:E; [|discriminate H].
  injection H as <-. apply (reachable_inv cfg0 verify0 w'). exists evs0, outs. exact E.
Qed.

(* a server with a password ("registration needs the right password" is not vacuous): the connection that sends the
   password that verifies is registered, the one that sends another is not and is closed, the one that sends none is not *)
Definition cfg1 : config :=
  {| cfg_name := cfg_name cfg0; cfg_admin_info := cfg_admin_info cfg0; cfg_admin_info2 := None; cfg_admin_email := None; cfg_info := cfg_info cfg0;
     cfg_motd := cfg_motd cfg0; cfg_network := cfg_network cfg0; cfg_password := Some (lit "HASH"); cfg_max_connections := None; cfg_max_joins := None;
     cfg_ping_timeout := 120; cfg_pong_timeout := 20; cfg_default_umodes := cfg_default_umodes cfg0;
     cfg_operators := []; cfg_users := []; cfg_channels := []; cfg_pkg_name := lit "p"; cfg_pkg_version := lit "1" |}.
Definition verify1 (p h : str) : bool := str_eqb p (lit "secret") && str_eqb h (lit "HASH").

Definition evs1 : list (nat * event) :=
  [ (0%nat, EvOpen false); (0%nat, EvLine (lit "PASS secret")); (0%nat, EvLine (lit "NICK alice")); (0%nat, EvLine (lit "USER alice 8 * :Alice"));
    (1%nat, EvOpen false); (1%nat, EvLine (lit "PASS guess")); (1%nat, EvLine (lit "NICK bob")); (1%nat, EvLine (lit "USER bob 8 * :Bob"));
    (2%nat, EvOpen false); (2%nat, EvLine (lit "NICK carol")); (2%nat, EvLine (lit "USER carol 8 * :Carol")) ].

Example password_world :
  match run cfg1 verify1 (world_init cfg1) evs1 with
  | Ok (w, _) => List.map fst (map_to_list (users (sh w))) = [lit "alice"]
                 /\ (c_auth <$> conns w !! 0%nat) = Some true /\ (c_pass <$> conns w !! 0%nat) = Some (Some (lit "secret"))
                 /\ conns w !! 1%nat = None /\ conns w !! 2%nat = None
  | Panic _ => False
  end.
Proof. vm_compute. repeat split; reflexivity. Qed.
