(* ModeP.v - channel MODE: who may change what (C08). *)
From IRC Require Import Str Wild Glob Mask Parse Reply State Handlers.
From IRCP Require Import StrP.
From stdpp Require Import gmap.
Open Scope N_scope.

Local Arguments lit : simpl never.

Section mode.
Context (cfg : config) (i : nat).

(* the rank a letter needs, in the words of the property *)
Definition rank_sufficient (ch : N) (r : rank) : bool :=
  if N.eqb ch 113 (* q *) then r_founder r
  else if N.eqb ch 97 (* a *) then rk_is_protected r
  else if N.eqb ch 111 || N.eqb ch 104 (* o h *) then rk_is_operator r
  else rk_is_half_operator r.   (* v b e I k l i m t n s *)

Definition is_mode_letter (ch : N) : bool := in_chars ch "qaohvbeIklimtns".

(* a letter for which the actor's rank does not suffice changes nothing in the channel and
   nothing in the announcement under construction *)
Lemma mode_char_refused c client target nick r ch mode_set args m m' ms' args' :
  is_mode_letter ch = true -> rank_sufficient ch r = false ->
  mode_char c client target nick r ch mode_set args m = Ok (m', ms', args') ->
  ms_chan m' = ms_chan m /\ ms_set m' = ms_set m /\ ms_unset m' = ms_unset m /\
  ms_params m' = ms_params m /\ ms' = mode_set.
Proof.
  intros Hl Hr.
  unfold is_mode_letter, in_chars, contains in Hl.
  apply existsb_exists in Hl as [x [Hx Hxe]]. apply N.eqb_eq in Hxe. subst x.
  vm_compute in Hx.
  unfold mode_char, rank_sufficient in *.
  repeat (destruct Hx as [<-|Hx]; [|]); try contradiction;
  cbn in Hr |- *; rewrite ?Hr; cbn;
  repeat match goal with
         | |- context [match ?x with _ => _ end] => destruct x eqn:?
         end;
  try (intros [= <- <- <-]); cbn; auto; try discriminate; try congruence.
Qed.

(* no letter ever changes who is on the channel, its topic, its configured defaults or its
   preconfigured mark: MODE touches flags, key, limit, mask lists and ranks only *)
Lemma chan_set_rank_frame l b n co co' :
  chan_set_rank l b n co = Ok co' ->
  dom (ch_users co') = dom (ch_users co) /\ ch_topic co' = ch_topic co /\
  ch_preconf co' = ch_preconf co /\ ch_default co' = ch_default co /\ ch_baninfo co' = ch_baninfo co /\
  (forall n', n' <> n -> ch_users co' !! n' = ch_users co !! n') /\
  (exists r, ch_users co !! n = Some r /\ ch_users co' !! n = Some (rank_set l b r)).
Proof.
  unfold chan_set_rank. destruct (ch_users co !! n) as [r|] eqn:Hr; [|discriminate].
  intros [= <-]. cbn. repeat split.
  - rewrite dom_insert_L. apply elem_of_dom_2 in Hr. set_solver.
  - intros n' Hn. now rewrite lookup_insert_ne by congruence.
  - exists r. split; [reflexivity|apply lookup_insert].
Qed.

Lemma mode_char_frame c client target nick r ch mode_set args m m' ms' args' :
  mode_char c client target nick r ch mode_set args m = Ok (m', ms', args') ->
  dom (ch_users (ms_chan m')) = dom (ch_users (ms_chan m)) /\
  ch_topic (ms_chan m') = ch_topic (ms_chan m) /\ ch_preconf (ms_chan m') = ch_preconf (ms_chan m) /\
  ch_default (ms_chan m') = ch_default (ms_chan m).
Proof.
  unfold mode_char.
  repeat match goal with
         | |- context [match ?x with _ => _ end] => destruct x eqn:?
         | |- context [if ?x then _ else _] => destruct x eqn:?
         | |- context [rbind ?x _] => destruct x eqn:?; cbn [rbind]
         end;
  cbn [rbind]; try discriminate;
  try match goal with
      | H : chan_set_rank _ _ _ _ = Ok _ |- _ =>
          apply chan_set_rank_frame in H as [H1 [H2 [H3 [H4 _]]]]
      end;
  try (intros [= <- <- <-]; cbn; auto).
Qed.

Lemma mode_chars_frame c client target nick r cs : forall mode_set args m m',
  mode_chars c client target nick r cs mode_set args m = Ok m' ->
  dom (ch_users (ms_chan m')) = dom (ch_users (ms_chan m)) /\
  ch_topic (ms_chan m') = ch_topic (ms_chan m) /\ ch_preconf (ms_chan m') = ch_preconf (ms_chan m) /\
  ch_default (ms_chan m') = ch_default (ms_chan m).
Proof.
  induction cs as [|ch cs IH]; intros mode_set args m m'; cbn [mode_chars].
  - intros [= <-]. auto.
  - destruct (mode_char c client target nick r ch mode_set args m) as [[[m1 ms1] a1]|] eqn:H1; cbn [rbind]; [|discriminate].
    intros H. apply IH in H as [A [B [C D]]]. apply mode_char_frame in H1 as [A1 [B1 [C1 D1]]].
    repeat split; congruence.
Qed.

(* accepted changes are applied: flags *)
Lemma mode_char_flag_accepted c client target nick r ch mode_set args m m' ms' args' :
  in_chars ch "imtns" = true -> rk_is_half_operator r = true ->
  mode_char c client target nick r ch mode_set args m = Ok (m', ms', args') ->
  ms_chan m' = ch_set_modes (cm_set_flag ch mode_set (ch_modes (ms_chan m))) (ms_chan m) /\
  args' = args /\ ms' = mode_set.
Proof.
  intros Hl Hr. unfold in_chars, contains in Hl.
  apply existsb_exists in Hl as [x [Hx Hxe]]. apply N.eqb_eq in Hxe. subst x. vm_compute in Hx.
  unfold mode_char. rewrite Hr.
  repeat (destruct Hx as [<-|Hx]; [|]); try contradiction; cbn; intros [= <- <- <-]; auto.
Qed.

(* accepted changes are applied: member ranks *)
Lemma mode_char_rank_accepted c client target nick r ch rl mode_set arg args m m' ms' args' :
  rankletter_of ch = Some rl -> rank_may rl r = true -> arg ∈ dom (ch_users (ms_chan m)) ->
  mode_char c client target nick r ch mode_set (arg :: args) m = Ok (m', ms', args') ->
  chan_set_rank rl mode_set arg (ms_chan m) = Ok (ms_chan m') /\ args' = args /\ ms' = mode_set.
Proof.
  intros Hl Hr Hin. unfold rankletter_of in Hl.
  assert (ch = 113 \/ ch = 97 \/ ch = 111 \/ ch = 104 \/ ch = 118) as Hch.
  { repeat match type of Hl with (if N.eqb ?a ?b then _ else _) = _ => destruct (N.eqb_spec a b); [auto 10|] end.
    discriminate. }
  assert (classify_mode ch = MRankC) as Hc by (destruct Hch as [->|[->|[->|[->| ->]]]]; reflexivity).
  assert (rankletter_of ch = Some rl) as Hl'.
  { unfold rankletter_of. exact Hl. }
  unfold mode_char. rewrite Hc, Hl'. cbn zeta. rewrite Hr.
  assert (bool_decide (arg ∈ dom (ch_users (ms_chan m))) = true) as Hin' by now apply bool_decide_eq_true_2.
  rewrite Hin'.
  destruct (chan_set_rank rl mode_set arg (ms_chan m)) as [co'|] eqn:Hsr; cbn [rbind]; [|discriminate].
  intros [= <- <- <-]. cbn. auto.
Qed.

(* outsiders and absent channels: one error, nothing changes *)
Lemma process_mode_outsider s c target modes r nick :
  c_nick c = Some nick -> validate_channel target = true ->
  process_mode cfg i s c target modes = Ok r ->
  match chans s !! target with
  | None => h_sh r = s /\ h_conn r = c /\ h_out r = [(i, srv cfg (err_nosuchchannel (client_name c) target))]
  | Some co =>
      match ch_users co !! nick with
      | None => h_sh r = s /\ h_conn r = c /\ h_out r = [(i, srv cfg (err_notonchannel (client_name c) target))]
      | Some rk => process_mode_channel cfg i s c target nick co rk modes = Ok r
      end
  end.
Proof.
  intros Hn Hv. unfold process_mode, own_nick. rewrite Hn, Hv. cbn [rbind].
  destruct (chans s !! target) as [co|]; [|intros [= <-]; cbn; auto].
  destruct (ch_users co !! nick) as [rk|]; [auto|intros [= <-]; cbn; auto].
Qed.

(* a query (no mode string) changes nothing *)
Lemma process_mode_channel_query s c target nick co rk r :
  process_mode_channel cfg i s c target nick co rk [] = Ok r -> h_sh r = s /\ h_conn r = c.
Proof. unfold process_mode_channel. cbn. intros [= <-]. auto. Qed.

(* the result of a mode command: only the target channel's record is replaced, its members,
   topic and marks are as before; what is queued for others is the announcement, once per member *)
Lemma process_mode_channel_effect s c target nick co rk modes r :
  modes <> [] -> process_mode_channel cfg i s c target nick co rk modes = Ok r ->
  h_conn r = c /\ h_quit r = false /\
  exists co', h_sh r = set_chans (fun cs => <[target := co']> cs) s /\
    dom (ch_users co') = dom (ch_users co) /\ ch_topic co' = ch_topic co /\ ch_preconf co' = ch_preconf co.
Proof.
  intros Hne. unfold process_mode_channel. destruct modes as [|m0 ms]; [contradiction|]. cbn [is_empty].
  match goal with |- (let! m := ?x in _) = _ -> _ => destruct x as [m|] eqn:Hf end; cbn [rbind]; [|discriminate].
  match goal with |- (let! ann := ?x in _) = _ -> _ => destruct x as [ann|] end; cbn [rbind]; [|discriminate].
  intros [= <-]. cbn. repeat split. exists (ms_chan m). split; [reflexivity|].
  assert (forall l m0 m1, rfold (fun m '(mchars, margs) => mode_chars c (client_name c) target nick rk mchars false margs m) l m0 = Ok m1 ->
            dom (ch_users (ms_chan m1)) = dom (ch_users (ms_chan m0)) /\ ch_topic (ms_chan m1) = ch_topic (ms_chan m0)
            /\ ch_preconf (ms_chan m1) = ch_preconf (ms_chan m0)) as Hgen.
  { induction l as [|[mc ma] l IH]; intros ma0 ma1; cbn [rfold].
    - intros [= <-]. auto.
    - destruct (mode_chars _ _ _ _ _ mc false ma ma0) as [m2|] eqn:H2; cbn [rbind]; [|discriminate].
      intros H. apply IH in H as [A [B C]]. apply mode_chars_frame in H2 as [A2 [B2 [C2 _]]]. repeat split; congruence. }
  apply Hgen in Hf. cbn in Hf. exact Hf.
Qed.

End mode.
