(* NickP.v - the full effect of an accepted NICK change of a registered user, and the refusals. *)
From IRC Require Import Str Wild Glob Mask Parse Reply State Handlers Step.
From IRCP Require Import StrP ChanP ModeP InvDefs InvPrims InvNick InvHandlers.
From stdpp Require Import gmap.
Open Scope N_scope.

Local Arguments lit : simpl never.

Section nick.
Context (cfg : config) (verify : str -> str -> bool) (i : nat).

Lemma process_nick_effect s c nick msg old u :
  InvS s -> c_auth c = true -> c_nick c = Some old -> users s !! old = Some u ->
  nick <> old -> users s !! nick = None ->
  let u' := u_set_source (c_source (c_with_nick nick c)) u in
  exists r, process_nick cfg verify i s c nick msg = Ok r /\ h_conn r = c_with_nick nick c /\ h_quit r = false /\
    users (h_sh r) = <[nick := u']> (delete old (users s)) /\
    (forall ch, chans (h_sh r) !! ch =
       if bool_decide (ch ∈ u_chans u) then option_map (chan_renamed old nick) (chans s !! ch) else chans s !! ch) /\
    wallops (h_sh r) = (if bool_decide (old ∈ wallops s) then {[nick]} ∪ (wallops s ∖ {[old]}) else wallops s) /\
    histories (h_sh r) = <[old := default [] (histories s !! old) ++ [u_hist u]]> (histories s) /\
    inv_count (h_sh r) = inv_count s /\ op_count (h_sh r) = op_count s /\ max_users (h_sh r) = max_users s /\
    server_quit (h_sh r) = server_quit s /\
    h_out r = List.map (fun '(_, v) => (u_conn v, to_string_with_source msg (c_source c))) (map_to_list (users (h_sh r))).
Proof.
  intros I A Hn Hu Hb Hnew u'.
  unfold process_nick. rewrite A. cbn [negb]. unfold own_nick. rewrite Hn. cbn [rbind].
  rewrite bool_decide_eq_false_2 by exact Hb. rewrite Hnew. unfold get_user. rewrite Hu. cbn [rbind].
  assert (u_chans u' = u_chans u) as Hc' by reflexivity.
  set (s0 := set_users (delete old) s).
  destruct (fold_rename old nick (elements (u_chans u')) s0 (NoDup_elements _)) as [s1 [Hf [Hcs1 [Hus1 [Hw1 [Hi1 [Ho1 [Hm1 [Hh1 Hq1]]]]]]]]].
  { intros ch Hch. apply elem_of_elements in Hch. rewrite Hc' in Hch. destruct (is_uc s I _ _ _ Hu Hch) as [co [Hco Hin]]. eauto. }
  unfold rename_step in Hf. fold u'. rewrite Hf. cbn [rbind].
  eexists. split; [reflexivity|]. cbn [h_sh h_conn h_quit h_out].
  split; [reflexivity|]. split; [reflexivity|].
  match goal with |- users ?sf = _ /\ _ => set (sfin := sf) end.
  assert (users sfin = <[nick := u']> (delete old (users s))) as Husf.
  { unfold sfin. destruct (bool_decide _); cbn; now rewrite Hus1. }
  split; [exact Husf|]. split.
  { intros ch.
    assert (bool_decide (ch ∈ elements (u_chans u')) = bool_decide (ch ∈ u_chans u)) as Eb.
    { apply bool_decide_ext. rewrite elem_of_elements, Hc'. reflexivity. }
    unfold sfin. destruct (bool_decide (old ∈ _)); cbn; rewrite Hcs1, Eb; reflexivity. }
  split. { unfold sfin. cbn. rewrite Hw1. cbn. destruct (bool_decide (old ∈ wallops s)); cbn; now rewrite ?Hw1. }
  split. { unfold sfin. destruct (bool_decide _); cbn; now rewrite Hh1. }
  split. { unfold sfin. destruct (bool_decide _); cbn; now rewrite Hi1. }
  split. { unfold sfin. destruct (bool_decide _); cbn; now rewrite Ho1. }
  split. { unfold sfin. destruct (bool_decide _); cbn; now rewrite Hm1. }
  split. { unfold sfin. destruct (bool_decide _); cbn; now rewrite Hq1. }
  reflexivity.
Qed.

(* everything attached to the user travels with it: only the source prefix is rewritten *)
Lemma moved_record src u :
  let u' := u_set_source src u in
  u_conn u' = u_conn u /\ u_modes u' = u_modes u /\ u_away u' = u_away u /\ u_chans u' = u_chans u /\
  u_invited u' = u_invited u /\ u_host u' = u_host u /\ u_name u' = u_name u /\ u_real u' = u_real u /\ u_source u' = src.
Proof. cbn. repeat split. Qed.

(* membership and ranks in a renamed channel *)
Lemma chan_renamed_spec old new co : old ∈ dom (ch_users co) -> new ∉ dom (ch_users co) -> new <> old ->
  ch_users (chan_renamed old new co) !! new = ch_users co !! old /\
  ch_users (chan_renamed old new co) !! old = None /\
  (forall n, n <> old -> n <> new -> ch_users (chan_renamed old new co) !! n = ch_users co !! n) /\
  (forall l, cm_get_rankset l (ch_modes (chan_renamed old new co)) = rename_in_set old new (cm_get_rankset l (ch_modes co))) /\
  ch_topic (chan_renamed old new co) = ch_topic co /\ ch_preconf (chan_renamed old new co) = ch_preconf co.
Proof.
  intros Ho Hn Hne. apply elem_of_dom in Ho as [r Hr]. unfold chan_renamed. cbn. rewrite Hr. cbn.
  split; [apply lookup_insert|]. split; [rewrite lookup_insert_ne by congruence; apply lookup_delete|].
  split; [intros n N1 N2; rewrite lookup_insert_ne by congruence; now rewrite lookup_delete_ne by congruence|].
  split; [intros l; apply renamed_rankset|]. split; reflexivity.
Qed.

Lemma process_nick_refused s c nick msg old x :
  c_auth c = true -> c_nick c = Some old -> nick <> old -> users s !! nick = Some x ->
  process_nick cfg verify i s c nick msg = hr s c [(i, srv cfg (err_nicknameinuse (client_name c) nick))].
Proof.
  intros A Hn Hb Hx. unfold process_nick. rewrite A. cbn [negb]. unfold own_nick. rewrite Hn. cbn [rbind].
  rewrite bool_decide_eq_false_2 by exact Hb. rewrite Hx. reflexivity.
Qed.

Lemma process_nick_same s c msg old :
  c_auth c = true -> c_nick c = Some old -> process_nick cfg verify i s c old msg = hr s c [].
Proof.
  intros A Hn. unfold process_nick. rewrite A. cbn [negb]. unfold own_nick. rewrite Hn. cbn [rbind].
  now rewrite bool_decide_eq_true_2.
Qed.

End nick.
