(* RankGlobal.v - over whole steps (any event of any connection): a user who is a member of a channel before and after
   a step, under the same nick, holds the same rank flags unless the event is a MODE line of a registered connection
   naming that channel.  Ranks are given by MODE, by the channel's creation / configured lists at JOIN, and lost with the
   membership - nothing else touches them. *)
From IRC Require Import Str Wild Glob Mask Parse Reply State Handlers Step.
From IRCP Require Import StrP InvDefs InvPrims InvHandlers InvStep Reach ModesFrame SettingsFrame SettingsGlobal RankFrame.
From stdpp Require Import gmap.
Open Scope N_scope.

Local Arguments lit : simpl never.

Section global.
Context (cfg : config) (verify : str -> str -> bool).

Theorem line_ranks i s c l r : InvS s -> conn_ok i s c ->
  process_line cfg verify i s c l = Ok r ->
  forall ch co co' n r1 r2, chans s !! ch = Some co -> chans (h_sh r) !! ch = Some co' -> rk n co = Some r1 -> rk n co' = Some r2 ->
  r2 = r1 \/ mode_line_for c l ch.
Proof.
  intros I C H ch co co' n r1 r2 H1 H2 R1 R2.
  assert (forall o, Ok {| h_sh := s; h_conn := c; h_out := o; h_quit := false |} = Ok r -> r2 = r1 \/ mode_line_for c l ch) as Same.
  { intros o [= <-]. cbn in H2. left. congruence. }
  unfold process_line in H. destruct (tokenize l) as [msg|[| |]] eqn:Ht; try (eapply Same; exact H).
  destruct (command_of_message msg) as [cmd|e] eqn:Hcmd; [|eapply Same; exact H].
  destruct (needs_registration cmd && negb (c_auth c)) eqn:G; [eapply Same; exact H|].
  destruct (c_auth c) eqn:A.
  - destruct (match cmd with MODE _ _ => true | _ => false end) eqn:Em.
    + destruct cmd; try discriminate Em. cbn [dispatch] in H.
      destruct (decide (ch = target)) as [->|Hne]; [right; split; [exact A|eauto]|].
      destruct (own_user i s c C A) as [nick [u [Hn [Hu [Hc [Ho Hg]]]]]].
      left. rewrite (mode_rkeeps_others cfg i s c target modes r nick Ho H ch co co' Hne H1 H2) in R2. congruence.
    + left. eapply (dispatch_ranks cfg verify i s c cmd msg r I C A H); eauto. intros t m ->. discriminate Em.
  - cbn in G. rewrite andb_true_r in G. left. rewrite (unauth_dispatch_chans cfg verify i s c cmd msg r A G H) in H2. congruence.
Qed.

Theorem ranks_change_only_by_mode w i e w' o cl : Inv w -> step cfg verify w i e = Ok (w', o, cl) ->
  forall ch co co' n r1 r2, chans (sh w) !! ch = Some co -> chans (sh w') !! ch = Some co' ->
  ch_users co !! n = Some r1 -> ch_users co' !! n = Some r2 ->
  r2 = r1 \/
  exists c l, conns w !! i = Some c /\ e = EvLine l /\ mode_line_for c l ch.
Proof.
  intros I H ch co co' n r1 r2 H1 H2 R1 R2. pose proof (InvK_of_Inv w I) as K. unfold step in H.
  destruct (step_raw cfg verify w i e) as [[[w1 o1] c1]|] eqn:Hr; [|discriminate]. cbn [rbind] in H.
  destruct (deliver_kills cfg w1) as [[[w2 o2] c2]|] eqn:Hk; [|discriminate]. cbn [rbind] in H. injection H as <- _ _.
  destruct (deliver_kills_rshrink cfg w1 w2 o2 c2 Hk ch co' n r2 H2 R2) as [cx [Hx Rx]]. clear H2 R2 Hk co'.
  assert (forall c, conns w !! i = Some c -> forall (o0 : outl) (cl0 : list nat),
            (let! wx := teardown i w in Ok (wx, o0, cl0)) = Ok (w1, o1, c1) -> r2 = r1) as TD.
  { intros c Hc o0 cl0 E. destruct (teardown i w) as [wx|] eqn:Ht; cbn [rbind] in E; [|discriminate]. injection E as <- _ _.
    destruct (teardown_rshrink i w wx Ht ch cx n r2 Hx Rx) as [c0 [H0 R0]]. unfold rk in R0. congruence. }
  assert (Ok (w, @nil (nat * str), @nil nat) = Ok (w1, o1, c1) -> r2 = r1) as Same.
  { intros [= <- _ _]. unfold rk in Rx. congruence. }
  destruct e; cbn [step_raw] in Hr.
  - left. destruct (conns w !! i); [now apply Same|]. destruct (server_quit (sh w)); [injection Hr as <- _ _; unfold rk in Rx; congruence|].
    destruct (match cfg_max_connections cfg with Some m => N.ltb (nconns w) m | None => true end); injection Hr as <- _ _; cbn in Hx; unfold rk in Rx; congruence.
  - destruct (conns w !! i) as [c|] eqn:Hc; [|left; now apply Same].
    destruct (process_line cfg verify i (sh w) c l) as [r|] eqn:Hl; cbn [rbind] in Hr; [|discriminate].
    assert (exists c1', chans (h_sh r) !! ch = Some c1' /\ rk n c1' = Some r2) as [c1' [Hc1 E1]].
    { destruct (h_quit r).
      - destruct (teardown i _) as [wx|] eqn:Ht; cbn [rbind] in Hr; [|discriminate]. injection Hr as <- _ _.
        destruct (teardown_rshrink i _ wx Ht ch cx n r2 Hx Rx) as [c0 [H0 E0]]. cbn in H0. eauto.
      - injection Hr as <- _ _. cbn in Hx. eauto. }
    destruct (line_ranks i (sh w) c l r (ik_s w K) (ik_cu w K i c Hc) Hl ch co c1' n r1 r2 H1 Hc1 R1 E1) as [L|R]; [now left|].
    right. exists c, l. auto.
  - left. destruct (conns w !! i) as [c|] eqn:Hc; [|now apply Same]. eapply TD; eauto.
  - left. destruct (conns w !! i) as [c|] eqn:Hc; [|now apply Same]. eapply TD; eauto.
  - left. destruct (conns w !! i) as [c|] eqn:Hc; [|now apply Same]. eapply TD; eauto.
  - left. destruct (conns w !! i) as [c|] eqn:Hc; [|now apply Same]. injection Hr as <- _ _. unfold rk in Rx. congruence.
  - left. destruct (conns w !! i) as [c|] eqn:Hc; [|now apply Same]. eapply TD; eauto.
Qed.

End global.
