(* JoinP2.v - the whole JOIN command for one channel (C07). *)
From IRC Require Import Str Wild Glob Mask Parse Reply State Handlers.
From IRCP Require Import WildP BanP JoinP.
From stdpp Require Import gmap.
Open Scope N_scope.

Local Arguments lit : simpl never.

Section join2.
Context (cfg : config) (i : nat).

(* ---------------------------------------------------------------- the whole command, one channel *)
Definition quota_ok (u : user) : Prop :=
  match cfg_max_joins cfg with
  | Some mj => (N.of_nat (size (u_chans u)) < mj)%N
  | None => True
  end.

Definition supplied_key (keys : option (list str)) : option (option str) :=
  match keys with
  | None => None
  | Some ks => match ks with k :: _ => Some (Some k) | [] => None end
  end.

Lemma process_join_single s c ch keys r nick u co :
  c_nick c = Some nick -> users s !! nick = Some u -> chans s !! ch = Some co ->
  nick ∉ dom (ch_users co) -> (forall ks, keys = Some ks -> length ks = 1%nat) ->
  process_join cfg i s c [ch] keys = Ok r ->
  h_conn r = c /\ h_quit r = false /\
  ((join_allowed co u ch (c_source c) (supplied_key keys) /\ quota_ok u) ->
     users (h_sh r) = <[nick := u_set_invited (fun v => v ∖ {[ch]}) (u_set_chans (fun cs => {[ch]} ∪ cs) u)]> (users s)
     /\ chans (h_sh r) = <[ch := chan_add_user nick co]> (chans s)) /\
  (~ (join_allowed co u ch (c_source c) (supplied_key keys) /\ quota_ok u) ->
     h_sh r = s /\ h_out r <> [] /\ Forall (fun x => x.1 = i) (h_out r)).
Proof.
  intros Hn Hu Hco Hnm Hk. unfold process_join, own_nick, get_user. rewrite Hn. cbn [rbind]. rewrite Hu. cbn [rbind].
  cbn [join_phase1 existsb].
  assert (exists key, (match keys with
                       | None => Ok None
                       | Some ks => match nth_error ks 0 with
                                    | Some k => Ok (Some (Some k))
                                    | None => Panic P_join_key_index end end) = Ok key
                      /\ key = supplied_key keys) as [key [-> ->]].
  { destruct keys as [[|k ks]|]; cbn.
    - specialize (Hk [] eq_refl). discriminate.
    - eexists. split; reflexivity.
    - eexists. split; reflexivity. }
  cbn [rbind].
  pose proof (join_check_spec s c u nick (client_name c) ch (supplied_key keys) co Hco Hnm) as Sp.
  cbn zeta in Sp.
  destruct (join_check s c u nick (client_name c) ch (supplied_key keys)) as [[j cr] o1].
  cbn [fst snd] in Sp. destruct Sp as [-> [Hj [Ho1 Hrefused]]].
  unfold quota_ok.
  assert (forall (o : list str), Forall (fun x : nat * str => x.1 = i) (mine cfg i o)) as Hmine.
  { intros o. apply Forall_forall. intros x Hx. apply elem_of_list_fmap in Hx as [y [-> _]]. reflexivity. }
  assert (forall s' plan o, (let! o2 := rfold (join_announce cfg i c nick (client_name c) s') plan [] in
                       hr s' c (mine cfg i o ++ o2)) = Ok r -> h_sh r = s' /\ h_conn r = c /\ h_quit r = false) as Hfin.
  { intros s' plan o. destruct (rfold (join_announce cfg i c nick (client_name c) s') plan []) as [o2|]; cbn [rbind]; [|discriminate].
    intros [= <-]. cbn. auto. }
  match goal with |- context [let '(do_join, o2) := ?m in _] => destruct m as [q o2] eqn:Hdq end.
  cbn [rbind rfold].
  assert ((q = true <-> (join_allowed co u ch (c_source c) (supplied_key keys) /\
                        match cfg_max_joins cfg with Some mj => N.of_nat (size (u_chans u)) < mj | None => True end))
          /\ (q = false -> j = true -> o2 <> [])) as [Hq Ho2].
  { destruct (cfg_max_joins cfg) as [mj|]; injection Hdq as <- <-.
    - split.
      + rewrite andb_true_iff, N.ltb_lt. destruct j; [tauto|]. split; [intros [? _]; discriminate|].
        intros [Hall _]. apply Hj in Hall. discriminate.
      + intros Hf ->. cbn [andb] in Hf. apply N.ltb_ge in Hf.
        destruct (N.leb_spec mj (N.of_nat (size (u_chans u)))); [discriminate|lia].
    - split; [|intros -> [=]].
      destruct j; [tauto|]. split; [discriminate|]. intros [Hall _]. apply Hj in Hall. discriminate. }
  destruct q.
  - (* accepted *)
    destruct (join_insert nick s (ch, (true, false))) as [s'|] eqn:Hins; cbn [rbind]; [|discriminate].
    destruct (join_insert_existing nick s ch s' u co Hu Hco Hins) as [Hus [Hcs _]].
    intros H.
    match type of H with (let! _ := ?x in _) = _ => destruct x as [o3|]; cbn [rbind] in H; [|discriminate] end.
    injection H as <-. cbn [h_sh h_conn h_quit h_out].
    repeat split; try assumption;
      exfalso; match goal with Hno : ~ _ |- _ => apply Hno, Hq; reflexivity end.
  - (* refused *)
    cbn [join_insert negb rbind]. intros H.
    assert (~ (join_allowed co u ch (c_source c) (supplied_key keys) /\
               match cfg_max_joins cfg with Some mj => N.of_nat (size (u_chans u)) < mj | None => True end)) as Hno.
    { intros Hyes. apply Hq in Hyes. discriminate. }
    cbn [rfold join_announce negb rbind] in H. injection H as <-. cbn [h_sh h_conn h_quit h_out].
    repeat split; try tauto.
    + rewrite !app_nil_r. unfold mine. intros Hnil. apply fmap_nil_inv in Hnil.
      apply app_eq_nil in Hnil as [E1 E2].
      destruct j.
      * apply Ho2; auto.
      * subst o1. destruct (Hrefused eq_refl) as [[_ F]|[[_ [_ F]]|[[_ [_ [_ F]]]|[_ [_ [_ [_ F]]]]]]]; discriminate.
    + rewrite !app_nil_r. apply Hmine.
Qed.

End join2.
