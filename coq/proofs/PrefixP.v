(* PrefixP.v - the rank prefix a member is listed with in NAMES / WHO / WHOIS (ChannelUserModes::to_string). *)
From IRC Require Import Str State.
From Coq Require Import List.
Import ListNotations.

Definition all_prefixes (r : rank) : str :=
  (if r_founder r then lit "~" else []) ++ (if r_protected r then lit "&" else []) ++ (if r_operator r then lit "@" else [])
  ++ (if r_half r then lit "%" else []) ++ (if r_voice r then lit "+" else []).

Theorem prefix_shows_every_rank r :
  rank_prefix true r = all_prefixes r /\ rank_prefix false r = firstn 1 (all_prefixes r).
Proof. destruct r as [[] [] [] [] []]; split; reflexivity. Qed.
