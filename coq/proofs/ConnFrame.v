(* ConnFrame.v - what a command does to the sender's own connection record: nothing, except CAP (negotiation flags),
   NICK (nick and source), and the registration commands of an unregistered connection.  In particular the transport
   flag c_secure - set when the connection is accepted, read only by WHOIS for its 671 line - is never changed. *)
From IRC Require Import Str Wild Glob Mask Parse Reply State Handlers Step.
From IRCP Require Import StrP ChanP InvDefs InvPrims InvNick InvHandlers InvStep Reach NickP OperP ModesFrame.
From stdpp Require Import gmap.
Open Scope N_scope.

Local Arguments lit : simpl never.

Section frame.
Context (cfg : config) (verify : str -> str -> bool) (i : nat).

Ltac same H := injection H as <-; reflexivity.

Lemma join_conn s c chs keys r : process_join cfg i s c chs keys = Ok r -> h_conn r = c.
Proof.
  unfold process_join. destruct (own_nick c) as [nick|]; cbn [rbind]; [|discriminate].
  destruct (get_user s nick) as [u|]; cbn [rbind]; [|discriminate].
  destruct (join_phase1 _ _ _ _ _ _ _ _ _ _ _) as [[[plan o1] q]|]; cbn [rbind]; [|discriminate].
  destruct (rfold (join_insert nick) plan s) as [s'|]; cbn [rbind]; [|discriminate].
  match goal with |- context [rfold ?G plan []] => destruct (rfold G plan []) as [o2|] end; cbn [rbind]; [|discriminate].
  intros [= <-]. reflexivity.
Qed.

Lemma part_conn s c chs reason r : process_part cfg i s c chs reason = Ok r -> h_conn r = c.
Proof.
  unfold process_part. destruct (own_nick c) as [nick|]; cbn [rbind]; [|discriminate].
  match goal with |- context [rfold ?F chs (s, [])] => destruct (rfold F chs (s, [])) as [[s' o]|] end; cbn [rbind]; [|discriminate].
  destruct (get_user s' nick); cbn [rbind]; [|discriminate]. intros [= <-]. reflexivity.
Qed.

Lemma kick_conn s c ch victims comment r : process_kick cfg i s c ch victims comment = Ok r -> h_conn r = c.
Proof.
  unfold process_kick. destruct (own_nick c) as [nick|]; cbn [rbind]; [|discriminate].
  destruct (kick_decide s nick (client_name c) ch victims) as [kicked o1].
  destruct (rfold (fun s v => st_remove_user_from_channel ch v s) kicked s) as [s'|]; cbn [rbind]; [|discriminate].
  match goal with |- context [rfold ?G kicked []] => destruct (rfold G kicked []) end; cbn [rbind]; [|discriminate]. intros [= <-]. reflexivity.
Qed.

Lemma topic_conn s c ch topic msg r : process_topic cfg i s c ch topic msg = Ok r -> h_conn r = c.
Proof.
  unfold process_topic. destruct (own_nick c) as [nick|]; cbn [rbind]; [|discriminate].
  destruct topic as [t|].
  - destruct (chans s !! ch) as [co|]; [|intros H; same H].
    destruct (ch_users co !! nick) as [rk|]; [|intros H; same H].
    destruct (topic_allowed co rk); [|intros H; same H].
    destruct (send_all _ _ _); cbn [rbind]; [|discriminate]. intros [= <-]. reflexivity.
  - destruct (chans s !! ch) as [co|]; [|intros H; same H].
    destruct (bool_decide _); [|intros H; same H]. destruct (ch_topic co) as [[t w]|]; intros H; same H.
Qed.

Lemma invite_conn s c nickname ch msg r : process_invite cfg i s c nickname ch msg = Ok r -> h_conn r = c.
Proof.
  unfold process_invite. destruct (own_nick c) as [nick|]; cbn [rbind]; [|discriminate].
  destruct (chans s !! ch) as [co|]; [|intros H; same H].
  destruct (ch_users co !! nick) as [rk|]; [|intros H; same H].
  destruct (_ && _); [intros H; same H|]. destruct (bool_decide _); [intros H; same H|].
  destruct (users s !! nickname) as [inv|]; intros H; same H.
Qed.

Lemma mode_channel_conn s c target nick co rk modes r :
  process_mode_channel cfg i s c target nick co rk modes = Ok r -> h_conn r = c.
Proof.
  unfold process_mode_channel. destruct (is_empty modes); [intros H; same H|].
  match goal with |- context [rfold ?G modes ?m0] => destruct (rfold G modes m0) as [m|] end; cbn [rbind]; [|discriminate].
  destruct (match mode_announcement target m with Some _ => _ | None => _ end); cbn [rbind]; [|discriminate].
  intros [= <-]. reflexivity.
Qed.

Lemma kill_conn s c nickname comment r : process_kill cfg i s c nickname comment = Ok r -> h_conn r = c.
Proof.
  unfold process_kill. destruct (own_nick c) as [nick|]; cbn [rbind]; [|discriminate].
  destruct (get_user s nick) as [u|]; cbn [rbind]; [|discriminate].
  destruct (um_oper (u_modes u)); [|intros H; same H].
  destruct (users s !! nickname) as [v|]; [|intros H; same H].
  destruct (u_kill v); intros H; same H.
Qed.

Lemma die_conn s c message r : process_die cfg i s c message = Ok r -> h_conn r = c.
Proof.
  unfold process_die. destruct (own_nick c) as [nick|]; cbn [rbind]; [|discriminate].
  destruct (get_user s nick) as [u|]; cbn [rbind]; [|discriminate].
  destruct (um_oper (u_modes u)); intros H; same H.
Qed.

Lemma away_conn s c text r : process_away cfg i s c text = Ok r -> h_conn r = c.
Proof.
  unfold process_away. destruct (own_nick c) as [nick|]; cbn [rbind]; [|discriminate].
  destruct (get_user s nick) as [u|]; cbn [rbind]; [|discriminate]. intros H; same H.
Qed.

(* the fields of the connection record a command of a REGISTERED connection can change: negotiation flags (CAP) and
   nick + source (NICK); everything else - host, names, password, registration marks, the transport flag - stays *)
Definition cfixed (c : conn) := (c_host c, c_name c, c_real c, c_pass c, c_auth c, c_registered c, c_secure c, c_sender_taken c).

Theorem dispatch_conn_fixed s c cmd msg r :
  InvS s -> conn_ok i s c -> c_auth c = true ->
  dispatch cfg verify i s c cmd msg = Ok r -> cfixed (h_conn r) = cfixed c.
Proof.
  intros I C A H.
  destruct (own_user i s c C A) as [nick [u [Hn [Hu [Hc [Ho Hg]]]]]].
  assert (forall r0, same_result s c r0 -> cfixed (h_conn r0) = cfixed c) as Same.
  { intros r0 [_ [E _]]. now rewrite E. }
  assert (forall (P : res hres), (exists r0, P = Ok r0 /\ same_result s c r0) -> P = Ok r -> cfixed (h_conn r) = cfixed c) as S2.
  { intros P [r0 [-> Hs]] [= <-]. now apply Same. }
  assert (forall o, Ok {| h_sh := s; h_conn := c; h_out := o; h_quit := false |} = Ok r -> cfixed (h_conn r) = cfixed c) as S3.
  { intros o [= <-]. reflexivity. }
  assert (h_conn r = c -> cfixed (h_conn r) = cfixed c) as EQ by (intros ->; reflexivity).
  destruct cmd; cbn [dispatch] in H.
  - unfold process_cap in H. destruct sub.
    + injection H as <-. reflexivity.
    + injection H as <-. reflexivity.
    + destruct caps as [cs|]; [destruct (forallb _ cs)|]; injection H as <-; reflexivity.
    + rewrite A in H. injection H as <-. reflexivity.
  - injection H as <-. reflexivity.
  - unfold process_pass in H. rewrite A in H. injection H as <-. reflexivity.
  - (* NICK *)
    destruct (decide (nickname = nick)) as [->|Hne].
    { rewrite (process_nick_same cfg verify i s c msg nick A Hn) in H. injection H as <-. reflexivity. }
    destruct (users s !! nickname) as [x|] eqn:Hx.
    { rewrite (process_nick_refused cfg verify i s c nickname msg nick x A Hn Hne Hx) in H. injection H as <-. reflexivity. }
    destruct (process_nick_effect cfg verify i s c nickname msg nick u I A Hn Hu Hne Hx) as [r0 [Hr [Ec _]]].
    rewrite Hr in H. injection H as <-. rewrite Ec. reflexivity.
  - unfold process_user in H. rewrite A in H. injection H as <-. reflexivity.
  - injection H as <-. reflexivity.
  - injection H as <-. reflexivity.
  - destruct (oper_spec cfg verify i s c name password nick u Hn Hu) as [r0 [Hr [Ec _]]].
    rewrite Hr in H. injection H as <-. now apply EQ.
  - injection H as <-. reflexivity.
  - apply EQ. eapply join_conn; eauto.
  - apply EQ. eapply part_conn; eauto.
  - apply EQ. eapply topic_conn; eauto.
  - eapply S2; [|exact H]. now apply process_names_ok.
  - unfold process_list in H. destruct server; eapply S3; exact H.
  - apply EQ. eapply invite_conn; eauto.
  - apply EQ. eapply kick_conn; eauto.
  - unfold process_motd in H. destruct target; eapply S3; exact H.
  - unfold process_version in H. destruct target; eapply S3; exact H.
  - unfold process_admin in H. destruct target; eapply S3; exact H.
  - eapply S3; exact H.
  - unfold process_lusers in H. destruct (lusers_lines s (client_name c)); cbn [rbind] in H; [|discriminate]. eapply S3; exact H.
  - unfold process_time in H. destruct server; eapply S3; exact H.
  - unfold process_stats in H. destruct server; [eapply S3; exact H|].
    rewrite Ho in H. cbn [rbind] in H. rewrite Hg in H. cbn [rbind] in H. destruct (is_local_oper _); eapply S3; exact H.
  - unfold process_links in H. destruct remote_server, server_mask; eapply S3; exact H.
  - unfold process_help in H. destruct (help_topic _); eapply S3; exact H.
  - eapply S3; exact H.
  - unfold process_mode in H. rewrite Ho in H. cbn [rbind] in H. destruct (validate_channel target).
    + destruct (chans s !! target) as [co|]; [|eapply S3; exact H].
      destruct (ch_users co !! nick) as [rk|]; [|eapply S3; exact H].
      apply EQ. eapply mode_channel_conn; eauto.
    + destruct (bool_decide (nick = target)).
      * destruct (mode_user_no_grant cfg i s c nick modes r u Hu H) as [m' [_ [_ [_ [Ec _]]]]]. now apply EQ.
      * destruct (users s !! target); eapply S3; exact H.
  - eapply S2; [|exact H]. now apply process_privmsg_ok.
  - eapply S2; [|exact H]. now apply process_privmsg_ok.
  - eapply S2; [|exact H]. now apply process_who_ok.
  - eapply S2; [|exact H]. now apply process_whois_ok.
  - unfold process_whowas in H. destruct server; eapply S3; exact H.
  - apply EQ. eapply kill_conn; eauto.
  - eapply S3; exact H.
  - eapply S3; exact H.
  - unfold process_squit in H. destruct (bool_decide _); [|eapply S3; exact H]. apply EQ. eapply die_conn; eauto.
  - apply EQ. eapply away_conn; eauto.
  - eapply S3; exact H.
  - eapply S2; [|exact H]. now apply process_wallops_ok.
  - eapply S3; exact H.
  - apply EQ. eapply die_conn; eauto.
Qed.

(* the registration commands of an unregistered connection set names, password, nick and the registration marks - never
   host or transport flag *)
Definition ctransport (c : conn) := (c_host c, c_secure c).

Lemma authenticate_transport s c r : authenticate cfg verify i s c = Ok r -> ctransport (h_conn r) = ctransport c.
Proof.
  unfold authenticate. destruct (c_capneg c); [intros [= <-]; reflexivity|].
  destruct (c_nick c) as [nick|]; [|intros [= <-]; reflexivity].
  destruct (c_name c) as [name|]; [|intros [= <-]; reflexivity].
  destruct (negb _); [intros [= <-]; reflexivity|].
  match goal with |- (if ?g then _ else _) = _ -> _ => destruct g end; [|intros [= <-]; reflexivity].
  destruct (users s !! nick); [intros [= <-]; reflexivity|].
  destruct (c_sender_taken c); [discriminate|].
  destruct (lusers_lines _ _); cbn [rbind]; [|discriminate]. intros [= <-]. reflexivity.
Qed.

Lemma unauth_dispatch_transport s c cmd msg r : c_auth c = false -> needs_registration cmd = false ->
  dispatch cfg verify i s c cmd msg = Ok r -> ctransport (h_conn r) = ctransport c.
Proof.
  intros A Hn. destruct cmd; try discriminate Hn; cbn [dispatch].
  - unfold process_cap. destruct sub.
    + intros [= <-]; reflexivity.
    + intros [= <-]; reflexivity.
    + destruct caps as [cs|]; [destruct (forallb _ cs)|]; intros [= <-]; reflexivity.
    + rewrite A. intros H. apply authenticate_transport in H. exact H.
  - intros [= <-]; reflexivity.
  - unfold process_pass. rewrite A. intros H. apply authenticate_transport in H. exact H.
  - unfold process_nick. rewrite A. cbn [negb]. destruct (users s !! nickname); [intros [= <-]; reflexivity|].
    intros H. apply authenticate_transport in H. exact H.
  - unfold process_user. rewrite A. intros H. apply authenticate_transport in H. exact H.
  - intros [= <-]; reflexivity.
Qed.

Theorem line_transport s c l r : InvS s -> conn_ok i s c ->
  process_line cfg verify i s c l = Ok r -> ctransport (h_conn r) = ctransport c.
Proof.
  intros I C H.
  assert (forall o, Ok {| h_sh := s; h_conn := c; h_out := o; h_quit := false |} = Ok r -> ctransport (h_conn r) = ctransport c) as Same.
  { intros o [= <-]. reflexivity. }
  unfold process_line in H. destruct (tokenize l) as [msg|[| |]] eqn:Ht; try (eapply Same; exact H).
  destruct (command_of_message msg) as [cmd|e] eqn:Hcmd; [|eapply Same; exact H].
  destruct (needs_registration cmd && negb (c_auth c)) eqn:G; [eapply Same; exact H|].
  destruct (c_auth c) eqn:A.
  - pose proof (dispatch_conn_fixed s c cmd msg r I C A H) as F. unfold cfixed in F. unfold ctransport. congruence.
  - cbn in G. rewrite andb_true_r in G. eapply unauth_dispatch_transport; eauto.
Qed.

(* WHOIS is the one reader of the transport flag: with it set the answer for a user is the same answer plus the
   671 line at the end *)
Definition c_with_secure (b : bool) (c : conn) : conn :=
  {| c_host := c_host c; c_name := c_name c; c_real := c_real c; c_nick := c_nick c; c_source := c_source c; c_pass := c_pass c;
     c_auth := c_auth c; c_registered := c_registered c; c_capneg := c_capneg c; c_multi := c_multi c; c_secure := b;
     c_sender_taken := c_sender_taken c; c_pong_pending := c_pong_pending c |}.

Theorem whois_secure_adds_671 s c client viewer n :
  whois_one cfg s (c_with_secure true c) client viewer n =
  match whois_one cfg s (c_with_secure false c) client viewer n with
  | Ok [] => Ok []
  | Ok ls => Ok (ls ++ [rpl_whoissecure client n])
  | Panic p => Panic p
  end.
Proof.
  unfold whois_one. destruct (get_user s n) as [u|]; cbn [rbind]; [|reflexivity].
  destruct (um_invisible (u_modes u) && sets_disjoint (u_chans u) (u_chans viewer)); [reflexivity|].
  change (c_multi (c_with_secure true c)) with (c_multi c). change (c_multi (c_with_secure false c)) with (c_multi c).
  match goal with |- context [rfold ?F ?L ?A] => destruct (rfold F L A) as [chs|] end; cbn [rbind]; [|reflexivity].
  cbn [c_secure c_with_secure]. rewrite app_nil_r.
  destruct (um_registered (u_modes u)); cbn [app]; rewrite <- ?app_assoc; cbn [app]; repeat f_equal; rewrite <- ?app_assoc; reflexivity.
Qed.

End frame.

Section global.
Context (cfg : config) (verify : str -> str -> bool).

(* whatever happens, a connection keeps the host and the transport flag it was accepted with *)
Theorem transport_fixed_at_accept w i e w' o cl j c c' : Inv w -> step cfg verify w i e = Ok (w', o, cl) ->
  conns w !! j = Some c -> conns w' !! j = Some c' -> ctransport c' = ctransport c.
Proof.
  intros I H Hc Hc'. pose proof (InvK_of_Inv w I) as K. unfold step in H.
  destruct (step_raw cfg verify w i e) as [[[w1 o1] c1]|] eqn:H1; [|discriminate]. cbn [rbind] in H.
  destruct (step_raw_frame cfg verify w i e w1 o1 c1 K H1) as [K1 [_ [Hoth [_ [Hcl _]]]]].
  destruct (deliver_kills_ok cfg w1 K1) as [w2 [o2 [c2 [H2 [_ [_ [_ [_ [Hkeep Hgone]]]]]]]]].
  rewrite H2 in H. cbn [rbind] in H. injection H as <- _ _.
  destruct (decide (j ∈ c2)) as [Hin|Hnin]; [rewrite (Hgone j Hin) in Hc'; discriminate|].
  rewrite (Hkeep j Hnin) in Hc'.
  destruct (decide (j = i)) as [->|Hne]; [|rewrite (Hoth j Hne) in Hc'; congruence].
  destruct e; cbn [step_raw] in H1; rewrite Hc in H1.
  - injection H1 as <- _ _. congruence.
  - destruct (process_line cfg verify i (sh w) c l) as [r|] eqn:Hr; cbn [rbind] in H1; [|discriminate].
    destruct (h_quit r).
    + assert (i ∈ c1) as Hi1.
      { destruct (teardown i _) as [wx|]; cbn [rbind] in H1; [|discriminate]. injection H1 as _ _ <-. left. }
      rewrite (Hcl Hi1) in Hc'. discriminate.
    + injection H1 as <- _ _. cbn in Hc'. rewrite lookup_insert in Hc'. injection Hc' as <-.
      exact (line_transport cfg verify i (sh w) c l r (ik_s w K) (ik_cu w K i c Hc) Hr).
  - assert (i ∈ c1) as Hi1 by (destruct (teardown i w) as [wx|]; cbn [rbind] in H1; [|discriminate]; injection H1 as _ _ <-; left).
    rewrite (Hcl Hi1) in Hc'. discriminate.
  - assert (i ∈ c1) as Hi1 by (destruct (teardown i w) as [wx|]; cbn [rbind] in H1; [|discriminate]; injection H1 as _ _ <-; left).
    rewrite (Hcl Hi1) in Hc'. discriminate.
  - assert (i ∈ c1) as Hi1 by (destruct (teardown i w) as [wx|]; cbn [rbind] in H1; [|discriminate]; injection H1 as _ _ <-; left).
    rewrite (Hcl Hi1) in Hc'. discriminate.
  - injection H1 as <- _ _. congruence.
  - assert (i ∈ c1) as Hi1 by (destruct (teardown i w) as [wx|]; cbn [rbind] in H1; [|discriminate]; injection H1 as _ _ <-; left).
    rewrite (Hcl Hi1) in Hc'. discriminate.
Qed.

End global.
