(* JoinP.v - JOIN admission decision, effect and refusal (C07), channel creation (C16). *)
From IRC Require Import Str Wild Glob Mask Parse Reply State Handlers.
From IRCP Require Import WildP BanP.
From stdpp Require Import gmap.
Open Scope N_scope.

Section join.
Context (cfg : config) (i : nat).

Definition key_ok (co : chan) (key : option (option str)) : Prop :=
  match cm_key (ch_modes co) with
  | Some k => key = Some (Some k)
  | None => True
  end.

Definition invite_allows (co : chan) (u : user) (chname source : str) : Prop :=
  cm_invite_only (ch_modes co) = false \/ chname ∈ u_invited u \/ matches_any (cm_invex (ch_modes co)) source.

Definition below_limit (co : chan) : Prop :=
  match cm_limit (ch_modes co) with
  | Some l => (N.of_nat (size (ch_users co)) < l)%N
  | None => True
  end.

(* the admission rule of the property (without the max_joins quota, which is per command) *)
Definition join_allowed (co : chan) (u : user) (chname source : str) (key : option (option str)) : Prop :=
  key_ok co key /\ ~ (matches_any (cm_ban (ch_modes co)) source /\ ~ matches_any (cm_exception (ch_modes co)) source)
  /\ invite_allows co u chname source /\ below_limit co.

Lemma invite_ok_spec co u chname source :
  invite_ok co u chname source = true <-> invite_allows co u chname source.
Proof.
  unfold invite_ok, invite_allows. rewrite !orb_true_iff, negb_true_iff, bool_decide_eq_true, set_any_glob.
  tauto.
Qed.

(* existing channel, not yet a member: the check phase accepts iff the rule holds, creates nothing,
   and on refusal reports the FIRST failing condition in the order key, ban, invitation, limit *)
Lemma join_check_spec s c u nick client chname key co :
  chans s !! chname = Some co -> nick ∉ dom (ch_users co) ->
  let r := join_check s c u nick client chname key in
  r.1.2 = false /\
  (r.1.1 = true <-> join_allowed co u chname (c_source c) key) /\
  (r.1.1 = true -> r.2 = []) /\
  (r.1.1 = false ->
     (~ key_ok co key /\ r.2 = [err_badchannelkey client chname]) \/
     (key_ok co key /\ banned (ch_modes co) (c_source c) = true /\ r.2 = [err_bannedfromchan client chname]) \/
     (key_ok co key /\ banned (ch_modes co) (c_source c) = false /\ ~ invite_allows co u chname (c_source c)
        /\ r.2 = [err_inviteonlychan client chname]) \/
     (key_ok co key /\ banned (ch_modes co) (c_source c) = false /\ invite_allows co u chname (c_source c)
        /\ ~ below_limit co /\ r.2 = [err_channelisfull client chname])).
Proof.
  intros Hco Hnm. unfold join_check. rewrite Hco.
  pose proof (banned_spec (ch_modes co) (c_source c)) as Hb.
  pose proof (invite_ok_spec co u chname (c_source c)) as Hi.
  assert (bool_decide (nick ∈ dom (ch_users co)) = false) as Hm by now apply bool_decide_eq_false.
  unfold join_allowed, key_ok, below_limit.
  assert (forall A B : Prop, (true = true <-> A) -> A) as T1 by (intros A B [H _]; auto).
  destruct (cm_key (ch_modes co)) as [k|] eqn:Hk; [destruct key as [[k'|]|];
    [destruct (bool_decide (k = k')) eqn:Hkk;
       [apply bool_decide_eq_true in Hkk; subst k'|apply bool_decide_eq_false in Hkk]| |]|];
  try (destruct (banned (ch_modes co) (c_source c)) eqn:Hban; cbn [negb];
       [|destruct (invite_ok co u chname (c_source c)) eqn:Hinv;
         [destruct (cm_limit (ch_modes co)) as [l|] eqn:Hl;
          [destruct (N.ltb_spec (N.of_nat (size (ch_users co))) l) as [Hlt|Hge]|]|]]);
  cbn; rewrite ?Hm; cbn;
  (split; [reflexivity|]); (split; [|split]);
  try (split; [intros; try discriminate|intros; try discriminate]);
  try (intros; discriminate); try (intros; reflexivity);
  try (naive_solver lia).
Qed.

(* a name that is not a channel yet: always (join, create) *)
Lemma join_check_new s c u nick client chname key :
  chans s !! chname = None -> join_check s c u nick client chname key = ((true, true), []).
Proof. intros H. unfold join_check. now rewrite H. Qed.

(* the effect of one accepted entry of the plan *)
Lemma join_insert_existing nick s ch s' u co :
  users s !! nick = Some u -> chans s !! ch = Some co ->
  join_insert nick s (ch, (true, false)) = Ok s' ->
  users s' = <[nick := u_set_invited (fun v => v ∖ {[ch]}) (u_set_chans (fun cs => {[ch]} ∪ cs) u)]> (users s) /\
  chans s' = <[ch := chan_add_user nick co]> (chans s) /\
  wallops s' = wallops s /\ inv_count s' = inv_count s /\ op_count s' = op_count s /\
  max_users s' = max_users s /\ histories s' = histories s.
Proof.
  intros Hu Hc. unfold join_insert, get_user, get_chan. rewrite Hu. cbn [rbind negb].
  cbn. rewrite Hc. cbn. intros [= <-]. repeat split.
Qed.

Lemma join_insert_create nick s ch s' u :
  users s !! nick = Some u ->
  join_insert nick s (ch, (true, true)) = Ok s' ->
  users s' = <[nick := u_set_invited (fun v => v ∖ {[ch]}) (u_set_chans (fun cs => {[ch]} ∪ cs) u)]> (users s) /\
  chans s' = <[ch := chan_new nick]> (chans s).
Proof.
  intros Hu. unfold join_insert, get_user. rewrite Hu. cbn. intros [= <-]. split; reflexivity.
Qed.

Lemma join_insert_refused nick s ch create : join_insert nick s (ch, (false, create)) = Ok s.
Proof. reflexivity. Qed.

(* the freshly created channel: no restrictions, the creator is founder and operator *)
Lemma chan_new_spec nick :
  let co := chan_new nick in
  ch_topic co = None /\ ch_preconf co = false /\ ch_baninfo co = ∅ /\
  ch_users co = {[nick := rank_creator]} /\
  cm_founders (ch_modes co) = {[nick]} /\ cm_operators (ch_modes co) = {[nick]} /\
  cm_protecteds (ch_modes co) = ∅ /\ cm_half_operators (ch_modes co) = ∅ /\ cm_voices (ch_modes co) = ∅ /\
  cm_ban (ch_modes co) = ∅ /\ cm_exception (ch_modes co) = ∅ /\ cm_invex (ch_modes co) = ∅ /\
  cm_key (ch_modes co) = None /\ cm_limit (ch_modes co) = None /\
  cm_invite_only (ch_modes co) = false /\ cm_moderated (ch_modes co) = false /\
  cm_secret (ch_modes co) = false /\ cm_protected_topic (ch_modes co) = false /\
  cm_noext (ch_modes co) = false /\
  r_founder rank_creator = true /\ r_operator rank_creator = true.
Proof. cbn. repeat split. Qed.

End join.
