(* QuitP.v - a handler asks to close its own connection only for QUIT and for a failed password
   at the end of registration. *)
From IRC Require Import Str Wild Glob Mask Parse Reply State Handlers Step.
From stdpp Require Import gmap.
Open Scope N_scope.

Local Arguments lit : simpl never.

Section quit.
Context (cfg : config) (verify : str -> str -> bool) (i : nat).

Ltac unf H := try unfold unsupported in H; try unfold process_admin in H; try unfold process_authenticate in H; try unfold process_away in H; try unfold process_die in H; try unfold process_help in H; try unfold process_info in H; try unfold process_invite in H; try unfold process_ison in H; try unfold process_join in H; try unfold process_kick in H; try unfold process_kill in H; try unfold process_links in H; try unfold process_list in H; try unfold process_lusers in H; try unfold process_mode in H; try unfold process_mode_channel in H; try unfold process_mode_user in H; try unfold process_motd in H; try unfold process_names in H; try unfold process_oper in H; try unfold process_part in H; try unfold process_ping in H; try unfold process_pong in H; try unfold process_privmsg_notice in H; try unfold process_squit in H; try unfold process_stats in H; try unfold process_time in H; try unfold process_topic in H; try unfold process_userhost in H; try unfold process_version in H; try unfold process_wallops in H; try unfold process_who in H; try unfold process_whois in H; try unfold process_whowas in H.

(* peel the result of a handler: every path ends in hr (h_quit := false) or fails *)
Ltac peel H :=
  repeat (first
    [ discriminate H
    | match type of H with
      | hr _ _ _ = Ok _ => unfold hr in H
      | Ok _ = Ok _ => injection H as <-; reflexivity
      | rbind ?x _ = Ok _ => let E := fresh "E" in destruct x eqn:E; cbn [rbind] in H
      | (let '(_, _) := ?x in _) = Ok _ => destruct x
      | context [match ?x with _ => _ end] => destruct x
      | context [if ?x then _ else _] => destruct x
      end
    | progress unf H ]).

Lemma authenticate_quit s c r : authenticate cfg verify i s c = Ok r -> h_quit r = true ->
  h_sh r = s /\ h_out r = [(i, srv cfg (err_passwdmismatch (client_name c)))].
Proof.
  unfold authenticate. intros H Hq.
  destruct (c_capneg c); [injection H as <-; discriminate Hq|].
  destruct (c_nick c) as [nick|]; [|injection H as <-; discriminate Hq].
  destruct (c_name c) as [name|]; [|injection H as <-; discriminate Hq].
  destruct (negb _); [injection H as <-; discriminate Hq|].
  match type of H with (if ?g then _ else _) = _ => destruct g end.
  - destruct (users s !! nick); [injection H as <-; discriminate Hq|].
    destruct (c_sender_taken c); [discriminate H|].
    destruct (lusers_lines _ _); cbn [rbind] in H; [|discriminate H]. injection H as <-. discriminate Hq.
  - injection H as <-. cbn. auto.
Qed.

Theorem dispatch_quit s c cmd msg r : dispatch cfg verify i s c cmd msg = Ok r -> h_quit r = true ->
  cmd = QUIT \/ (c_auth c = false /\ h_sh r = s /\ exists c', h_out r = [(i, srv cfg (err_passwdmismatch (client_name c')))]).
Proof.
  intros H Hq. destruct cmd; cbn [dispatch] in H; try (left; reflexivity).
  - (* CAP *) unfold process_cap in H. destruct sub.
    + injection H as <-. discriminate Hq.
    + injection H as <-. discriminate Hq.
    + destruct caps as [cs|]; [destruct (forallb _ cs)|]; injection H as <-; discriminate Hq.
    + destruct (c_auth c) eqn:A; [injection H as <-; discriminate Hq|]. right. split; [reflexivity|].
      destruct (authenticate_quit _ _ _ H Hq) as [E O]. eauto.
  - injection H as <-. discriminate Hq.
  - unfold process_pass in H. destruct (c_auth c) eqn:A; [injection H as <-; discriminate Hq|]. right. split; [reflexivity|].
    destruct (authenticate_quit _ _ _ H Hq) as [E O]. eauto.
  - unfold process_nick in H. destruct (negb (c_auth c)) eqn:A.
    + apply negb_true_iff in A. destruct (users s !! nickname); [injection H as <-; discriminate Hq|]. right. split; [exact A|].
      destruct (authenticate_quit _ _ _ H Hq) as [E O]. eauto.
    + exfalso. revert Hq. cut (h_quit r = false); [congruence|]. peel H.
  - unfold process_user in H. destruct (c_auth c) eqn:A; [injection H as <-; discriminate Hq|]. right. split; [reflexivity|].
    destruct (authenticate_quit _ _ _ H Hq) as [E O]. eauto.
  - exfalso; revert Hq; cut (h_quit r = false); [congruence|]. unf H. peel H.
  - exfalso; revert Hq; cut (h_quit r = false); [congruence|]. unf H. peel H.
  - exfalso; revert Hq; cut (h_quit r = false); [congruence|]. unf H. peel H.
  - exfalso; revert Hq; cut (h_quit r = false); [congruence|]. unf H. peel H.
  - exfalso; revert Hq; cut (h_quit r = false); [congruence|]. unf H. peel H.
  - exfalso; revert Hq; cut (h_quit r = false); [congruence|]. unf H. peel H.
  - exfalso; revert Hq; cut (h_quit r = false); [congruence|]. unf H. peel H.
  - exfalso; revert Hq; cut (h_quit r = false); [congruence|]. unf H. peel H.
  - exfalso; revert Hq; cut (h_quit r = false); [congruence|]. unf H. peel H.
  - exfalso; revert Hq; cut (h_quit r = false); [congruence|]. unf H. peel H.
  - exfalso; revert Hq; cut (h_quit r = false); [congruence|]. unf H. peel H.
  - exfalso; revert Hq; cut (h_quit r = false); [congruence|]. unf H. peel H.
  - exfalso; revert Hq; cut (h_quit r = false); [congruence|]. unf H. peel H.
  - exfalso; revert Hq; cut (h_quit r = false); [congruence|]. unf H. peel H.
  - exfalso; revert Hq; cut (h_quit r = false); [congruence|]. unf H. peel H.
  - exfalso; revert Hq; cut (h_quit r = false); [congruence|]. unf H. peel H.
  - exfalso; revert Hq; cut (h_quit r = false); [congruence|]. unf H. peel H.
  - exfalso; revert Hq; cut (h_quit r = false); [congruence|]. unf H. peel H.
  - exfalso; revert Hq; cut (h_quit r = false); [congruence|]. unf H. peel H.
  - exfalso; revert Hq; cut (h_quit r = false); [congruence|]. unf H. peel H.
  - exfalso; revert Hq; cut (h_quit r = false); [congruence|]. unf H. peel H.
  - exfalso; revert Hq; cut (h_quit r = false); [congruence|]. unf H. peel H.
  - exfalso; revert Hq; cut (h_quit r = false); [congruence|]. unf H. peel H.
  - exfalso; revert Hq; cut (h_quit r = false); [congruence|]. unf H. peel H.
  - exfalso; revert Hq; cut (h_quit r = false); [congruence|]. unf H. peel H.
  - exfalso; revert Hq; cut (h_quit r = false); [congruence|]. unf H. peel H.
  - exfalso; revert Hq; cut (h_quit r = false); [congruence|]. unf H. peel H.
  - exfalso; revert Hq; cut (h_quit r = false); [congruence|]. unf H. peel H.
  - exfalso; revert Hq; cut (h_quit r = false); [congruence|]. unf H. peel H.
  - exfalso; revert Hq; cut (h_quit r = false); [congruence|]. unf H. peel H.
  - exfalso; revert Hq; cut (h_quit r = false); [congruence|]. unf H. peel H.
  - exfalso; revert Hq; cut (h_quit r = false); [congruence|]. unf H. peel H.
  - exfalso; revert Hq; cut (h_quit r = false); [congruence|]. unf H. peel H.
  - exfalso; revert Hq; cut (h_quit r = false); [congruence|]. unf H. peel H.
  - exfalso; revert Hq; cut (h_quit r = false); [congruence|]. unf H. peel H.
Qed.

End quit.
