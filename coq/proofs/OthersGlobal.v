(* OthersGlobal.v - over whole steps (any event of any connection i): every user record that does not belong
   to connection i and exists afterwards existed before under the same nick with the same owner, host, user
   name, real name, source, user modes, away text and WHOWAS data.  A connection can speak as, rename and
   modify only the user it registered itself (C02); the end of a session changes nothing in the others (C06). *)
From IRC Require Import Str Wild Glob Mask Parse Reply State Handlers Step.
From IRCP Require Import StrP InvDefs InvPrims InvHandlers InvStep Reach ModesFrame OthersFrame.
From stdpp Require Import gmap.
Open Scope N_scope.

Local Arguments lit : simpl never.

Section global.
Context (cfg : config) (verify : str -> str -> bool).

Theorem line_others i s c l r : InvS s -> conn_ok i s c ->
  process_line cfg verify i s c l = Ok r -> okeeps i s (h_sh r).
Proof.
  intros I C H.
  assert (forall o, Ok {| h_sh := s; h_conn := c; h_out := o; h_quit := false |} = Ok r -> okeeps i s (h_sh r)) as Same.
  { intros o [= <-]. apply akeeps_okeeps, akeeps_refl. }
  unfold process_line in H. destruct (tokenize l) as [msg|[| |]] eqn:Ht; try (eapply Same; exact H).
  destruct (command_of_message msg) as [cmd|e] eqn:Hcmd; [|eapply Same; exact H].
  destruct (needs_registration cmd && negb (c_auth c)) eqn:G; [eapply Same; exact H|].
  destruct (c_auth c) eqn:A.
  - eapply dispatch_others; eauto.
  - cbn in G. rewrite andb_true_r in G.
    destruct (unauth_dispatch_fresh cfg verify i s c cmd msg r A G H) as [E|[nick [u [Hfree [Hus [Hcu _]]]]]].
    + apply akeeps_okeeps, akeeps_users_eq. exact E.
    + eapply (okeeps_insert_own i nick); eauto.
Qed.

Theorem others_untouched w i e w' o cl : Inv w -> step cfg verify w i e = Ok (w', o, cl) ->
  forall n u', users (sh w') !! n = Some u' -> u_conn u' <> i ->
  exists u, users (sh w) !! n = Some u /\ ufields u' = ufields u.
Proof.
  intros I H n u' Hu' Hni. pose proof (InvK_of_Inv w I) as K. unfold step in H.
  destruct (step_raw cfg verify w i e) as [[[w1 o1] c1]|] eqn:H1; [|discriminate]. cbn [rbind] in H.
  destruct (step_raw_frame cfg verify w i e w1 o1 c1 K H1) as [K1 _].
  destruct (deliver_kills_ok cfg w1 K1) as [w2 [o2 [c2 [H2 [_ [Hsub _]]]]]].
  rewrite H2 in H. cbn [rbind] in H. injection H as <- _ _.
  destruct (Hsub n u' Hu') as [Hu1 _]. clear Hu' Hsub H2.
  assert (forall c, conns w !! i = Some c -> forall (o0 : outl) (cl0 : list nat),
            (let! wx := teardown i w in Ok (wx, o0, cl0)) = Ok (w1, o1, c1) -> exists u, users (sh w) !! n = Some u /\ ufields u' = ufields u) as TD.
  { intros c Hc o0 cl0 E. destruct (teardown_ok i w c K Hc) as [wx [Ht [_ [_ [Hs _]]]]]. rewrite Ht in E. cbn [rbind] in E.
    injection E as <- _ _. destruct (Hs n u' Hu1) as [Hu0 _]. eauto. }
  assert (Ok (w, @nil (nat * str), @nil nat) = Ok (w1, o1, c1) -> exists u, users (sh w) !! n = Some u /\ ufields u' = ufields u) as Same.
  { intros [= <- _ _]. eauto. }
  destruct e; cbn [step_raw] in H1.
  - destruct (conns w !! i); [now apply Same|]. destruct (server_quit (sh w)); [injection H1 as <- _ _; eauto|].
    destruct (match cfg_max_connections cfg with Some m => N.ltb (nconns w) m | None => true end); injection H1 as <- _ _; eauto.
  - destruct (conns w !! i) as [c|] eqn:Hc; [|now apply Same].
    destruct (process_line cfg verify i (sh w) c l) as [r|] eqn:Hr; cbn [rbind] in H1; [|discriminate].
    assert (users (h_sh r) !! n = Some u') as Hur.
    { destruct (h_quit r).
      - set (wl := {| sh := h_sh r; conns := <[i := h_conn r]> (conns w); nconns := nconns w |}) in *.
        destruct (process_line_ok cfg verify i (sh w) c l (ik_s w K) (ik_cu w K i c Hc) (ik_st w K i c Hc)) as [r' [Hr' R]].
        rewrite Hr in Hr'. injection Hr' as <-. pose proof (InvK_line i w c r K Hc R) as Kl.
        assert (conns wl !! i = Some (h_conn r)) as Hcl by (cbn; now rewrite lookup_insert).
        destruct (teardown_ok i wl _ Kl Hcl) as [wx [Ht [_ [_ [Hs _]]]]]. rewrite Ht in H1. cbn [rbind] in H1.
        injection H1 as <- _ _. destruct (Hs n u' Hu1) as [Hx _]. exact Hx.
      - injection H1 as <- _ _. exact Hu1. }
    exact (line_others i (sh w) c l r (ik_s w K) (ik_cu w K i c Hc) Hr n u' Hur Hni).
  - destruct (conns w !! i) as [c|] eqn:Hc; [|now apply Same]. eapply TD; eauto.
  - destruct (conns w !! i) as [c|] eqn:Hc; [|now apply Same]. eapply TD; eauto.
  - destruct (conns w !! i) as [c|] eqn:Hc; [|now apply Same]. eapply TD; eauto.
  - destruct (conns w !! i) as [c|] eqn:Hc; [|now apply Same]. injection H1 as <- _ _. eauto.
  - destruct (conns w !! i) as [c|] eqn:Hc; [|now apply Same]. eapply TD; eauto.
Qed.

End global.
