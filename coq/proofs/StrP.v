(* StrP.v - basic facts about the string helpers. *)
From IRC Require Import Str.
From stdpp Require Import gmap.
Open Scope N_scope.

Lemma str_eqb_eq a b : str_eqb a b = true <-> a = b.
Proof.
  revert b. induction a as [|x a IH]; intros [|y b]; cbn; try (split; congruence).
  rewrite andb_true_iff, IH, N.eqb_eq. split; [intros [-> ->]; reflexivity|intros [= -> ->]; auto].
Qed.

Lemma str_eqb_neq a b : str_eqb a b = false <-> a <> b.
Proof.
  rewrite <- str_eqb_eq. destruct (str_eqb a b); split; congruence.
Qed.

Lemma existsb_str_eqb x l : existsb (str_eqb x) l = true <-> x ∈ l.
Proof.
  rewrite existsb_exists. split.
  - intros [y [Hy E]]. apply str_eqb_eq in E. subst. now apply elem_of_list_In.
  - intros H. exists x. split; [now apply elem_of_list_In|now apply str_eqb_eq].
Qed.

