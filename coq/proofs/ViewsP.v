(* ViewsP.v - what NAMES and WHOIS print is exactly the membership relation (restricted to what the
   viewer may see), so the two views agree with each other in every state satisfying the invariant. *)
From IRC Require Import Str Wild Glob Mask Parse Reply State Handlers Step.
From IRCP Require Import StrP InvDefs InvHandlers.
From stdpp Require Import gmap.
Open Scope N_scope.

Local Arguments lit : simpl never.

(* slice::chunks loses and duplicates nothing *)
Lemma chunks_aux_concat {A} n : (0 < n)%nat -> forall fuel (l : list A), (length l <= fuel)%nat -> concat (chunks_aux fuel n l) = l.
Proof.
  intros Hn. induction fuel as [|f IH]; intros l Hl.
  - destruct l; [reflexivity|cbn in Hl; lia].
  - destruct l as [|x l]; [reflexivity|]. cbn [chunks_aux concat]. rewrite IH.
    + apply firstn_skipn.
    + rewrite skipn_length. cbn [length] in *. lia.
Qed.

Lemma concat_chunks {A} n (l : list A) : (0 < n)%nat -> concat (chunks n l) = l.
Proof. intros Hn. unfold chunks. now apply chunks_aux_concat. Qed.

Section views.
Context (cfg : config) (verify : str -> str -> bool) (i : nat).

(* ---------------------------------------------------------------- NAMES *)
Definition name_visible (s : shared) (in_channel : bool) (kv : str * rank) : bool :=
  match users s !! kv.1 with
  | Some u => negb (um_invisible (u_modes u)) || in_channel
  | None => false
  end.

Definition name_entry (c : conn) (kv : str * rank) : str := rank_prefix (c_multi c) kv.2 ++ kv.1.

Lemma names_fold s c inch l : forall acc, (forall kv, kv ∈ l -> is_Some (users s !! kv.1)) ->
  rfold (fun acc '(unick, r) =>
           let! u := get_user s unick in
           if negb (um_invisible (u_modes u)) || inch then Ok (acc ++ [rank_prefix (c_multi c) r ++ unick]) else Ok acc) l acc
  = Ok (acc ++ List.map (name_entry c) (List.filter (name_visible s inch) l)).
Proof.
  induction l as [|[k v] l IH]; intros acc H; cbn [rfold List.filter List.map].
  - now rewrite app_nil_r.
  - destruct (H (k, v) (elem_of_list_here _ _)) as [u Hu]. cbn in Hu. unfold get_user at 1. rewrite Hu. cbn [rbind].
    unfold name_visible at 1. cbn [fst]. rewrite Hu.
    destruct (negb (um_invisible (u_modes u)) || inch); cbn [rbind List.map].
    + rewrite IH by (intros kv Hkv; apply H; now right). rewrite <- app_assoc. reflexivity.
    + apply IH. intros kv Hkv; apply H; now right.
Qed.

(* the 353 lines carry exactly the visible members of the channel, each once, with its rank prefix;
   a secret channel gives a non-member nothing *)
Theorem names_lines_spec s c client nick ch co with_end : InvS s -> chans s !! ch = Some co ->
  let inch := bool_decide (nick ∈ dom (ch_users co)) in
  names_lines s c client nick ch co with_end =
  if negb (cm_secret (ch_modes co)) || inch then
    let names := List.map (name_entry c) (List.filter (name_visible s inch) (map_to_list (ch_users co))) in
    Ok (List.map (rpl_namreply client (if cm_secret (ch_modes co) then lit "@" else lit "=") ch) (chunks 20 names)
        ++ if with_end then [rpl_endofnames client ch] else [])
  else Ok [].
Proof.
  intros I Hco inch. unfold names_lines. fold inch. destruct (negb (cm_secret (ch_modes co)) || inch); [|reflexivity].
  rewrite (names_fold s c inch (map_to_list (ch_users co)) []).
  - cbn [rbind app]. reflexivity.
  - intros [k v] Hkv. apply elem_of_map_to_list in Hkv. cbn.
    destruct (is_cu s I ch co k Hco) as [u [Hu _]]; [now apply elem_of_dom_2 in Hkv|]. eauto.
Qed.

(* every visible member is printed, and only members are *)
Theorem names_complete s c inch co n r :
  ch_users co !! n = Some r -> name_visible s inch (n, r) = true ->
  name_entry c (n, r) ∈ concat (chunks 20 (List.map (name_entry c) (List.filter (name_visible s inch) (map_to_list (ch_users co))))).
Proof.
  intros Hr Hv. rewrite concat_chunks by lia. apply elem_of_list_In, in_map, filter_In. split; [|exact Hv].
  apply elem_of_list_In, elem_of_map_to_list. exact Hr.
Qed.

Theorem names_sound s c inch co e :
  e ∈ concat (chunks 20 (List.map (name_entry c) (List.filter (name_visible s inch) (map_to_list (ch_users co))))) ->
  exists n r, ch_users co !! n = Some r /\ name_visible s inch (n, r) = true /\ e = name_entry c (n, r).
Proof.
  rewrite concat_chunks by lia. intros H. apply elem_of_list_In, in_map_iff in H as [[n r] [<- Hf]].
  apply filter_In in Hf as [Hin Hv]. apply elem_of_list_In, elem_of_map_to_list in Hin. eauto.
Qed.

(* ---------------------------------------------------------------- WHOIS *)
Definition whois_chan_visible (s : shared) (ch : str) : bool :=
  match chans s !! ch with Some co => negb (cm_secret (ch_modes co)) | None => false end.

Definition whois_chan_entry (s : shared) (c : conn) (n ch : str) : str :=
  match chans s !! ch with
  | Some co => rank_prefix (c_multi c) (default rank_none (ch_users co !! n)) ++ ch
  | None => ch
  end.

Lemma whois_fold s c n l : forall acc,
  (forall ch, ch ∈ l -> exists co r, chans s !! ch = Some co /\ ch_users co !! n = Some r) ->
  rfold (fun acc chname =>
           let! co := get_chan s chname in
           if cm_secret (ch_modes co) then Ok acc else
           match ch_users co !! n with
           | Some r => Ok (acc ++ [rank_prefix (c_multi c) r ++ chname])
           | None => Panic P_unwrap_member
           end) l acc
  = Ok (acc ++ List.map (whois_chan_entry s c n) (List.filter (whois_chan_visible s) l)).
Proof.
  induction l as [|ch l IH]; intros acc H; cbn [rfold List.filter List.map].
  - now rewrite app_nil_r.
  - destruct (H ch (elem_of_list_here _ _)) as [co [r [Hco Hr]]]. unfold get_chan at 1. rewrite Hco. cbn [rbind].
    unfold whois_chan_visible at 1. rewrite Hco. destruct (cm_secret (ch_modes co)); cbn [negb List.map].
    + apply IH. intros ch' Hch'. apply H. now right.
    + rewrite Hr. cbn [rbind]. rewrite IH by (intros ch' Hch'; apply H; now right). unfold whois_chan_entry at 2. rewrite Hco, Hr. cbn [default List.map].
      now rewrite <- app_assoc.
Qed.

(* the 319 lines of WHOIS carry exactly the non-secret channels of the user's own membership set,
   each once, with the user's rank prefix there *)
Theorem whois_channels_spec s c client viewer n u r0 : InvS s -> users s !! n = Some u ->
  whois_one cfg s c client viewer n = Ok r0 ->
  (um_invisible (u_modes u) && sets_disjoint (u_chans u) (u_chans viewer) = true /\ r0 = []) \/
  (um_invisible (u_modes u) && sets_disjoint (u_chans u) (u_chans viewer) = false /\
   exists pre post, r0 = pre ++ List.map (rpl_whoischannels client n)
                              (chunks 30 (List.map (whois_chan_entry s c n) (List.filter (whois_chan_visible s) (elements (u_chans u))))) ++ post).
Proof.
  intros I Hu. unfold whois_one, get_user. rewrite Hu. cbn [rbind].
  destruct (um_invisible (u_modes u) && sets_disjoint (u_chans u) (u_chans viewer)); [intros [= <-]; now left|].
  rewrite (whois_fold s c n (elements (u_chans u)) []).
  - cbn [rbind app]. intros [= <-]. right. split; [reflexivity|].
    exists ((if um_registered (u_modes u) then [rpl_whoisregnick client n] else [])
            ++ [rpl_whoisuser client n (u_name u) (u_host u) (u_real u); rpl_whoisserver client n (cfg_name cfg) (cfg_info cfg)]
            ++ (if is_local_oper (u_modes u) then [rpl_whoisoperator client n] else [])),
           ([rpl_whoisidle client n]
            ++ (if is_local_oper (u_modes u) then [rpl_whoishost client n (u_host u); rpl_whoismodes client n (umodes_str (u_modes u))] else [])
            ++ (if c_secure c then [rpl_whoissecure client n] else [])).
    repeat rewrite <- app_assoc. reflexivity.
  - intros ch Hch. apply elem_of_elements in Hch. destruct (is_uc s I n u ch Hu Hch) as [co [Hco Hin]].
    apply elem_of_dom in Hin as [r Hr]. eauto.
Qed.

(* ---------------------------------------------------------------- WHO #channel *)
Definition who_entry (s : shared) (c : conn) (client mask : str) (viewer : user) (kv : str * rank) : list str :=
  match users s !! kv.1 with
  | Some u => who_line cfg c client (Some (mask, kv.2)) kv.1 u viewer
  | None => []
  end.

Lemma who_fold s c client mask viewer l : forall acc, (forall kv, kv ∈ l -> is_Some (users s !! kv.1)) ->
  rfold (fun acc '(un, r) => let! u := get_user s un in Ok (acc ++ who_line cfg c client (Some (mask, r)) un u viewer)) l acc
  = Ok (acc ++ concat (List.map (who_entry s c client mask viewer) l)).
Proof.
  induction l as [|[k v] l IH]; intros acc H; cbn [rfold List.map concat].
  - now rewrite app_nil_r.
  - destruct (H (k, v) (elem_of_list_here _ _)) as [u Hu]. cbn in Hu. unfold get_user at 1. rewrite Hu. cbn [rbind].
    rewrite IH by (intros kv Hkv; apply H; now right). unfold who_entry at 2. cbn [fst snd]. rewrite Hu. now rewrite <- app_assoc.
Qed.

(* WHO with a channel name: one 352 per member of the channel (subject to the invisibility rule of
   who_line), each with the member's rank prefix there, then 315; nothing but 315 for a secret
   channel the viewer is not on or an absent one *)
Theorem who_channel_spec s c nick viewer mask : InvS s ->
  c_nick c = Some nick -> users s !! nick = Some viewer ->
  contains c_star mask || contains c_qmark mask = false -> validate_channel mask = true ->
  process_who cfg i s c mask =
  hr s c (mine cfg i ((match chans s !! mask with
                       | Some co => if negb (cm_secret (ch_modes co)) || bool_decide (nick ∈ dom (ch_users co))
                                    then concat (List.map (who_entry s c (client_name c) mask viewer) (map_to_list (ch_users co)))
                                    else []
                       | None => []
                       end) ++ [rpl_endofwho (client_name c) mask])).
Proof.
  intros I Hn Hv Hw Hvc. unfold process_who, own_nick, get_user. rewrite Hn. cbn [rbind]. rewrite Hv. cbn [rbind]. rewrite Hw, Hvc.
  destruct (chans s !! mask) as [co|] eqn:Hco; [|reflexivity].
  destruct (negb (cm_secret (ch_modes co)) || bool_decide (nick ∈ dom (ch_users co))); [|reflexivity].
  rewrite (who_fold s c (client_name c) mask viewer (map_to_list (ch_users co)) []).
  - reflexivity.
  - intros [k v] Hkv. apply elem_of_map_to_list in Hkv. cbn.
    destruct (is_cu s I mask co k Hco) as [u [Hu _]]; [now apply elem_of_dom_2 in Hkv|]. eauto.
Qed.

(* ---------------------------------------------------------------- agreement *)
(* NAMES #ch shows n (to a viewer entitled to see it) iff WHOIS n may show #ch: both read one relation *)
Theorem views_agree s n u ch co : InvS s -> users s !! n = Some u -> chans s !! ch = Some co ->
  (n ∈ dom (ch_users co) <-> ch ∈ u_chans u).
Proof.
  intros I Hu Hco. split.
  - intros Hn. destruct (is_cu s I ch co n Hco Hn) as [u' [Hu' Hch]]. congruence.
  - intros Hch. destruct (is_uc s I n u ch Hu Hch) as [co' [Hco' Hn]]. congruence.
Qed.

End views.
