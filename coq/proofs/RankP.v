(* RankP.v - KICK, TOPIC and INVITE obey channel rank (C09). *)
From IRC Require Import Str Wild Glob Mask Parse Reply State Handlers.
From IRCP Require Import StrP.
From stdpp Require Import gmap.
Open Scope N_scope.

Lemma mem_str_elem x l : mem_str x l = true <-> x ∈ l.
Proof.
  unfold mem_str. rewrite existsb_exists. split.
  - intros [y [Hy E]]. apply str_eqb_eq in E. subst. now apply elem_of_list_In.
  - intros H. exists x. split; [now apply elem_of_list_In|now apply str_eqb_eq].
Qed.

Section rank.
Context (cfg : config) (i : nat).

(* the victim loop with an arbitrary accumulator *)
Lemma kick_select_acc co r client ch vs k0 o0 :
  NoDup k0 ->
  let res := fold_left (fun '(k, o) v =>
               match ch_users co !! v with
               | Some vr =>
                   if kickable r vr
                   then (if mem_str v k then (k, o) else (k ++ [v], o))
                   else (k, o ++ [err_cannotdocommand client])
               | None => (k, o ++ [err_usernotinchannel client v ch])
               end) vs (k0, o0) in
  NoDup res.1 /\
  forall v, v ∈ res.1 <-> v ∈ k0 \/ (v ∈ vs /\ exists vr, ch_users co !! v = Some vr /\ kickable r vr = true).
Proof.
  revert k0 o0. induction vs as [|x vs IH]; intros k0 o0 Hnd; cbn [fold_left].
  - split; [exact Hnd|]. intros v. split; [auto|]. intros [H|[H _]]; [exact H|]. inversion H.
  - destruct (ch_users co !! x) as [vr|] eqn:Hx.
    + destruct (kickable r vr) eqn:Hk.
      * destruct (mem_str x k0) eqn:Hm.
        -- destruct (IH k0 o0 Hnd) as [N E]. split; [exact N|]. intros v. rewrite E, elem_of_cons.
           apply mem_str_elem in Hm. split.
           ++ intros [H|[H1 H2]]; [left; exact H|right; split; [right; exact H1|exact H2]].
           ++ intros [H|[[->|H1] H2]]; [left; exact H|left; exact Hm|right; split; assumption].
        -- assert (NoDup (k0 ++ [x])) as Hnd'.
           { apply NoDup_app. split; [exact Hnd|]. split; [|apply NoDup_singleton].
             intros y Hy Hy'. apply elem_of_list_singleton in Hy'. subst y.
             apply mem_str_elem in Hy. congruence. }
           destruct (IH (k0 ++ [x]) o0 Hnd') as [N E]. split; [exact N|]. intros v.
           rewrite E, elem_of_app, elem_of_list_singleton, elem_of_cons. split.
           ++ intros [[H| ->]|[H1 H2]].
              ** left; exact H.
              ** right. split; [left; reflexivity|eauto].
              ** right. split; [right; exact H1|exact H2].
           ++ intros [H|[[->|H1] H2]].
              ** left; left; exact H.
              ** left; right; reflexivity.
              ** right; split; assumption.
      * destruct (IH k0 (o0 ++ [err_cannotdocommand client]) Hnd) as [N E]. split; [exact N|]. intros v.
        rewrite E, elem_of_cons. split.
        -- intros [H|[H1 H2]]; [left; exact H|right; split; [right; exact H1|exact H2]].
        -- intros [H|[[->|H1] [vr' [Hv Hk']]]]; [left; exact H| |right; split; eauto].
           rewrite Hx in Hv. injection Hv as <-. congruence.
    + destruct (IH k0 (o0 ++ [err_usernotinchannel client x ch]) Hnd) as [N E]. split; [exact N|]. intros v.
      rewrite E, elem_of_cons. split.
      * intros [H|[H1 H2]]; [left; exact H|right; split; [right; exact H1|exact H2]].
      * intros [H|[[->|H1] [vr' [Hv Hk']]]]; [left; exact H| |right; split; eauto].
        rewrite Hx in Hv. discriminate.
Qed.

(* who is removed by KICK: exactly the named members whom the actor's rank may remove, each once *)
Lemma kick_select_spec co r client ch vs :
  NoDup (kick_select co r client ch vs).1 /\
  forall v, v ∈ (kick_select co r client ch vs).1 <->
            v ∈ vs /\ exists vr, ch_users co !! v = Some vr /\ kickable r vr = true.
Proof.
  destruct (kick_select_acc co r client ch vs [] [] (NoDup_nil_2)) as [N E].
  split; [exact N|]. intros v. unfold kick_select. rewrite E. split.
  - intros [H|H]; [inversion H|exact H].
  - intros H. right. exact H.
Qed.

(* the rank rule in the words of the property *)
Lemma kickable_spec r vr :
  kickable r vr = true <->
  r_founder vr = false /\ r_protected vr = false /\
  (rk_is_half_operator vr = false \/ rk_is_only_half_operator r = false).
Proof.
  unfold kickable, rk_is_protected. destruct (r_founder vr), (r_protected vr), (rk_is_half_operator vr),
    (rk_is_only_half_operator r); cbn; intuition congruence.
Qed.

Lemma kick_decide_spec s nick client ch vs :
  let d := kick_decide s nick client ch vs in
  match chans s !! ch with
  | None => d = ([], [err_nosuchchannel client ch])
  | Some co =>
      match ch_users co !! nick with
      | None => d = ([], [err_notonchannel client ch])
      | Some r =>
          if rk_is_half_operator r then
            NoDup d.1 /\ forall v, v ∈ d.1 <-> v ∈ vs /\ exists vr, ch_users co !! v = Some vr /\ kickable r vr = true
          else d = ([], [err_chanoprivsneeded client ch])
      end
  end.
Proof.
  unfold kick_decide. destruct (chans s !! ch) as [co|]; [|reflexivity].
  destruct (ch_users co !! nick) as [r|]; [|reflexivity].
  destruct (rk_is_half_operator r); [apply kick_select_spec|reflexivity].
Qed.

(* nobody selected: nothing changes and nobody else hears anything *)
Lemma process_kick_nobody s c ch vs comment r nick :
  c_nick c = Some nick -> (kick_decide s nick (client_name c) ch vs).1 = [] ->
  process_kick cfg i s c ch vs comment = Ok r ->
  h_sh r = s /\ h_conn r = c /\ Forall (fun x => x.1 = i) (h_out r).
Proof.
  intros Hn Hk. unfold process_kick, own_nick. rewrite Hn. cbn [rbind].
  destruct (kick_decide s nick (client_name c) ch vs) as [k o1]. cbn in Hk. subst k. cbn [rfold rbind].
  intros [= <-]. cbn. repeat split. rewrite app_nil_r.
  apply Forall_forall. intros x Hx. apply elem_of_list_fmap in Hx as [y [-> _]]. reflexivity.
Qed.

(* the state after KICK is the removal of the selected victims, in order *)
Lemma process_kick_state s c ch vs comment r nick :
  c_nick c = Some nick -> process_kick cfg i s c ch vs comment = Ok r ->
  rfold (fun s v => st_remove_user_from_channel ch v s) (kick_decide s nick (client_name c) ch vs).1 s = Ok (h_sh r)
  /\ h_conn r = c /\ h_quit r = false.
Proof.
  intros Hn. unfold process_kick, own_nick. rewrite Hn. cbn [rbind].
  destruct (kick_decide s nick (client_name c) ch vs) as [k o1]. cbn [fst].
  destruct (rfold _ k s) as [s'|]; cbn [rbind]; [|discriminate].
  match goal with |- (let! _ := ?x in _) = _ -> _ => destruct x as [o2|]; cbn [rbind]; [|discriminate] end.
  intros [= <-]. cbn. auto.
Qed.

(* ---------------------------------------------------------------- TOPIC *)
Lemma process_topic_set s c ch t msg r nick :
  c_nick c = Some nick -> process_topic cfg i s c ch (Some t) msg = Ok r ->
  h_conn r = c /\ h_quit r = false /\
  match chans s !! ch with
  | None => h_sh r = s /\ h_out r = [(i, srv cfg (err_nosuchchannel (client_name c) ch))]
  | Some co =>
      match ch_users co !! nick with
      | None => h_sh r = s /\ h_out r = [(i, srv cfg (err_notonchannel (client_name c) ch))]
      | Some rk =>
          if topic_allowed co rk then
            let co' := ch_set_topic (if is_empty t then None else Some (t, nick)) co in
            h_sh r = set_chans (fun cs => <[ch := co']> cs) s /\
            exists rcpts, rcpts = member_names co' /\
              Forall2 (fun n x => exists u, users s !! n = Some u /\
                                             x = (u_conn u, to_string_with_source msg (c_source c)))
                      rcpts (h_out r)
          else h_sh r = s /\ h_out r = [(i, srv cfg (err_chanoprivsneeded (client_name c) ch))]
      end
  end.
Proof.
  intros Hn. unfold process_topic, own_nick. rewrite Hn. cbn [rbind].
  destruct (chans s !! ch) as [co|]; [|intros [= <-]; cbn; auto].
  destruct (ch_users co !! nick) as [rk|]; [|intros [= <-]; cbn; auto].
  destruct (topic_allowed co rk); [|intros [= <-]; cbn; auto].
  destruct (send_all _ _ _) as [sent|] eqn:Hs; cbn [rbind]; [|discriminate].
  intros [= <-]. cbn. repeat split. eexists. split; [reflexivity|].
  unfold send_all in Hs.
  assert (forall ns acc o, rfold (fun acc n => let! x := send_to (set_chans (fun cs => <[ch := ch_set_topic (if is_empty t then None else Some (t, nick)) co]> cs) s) n (to_string_with_source msg (c_source c)) in Ok (acc ++ [x])) ns acc = Ok o ->
            exists o', o = acc ++ o' /\ Forall2 (fun n x => exists u, users s !! n = Some u /\ x = (u_conn u, to_string_with_source msg (c_source c))) ns o') as Hacc.
  { induction ns as [|n ns IH]; intros acc o; cbn [rfold].
    - intros [= <-]. exists []. split; [now rewrite app_nil_r|constructor].
    - unfold send_to at 1, get_user at 1. cbn [users set_chans].
      destruct (users s !! n) as [u|] eqn:Hu; cbn [rbind]; [|discriminate].
      intros H. destruct (IH _ _ H) as [o' [-> F]].
      exists ((u_conn u, to_string_with_source msg (c_source c)) :: o'). split; [now rewrite <- app_assoc|].
      constructor; [eauto|exact F]. }
  destruct (Hacc _ _ _ Hs) as [o' [-> F]]. exact F.
Qed.

(* ---------------------------------------------------------------- INVITE *)
Lemma process_invite_spec s c nickname ch msg r nick :
  c_nick c = Some nick -> process_invite cfg i s c nickname ch msg = Ok r ->
  h_conn r = c /\ h_quit r = false /\
  match chans s !! ch with
  | None => h_sh r = s /\ h_out r = [(i, srv cfg (err_nosuchchannel (client_name c) ch))]
  | Some co =>
      match ch_users co !! nick with
      | None => h_sh r = s /\ h_out r = [(i, srv cfg (err_notonchannel (client_name c) ch))]
      | Some rk =>
          if cm_invite_only (ch_modes co) && negb (r_operator rk)
          then h_sh r = s /\ h_out r = [(i, srv cfg (err_chanoprivsneeded (client_name c) ch))]
          else if bool_decide (nickname ∈ dom (ch_users co))
          then h_sh r = s /\ h_out r = [(i, srv cfg (err_useronchannel (client_name c) nickname ch))]
          else match users s !! nickname with
               | None => h_sh r = s /\ h_out r = [(i, srv cfg (err_nosuchnick (client_name c) nickname))]
               | Some inv =>
                   h_sh r = set_users (fun us => <[nickname := u_set_invited (fun v => {[ch]} ∪ v) inv]> us) s /\
                   h_out r = [(i, srv cfg (rpl_inviting (client_name c) nickname ch));
                              (u_conn inv, to_string_with_source msg (c_source c))]
               end
      end
  end.
Proof.
  intros Hn. unfold process_invite, own_nick. rewrite Hn. cbn [rbind].
  destruct (chans s !! ch) as [co|]; [|intros [= <-]; cbn; auto].
  destruct (ch_users co !! nick) as [rk|]; [|intros [= <-]; cbn; auto].
  destruct (cm_invite_only (ch_modes co) && negb (r_operator rk)); [intros [= <-]; cbn; auto|].
  destruct (bool_decide (nickname ∈ dom (ch_users co))); [intros [= <-]; cbn; auto|].
  destruct (users s !! nickname) as [inv|]; intros [= <-]; cbn; auto.
Qed.

End rank.
