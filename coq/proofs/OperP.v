(* OperP.v - operator status: MODE never grants it, OPER grants it only with a configured name,
   the verifying password and a matching mask; operator commands require it. *)
From IRC Require Import Str Wild Glob Mask Parse Reply State Handlers Step.
From IRCP Require Import StrP MsgP InvDefs InvHandlers.
From stdpp Require Import gmap.
Open Scope N_scope.

Local Arguments lit : simpl never.

Section oper.
Context (cfg : config) (verify : str -> str -> bool) (i : nat).

(* ---------------------------------------------------------------- MODE on the own nick *)
Definition no_grant (a b : umodes) : Prop :=
  (um_oper b = true -> um_oper a = true) /\ (um_local_oper b = true -> um_local_oper a = true).

Ltac fin := cbn; repeat split; auto; try discriminate; try congruence.

Lemma umode_char_frame c client nick ch set_ m m' :
  umode_char c client nick ch set_ m = Ok m' ->
  users (us_sh m') = users (us_sh m) /\ chans (us_sh m') = chans (us_sh m) /\ no_grant (us_modes m) (us_modes m').
Proof.
  unfold umode_char, no_grant.
  destruct (N.eqb ch 105).
  { destruct set_.
    - destruct (um_invisible (us_modes m)) eqn:?; intros [= <-]; fin.
    - destruct (um_invisible (us_modes m)) eqn:?; [|intros [= <-]; fin].
      destruct (dec_counter _); cbn [rbind]; [|discriminate]. intros [= <-]; fin. }
  destruct (N.eqb ch 114).
  { destruct set_.
    - destruct (um_registered (us_modes m)) eqn:?; [intros [= <-]; fin|].
      destruct (c_registered c); intros [= <-]; fin.
    - destruct (um_registered (us_modes m)) eqn:?; intros [= <-]; fin. }
  destruct (N.eqb ch 119).
  { destruct set_; destruct (um_wallops (us_modes m)) eqn:?; intros [= <-]; fin. }
  destruct (N.eqb ch 111).
  { destruct set_.
    - destruct (um_oper (us_modes m)) eqn:?; intros [= <-]; fin.
    - destruct (um_oper (us_modes m)) eqn:?; [|intros [= <-]; fin].
      destruct (um_local_oper (us_modes m)) eqn:?; [intros [= <-]; fin|].
      destruct (dec_counter _); cbn [rbind]; [|discriminate]. intros [= <-]; fin. }
  destruct (N.eqb ch 79).
  { destruct set_.
    - destruct (um_local_oper (us_modes m)) eqn:?; intros [= <-]; fin.
    - destruct (is_local_oper (us_modes m)) eqn:?; [|intros [= <-]; fin].
      destruct (dec_counter _); cbn [rbind]; [|discriminate]. intros [= <-]; fin. }
  intros [= <-]. auto.
Qed.

Lemma no_grant_trans a b c : no_grant a b -> no_grant b c -> no_grant a c.
Proof. unfold no_grant. intros [A1 A2] [B1 B2]. auto. Qed.

Lemma umode_chars_frame c client nick cs : forall set_ m m',
  umode_chars c client nick cs set_ m = Ok m' ->
  users (us_sh m') = users (us_sh m) /\ chans (us_sh m') = chans (us_sh m) /\ no_grant (us_modes m) (us_modes m').
Proof.
  induction cs as [|ch cs IH]; intros set_ m m'; cbn [umode_chars].
  - intros [= <-]. unfold no_grant. auto.
  - destruct (N.eqb ch c_plus); [apply IH|]. destruct (N.eqb ch c_minus); [apply IH|].
    destruct (umode_char c client nick ch set_ m) as [m1|] eqn:E; cbn [rbind]; [|discriminate].
    intros H. apply IH in H as [H1 [H2 H3]]. apply umode_char_frame in E as [E1 [E2 E3]].
    split; [congruence|]. split; [congruence|]. eapply no_grant_trans; eauto.
Qed.

(* MODE on the own nick rewrites only the own record, and only its mode field; it never turns
   the operator or local-operator flag on *)
Theorem mode_user_no_grant s c nick modes r u :
  users s !! nick = Some u -> process_mode_user cfg i s c nick modes = Ok r ->
  exists m', users (h_sh r) = <[nick := u_set_modes m' u]> (users s) /\ chans (h_sh r) = chans s /\
             no_grant (u_modes u) m' /\ h_conn r = c /\ h_quit r = false.
Proof.
  intros Hu. unfold process_mode_user, get_user. rewrite Hu. cbn [rbind].
  destruct (is_empty modes).
  { intros [= <-]. cbn. exists (u_modes u). split; [|unfold no_grant; auto].
    symmetry. apply insert_id. rewrite Hu. f_equal. destruct u; reflexivity. }
  match goal with |- context [rfold ?F modes ?m0] => set (F0 := F); set (st0 := m0) end.
  assert (forall l m m', rfold F0 l m = Ok m' ->
            users (us_sh m') = users (us_sh m) /\ chans (us_sh m') = chans (us_sh m) /\ no_grant (us_modes m) (us_modes m')) as G.
  { induction l as [|[mc args] l IH]; intros m m'; cbn [rfold].
    - intros [= <-]. unfold no_grant; auto.
    - unfold F0 at 1. destruct (umode_chars c (client_name c) nick mc false m) as [m1|] eqn:E; cbn [rbind]; [|discriminate].
      intros H. apply IH in H as [H1 [H2 H3]]. apply umode_chars_frame in E as [E1 [E2 E3]].
      split; [congruence|]. split; [congruence|]. eapply no_grant_trans; eauto. }
  destruct (rfold F0 modes st0) as [m|] eqn:E; cbn [rbind]; [|discriminate].
  destruct (G _ _ _ E) as [H1 [H2 H3]]. intros [= <-]. cbn. exists (us_modes m).
  split; [now rewrite H1|]. split; [exact H2|]. split; [exact H3|auto].
Qed.

(* MODE naming somebody else's nick changes nothing *)
Theorem mode_foreign_inert s c nick target modes :
  c_nick c = Some nick -> validate_channel target = false -> nick <> target ->
  process_mode cfg i s c target modes =
  hr s c [(i, srv cfg (match users s !! target with
                       | Some _ => err_usersdontmatch (client_name c)
                       | None => err_nosuchnick (client_name c) target end))].
Proof.
  intros Hn Hv Hne. unfold process_mode, own_nick. rewrite Hn. cbn [rbind]. rewrite Hv.
  rewrite bool_decide_eq_false_2 by exact Hne. destruct (users s !! target); reflexivity.
Qed.

(* ---------------------------------------------------------------- OPER *)
Definition oper_accepted (c : conn) (name password : str) : bool :=
  match find_opercfg cfg name with
  | Some oc => verify password (oc_password oc) &&
               match oc_mask oc with Some m => wild_match m (c_source c) | None => true end
  | None => false
  end.

Theorem oper_spec s c name password nick u :
  c_nick c = Some nick -> users s !! nick = Some u ->
  exists r, process_oper cfg verify i s c name password = Ok r /\ h_conn r = c /\ h_quit r = false /\
    if oper_accepted c name password
    then users (h_sh r) = <[nick := u_set_modes {| um_invisible := um_invisible (u_modes u); um_oper := true;
                                                    um_local_oper := um_local_oper (u_modes u);
                                                    um_registered := um_registered (u_modes u);
                                                    um_wallops := um_wallops (u_modes u) |} u]> (users s)
         /\ chans (h_sh r) = chans s /\ h_out r = [(i, srv cfg (rpl_youreoper (client_name c)))]
    else h_sh r = s /\ exists e, h_out r = [(i, srv cfg e)] /\
           (e = err_passwdmismatch (client_name c) \/ e = err_nooperhost (client_name c)).
Proof.
  intros Hn Hu. unfold process_oper, oper_accepted, own_nick, get_user. rewrite Hn. cbn [rbind].
  destruct (find_opercfg cfg name) as [oc|]; [|eexists; split; [reflexivity|]; cbn; eauto 8].
  rewrite Hu. cbn [rbind]. destruct (verify password (oc_password oc)); cbn [negb andb]; [|eexists; split; [reflexivity|]; cbn; eauto 8].
  destruct (match oc_mask oc with Some m => wild_match m (c_source c) | None => true end); cbn [negb];
    [|eexists; split; [reflexivity|]; cbn; eauto 8].
  eexists. split; [reflexivity|]. cbn. split; [reflexivity|]. split; [reflexivity|].
  destruct (is_local_oper (u_modes u)); cbn; auto.
Qed.

(* ---------------------------------------------------------------- operator commands *)
Theorem kill_spec s c nick u target comment :
  c_nick c = Some nick -> users s !! nick = Some u ->
  process_kill cfg i s c target comment =
  if um_oper (u_modes u) then
    match users s !! target with
    | Some v => match u_kill v with
                | None => hr (set_users (fun us => <[target := u_set_kill (Some (nick, comment)) v]> us) s) c []
                | Some _ => hr s c []
                end
    | None => hr s c [(i, srv cfg (err_nosuchnick (client_name c) target))]
    end
  else hr s c [(i, srv cfg (err_noprivileges (client_name c)))].
Proof. intros Hn Hu. unfold process_kill, own_nick, get_user. rewrite Hn. cbn [rbind]. rewrite Hu. reflexivity. Qed.

Theorem die_spec s c nick u message :
  c_nick c = Some nick -> users s !! nick = Some u ->
  process_die cfg i s c message =
  if um_oper (u_modes u) then
    hr (set_server_quit true
          (set_users (fmap (fun v => match u_kill v with
                                     | None => u_set_kill (Some (nick, default (lit "Quitting from DIE") message)) v
                                     | Some _ => v end)) s)) c []
  else hr s c [(i, srv cfg (err_cantkillserver (client_name c)))].
Proof. intros Hn Hu. unfold process_die, own_nick, get_user. rewrite Hn. cbn [rbind]. rewrite Hu. reflexivity. Qed.

Theorem squit_spec s c server comment :
  process_squit cfg i s c server comment =
  if bool_decide (cfg_name cfg = server) then process_die cfg i s c (Some comment)
  else hr s c [(i, srv cfg (err_unknownerror (client_name c) "SQUIT"))].
Proof. reflexivity. Qed.

Theorem wallops_spec s c nick u msg r :
  c_nick c = Some nick -> users s !! nick = Some u -> process_wallops cfg i s c msg = Ok r ->
  h_sh r = s /\ h_conn r = c /\ h_quit r = false /\
  if is_local_oper (u_modes u)
  then Forall2 (delivered s (to_string_with_source msg (c_source c))) (elements (wallops s)) (h_out r)
  else h_out r = [(i, srv cfg (err_noprivileges (client_name c)))].
Proof.
  intros Hn Hu. unfold process_wallops, own_nick, get_user. rewrite Hn. cbn [rbind]. rewrite Hu. cbn [rbind].
  destruct (is_local_oper (u_modes u)); [|intros [= <-]; cbn; auto].
  destruct (send_all s (elements (wallops s)) _) as [o|] eqn:E; cbn [rbind]; [|discriminate].
  intros [= <-]. cbn. repeat split. now apply send_all_spec.
Qed.

Theorem stats_unprivileged s c nick u q :
  c_nick c = Some nick -> users s !! nick = Some u -> is_local_oper (u_modes u) = false ->
  process_stats cfg i s c q None = hr s c [(i, srv cfg (err_noprivileges (client_name c)))].
Proof. intros Hn Hu Ho. unfold process_stats, own_nick, get_user. rewrite Hn. cbn [rbind]. rewrite Hu. cbn [rbind]. now rewrite Ho. Qed.

End oper.
