(* BanP.v - ban / exception / invite-exception lists are consulted with glob semantics. *)
From IRC Require Import Str Wild Glob Mask Parse Reply State Handlers.
From IRCP Require Import WildP.
From stdpp Require Import gmap.
Open Scope N_scope.

Lemma set_any_spec (f : str -> bool) (s : gset str) :
  set_any f s = true <-> exists x, x ∈ s /\ f x = true.
Proof.
  unfold set_any. rewrite existsb_exists. split.
  - intros [x [Hx Hf]]. exists x. split; [|exact Hf].
    apply elem_of_elements. now apply elem_of_list_In.
  - intros [x [Hx Hf]]. exists x. split; [|exact Hf].
    apply elem_of_list_In. now apply elem_of_elements.
Qed.

Definition matches_any (s : gset str) (source : str) : Prop :=
  exists m, m ∈ s /\ glob m source = true.

Lemma set_any_glob s source :
  set_any (fun m => wild_match m source) s = true <-> matches_any s source.
Proof.
  rewrite set_any_spec. unfold matches_any.
  split; intros [m [Hm H]]; exists m; (split; [exact Hm|]); now rewrite wild_match_glob in *.
Qed.

(* ChannelModes::banned: some ban mask matches and no exception mask does *)
Lemma banned_spec m source :
  banned m source = true <-> matches_any (cm_ban m) source /\ ~ matches_any (cm_exception m) source.
Proof.
  unfold banned. rewrite andb_true_iff, negb_true_iff, <- !set_any_glob.
  destruct (set_any _ (cm_exception m)); split; intros [A B]; split; auto; try congruence.
Qed.

Lemma can_send_spec co nick source :
  can_send co nick source = true <->
  (nick ∈ dom (ch_users co) \/ (cm_noext (ch_modes co) = false /\ cm_secret (ch_modes co) = false)) /\
  ~ (matches_any (cm_ban (ch_modes co)) source /\ ~ matches_any (cm_exception (ch_modes co)) source) /\
  (cm_moderated (ch_modes co) = false \/
   exists r, ch_users co !! nick = Some r /\ rk_is_voice r = true).
Proof.
  unfold can_send. rewrite elem_of_dom.
  pose proof (banned_spec (ch_modes co) source) as Hb.
  destruct (banned (ch_modes co) source);
    destruct (ch_users co !! nick) as [r|]; cbn [is_Some_b];
    destruct (cm_noext (ch_modes co)), (cm_secret (ch_modes co)), (cm_moderated (ch_modes co));
    try destruct (rk_is_voice r) eqn:Hv; cbn;
    (split; [intros H; try discriminate H|intros [H1 [H2 H3]]]);
    try (exfalso; apply H2, Hb; reflexivity);
    try reflexivity;
    try (repeat split; [naive_solver|intros H'; apply Hb in H'; discriminate|naive_solver]);
    try (destruct H1 as [[x Hx]|[? ?]]; discriminate);
    try (destruct H3 as [?|[r' [[= <-] ?]]]; congruence);
    try (destruct H3 as [?|[r' [? ?]]]; discriminate).
Qed.
