(* MaskP.v - normalize_mask completes a mask to nick!user@host form and is idempotent. *)
From Coq Require Import List NArith Bool Arith Lia.
From IRC Require Import Str Mask.
Import ListNotations.
Open Scope N_scope.

Lemma contains_false_iff c s : contains c s = false <-> ~ In c s.
Proof.
  unfold contains. split.
  - intros H I. assert (existsb (N.eqb c) s = true) as E; [|congruence].
    apply existsb_exists. exists c. split; [exact I|apply N.eqb_refl].
  - intros H. destruct (existsb (N.eqb c) s) eqn:E; [|reflexivity].
    apply existsb_exists in E as [x [I E]]. apply N.eqb_eq in E. subst. contradiction.
Qed.

Lemma contains_true_iff c s : contains c s = true <-> In c s.
Proof.
  unfold contains. rewrite existsb_exists. split.
  - intros [x [I E]]. apply N.eqb_eq in E. now subst.
  - intros I. exists c. split; [exact I|apply N.eqb_refl].
Qed.

Lemma split_first_none c s a : split_first c s = (a, None) -> a = s /\ ~ In c s.
Proof.
  revert a. induction s as [|d s IH]; intros a; cbn [split_first].
  - intros [= <-]. split; [reflexivity|intros []].
  - destruct (N.eqb_spec d c) as [E|E]; [discriminate|].
    destruct (split_first c s) as [a' b'] eqn:S. intros [= <- ->].
    destruct (IH _ eq_refl) as [-> N]. split; [reflexivity|].
    intros [I|I]; [congruence|contradiction].
Qed.

Lemma split_first_some c s a b :
  split_first c s = (a, Some b) -> s = a ++ c :: b /\ ~ In c a.
Proof.
  revert a. induction s as [|d s IH]; intros a; cbn [split_first]; [discriminate|].
  destruct (N.eqb_spec d c) as [E|E].
  - intros [= <- <-]. subst. split; [reflexivity|intros []].
  - destruct (split_first c s) as [a' b'] eqn:S. intros [= <- ->].
    destruct (IH _ eq_refl) as [-> N]. split; [reflexivity|].
    intros [I|I]; [congruence|contradiction].
Qed.

Lemma split_first_app c a b : ~ In c a -> split_first c (a ++ c :: b) = (a, Some b).
Proof.
  induction a as [|d a IH]; intros N; cbn [app split_first].
  - now rewrite N.eqb_refl.
  - destruct (N.eqb_spec d c) as [E|E]; [exfalso; apply N; left; exact E|].
    rewrite IH; [reflexivity|]. intros I. apply N. right. exact I.
Qed.

(* a mask is complete when it has a '!' and an '@' after the first '!' *)
Definition complete_mask (m : str) : Prop :=
  exists a b, m = a ++ c_excl :: b /\ ~ In c_excl a /\ In c_at b.

Lemma normalize_complete_id m : complete_mask m -> normalize_mask m = m.
Proof.
  intros [a [b [-> [Na Ib]]]]. unfold normalize_mask.
  rewrite split_first_app by exact Na.
  apply contains_true_iff in Ib. now rewrite Ib.
Qed.

(* the three documented completions *)
Theorem normalize_forms m :
  (~ In c_excl m -> ~ In c_at m -> normalize_mask m = m ++ lit "!*@*") /\
  (forall n h, ~ In c_excl m -> m = n ++ c_at :: h -> ~ In c_at n ->
               normalize_mask m = n ++ lit "!*" ++ c_at :: h) /\
  (forall n u, m = n ++ c_excl :: u -> ~ In c_excl n -> ~ In c_at u ->
               normalize_mask m = m ++ lit "@*") /\
  (complete_mask m -> normalize_mask m = m).
Proof.
  repeat split.
  - intros Ne Na. unfold normalize_mask.
    destruct (split_first c_excl m) as [a [b|]] eqn:S.
    + apply split_first_some in S as [-> _]. exfalso. apply Ne, in_elt.
    + destruct (split_first c_at m) as [a' [b'|]] eqn:S'; [|reflexivity].
      apply split_first_some in S' as [-> _]. exfalso. apply Na, in_elt.
  - intros n h Ne -> Na. unfold normalize_mask.
    destruct (split_first c_excl (n ++ c_at :: h)) as [a [b|]] eqn:S.
    + apply split_first_some in S as [E _]. exfalso. apply Ne. rewrite E. apply in_elt.
    + now rewrite split_first_app by exact Na.
  - intros n u -> Ne Na. unfold normalize_mask. rewrite split_first_app by exact Ne.
    apply contains_false_iff in Na. now rewrite Na.
  - apply normalize_complete_id.
Qed.

Theorem normalize_is_complete m : complete_mask (normalize_mask m).
Proof.
  unfold normalize_mask.
  destruct (split_first c_excl m) as [a [b|]] eqn:S.
  - apply split_first_some in S as [-> Na].
    destruct (contains c_at b) eqn:C.
    + exists a, b. repeat split; [exact Na|now apply contains_true_iff].
    + exists a, (b ++ lit "@*"). repeat split.
      * now rewrite <- app_assoc.
      * exact Na.
      * apply in_or_app. right. left. reflexivity.
  - apply split_first_none in S as [-> Ne].
    destruct (split_first c_at m) as [a' [b'|]] eqn:S'.
    + apply split_first_some in S' as [-> Na].
      exists a', (lit "*" ++ c_at :: b'). repeat split.
      * intros I. apply Ne. apply in_or_app. left. exact I.
      * right. left. reflexivity.
    + apply split_first_none in S' as [-> Na].
      exists m, (lit "*@*"). repeat split; [exact Ne|].
      right. left. reflexivity.
Qed.

Theorem normalize_idempotent m : normalize_mask (normalize_mask m) = normalize_mask m.
Proof. apply normalize_complete_id, normalize_is_complete. Qed.
