(* ChanP.v - channel life cycle: removal of the last member, preconfigured channels (C16). *)
From IRC Require Import Str Wild Glob Mask Parse Reply State Handlers.
From IRCP Require Import StrP.
From stdpp Require Import gmap.
Open Scope N_scope.

Lemma rfold_chan_set_rank_users nick (c c' : chan) ls :
  rfold (fun c l => chan_set_rank l false nick c) ls c = Ok c' ->
  (forall n, n <> nick -> ch_users c' !! n = ch_users c !! n) /\
  dom (ch_users c') = dom (ch_users c) /\
  ch_topic c' = ch_topic c /\ ch_preconf c' = ch_preconf c /\ ch_baninfo c' = ch_baninfo c /\
  ch_default c' = ch_default c.
Proof.
  revert c. induction ls as [|l ls IH]; intros c; cbn [rfold].
  - intros [= <-]. repeat split; auto.
  - unfold chan_set_rank at 1. destruct (ch_users c !! nick) as [r|] eqn:Hr; cbn [rbind]; [|intros HP; discriminate HP].
    intros H. apply IH in H as [H1 [H2 [H3 [H4 [H5 H6]]]]]. cbn in *. repeat split; try assumption.
    + intros n Hn. rewrite H1 by exact Hn. rewrite lookup_insert_ne by congruence. reflexivity.
    + rewrite H2, dom_insert_L. apply elem_of_dom_2 in Hr. set_solver.
Qed.

Lemma chan_remove_user_spec nick c c' :
  chan_remove_user nick c = Ok c' ->
  ch_users c' = delete nick (ch_users c) /\ nick ∈ dom (ch_users c) /\
  ch_topic c' = ch_topic c /\ ch_preconf c' = ch_preconf c.
Proof.
  unfold chan_remove_user.
  destruct (rfold _ _ c) as [c1|] eqn:Hf; cbn [rbind]; [|discriminate].
  intros [= <-]. cbn.
  assert (nick ∈ dom (ch_users c)) as Hin.
  { cbn [rfold all_rankletters] in Hf. unfold chan_set_rank at 1 in Hf.
    destruct (ch_users c !! nick) eqn:E; [now apply elem_of_dom_2 in E|discriminate]. }
  apply rfold_chan_set_rank_users in Hf as [H1 [H2 [H3 [H4 _]]]].
  repeat split; try assumption.
  apply map_eq. intros n. destruct (decide (n = nick)) as [->|Hn].
  - now rewrite !lookup_delete.
  - rewrite !lookup_delete_ne by congruence. now apply H1.
Qed.

(* the last member leaves (PART, KICK and every session end go through this function):
   an ordinary channel ceases to exist, a preconfigured one stays, empty *)
Lemma last_member_leaves ch nick s s' co :
  st_remove_user_from_channel ch nick s = Ok s' ->
  chans s !! ch = Some co -> dom (ch_users co) = {[nick]} ->
  if ch_preconf co then exists co', chans s' !! ch = Some co' /\ ch_users co' = ∅ /\ ch_topic co' = ch_topic co
  else chans s' !! ch = None.
Proof.
  unfold st_remove_user_from_channel. intros H Hco Hdom. rewrite Hco in H.
  destruct (chan_remove_user nick co) as [co'|] eqn:Hr; cbn [rbind] in H; [|discriminate].
  apply chan_remove_user_spec in Hr as [Hus [_ [Ht Hp]]].
  assert (ch_users co' = ∅) as Hempty.
  { rewrite Hus. apply map_empty. intros n. destruct (decide (n = nick)) as [->|Hn].
    - apply lookup_delete.
    - rewrite lookup_delete_ne by congruence. apply not_elem_of_dom. rewrite Hdom. set_solver. }
  rewrite Hempty, map_size_empty in H. cbn [Nat.eqb andb] in H. rewrite Hp in H.
  destruct (ch_preconf co); cbn [negb rbind] in H.
  - exists co'. destruct (users _ !! nick); injection H as <-; cbn; rewrite lookup_insert; auto.
  - destruct (users _ !! nick); injection H as <-; cbn; apply lookup_delete.
Qed.

(* somebody else stays: the channel stays *)
Lemma other_member_stays ch nick s s' co other :
  st_remove_user_from_channel ch nick s = Ok s' ->
  chans s !! ch = Some co -> other ∈ dom (ch_users co) -> other <> nick ->
  exists co', chans s' !! ch = Some co' /\ ch_users co' = delete nick (ch_users co).
Proof.
  unfold st_remove_user_from_channel. intros H Hco Ho Hne. rewrite Hco in H.
  destruct (chan_remove_user nick co) as [co'|] eqn:Hr; cbn [rbind] in H; [|discriminate].
  apply chan_remove_user_spec in Hr as [Hus _].
  assert (size (ch_users co') <> 0%nat) as Hsz.
  { intros Hz. apply map_size_empty_inv in Hz. rewrite Hus in Hz.
    apply elem_of_dom in Ho as [r Hr']. assert (delete nick (ch_users co) !! other = Some r) as E.
    { rewrite lookup_delete_ne by congruence. exact Hr'. }
    rewrite Hz in E. now rewrite lookup_empty in E. }
  destruct (Nat.eqb_spec (size (ch_users co')) 0) as [E|_]; [contradiction|]. cbn [andb rbind] in H.
  exists co'. destruct (users _ !! nick); injection H as <-; cbn; rewrite lookup_insert; auto.
Qed.

(* channels declared in the configuration exist from start-up with the configured settings,
   empty, their rank lists moved to the per-channel defaults *)
Lemma chan_of_cfg_spec c :
  let co := chan_of_cfg c in
  ch_preconf co = true /\ ch_users co = ∅ /\ ch_baninfo co = ∅ /\
  ch_topic co = option_map (fun t => (t, [])) (cc_topic c) /\
  cm_key (ch_modes co) = cm_key (cc_modes c) /\ cm_limit (ch_modes co) = cm_limit (cc_modes c) /\
  cm_ban (ch_modes co) = cm_ban (cc_modes c) /\ cm_exception (ch_modes co) = cm_exception (cc_modes c) /\
  cm_invex (ch_modes co) = cm_invex (cc_modes c) /\
  cm_invite_only (ch_modes co) = cm_invite_only (cc_modes c) /\
  cm_moderated (ch_modes co) = cm_moderated (cc_modes c) /\
  cm_secret (ch_modes co) = cm_secret (cc_modes c) /\
  cm_protected_topic (ch_modes co) = cm_protected_topic (cc_modes c) /\
  cm_noext (ch_modes co) = cm_noext (cc_modes c) /\
  cm_founders (ch_modes co) = ∅ /\ cm_protecteds (ch_modes co) = ∅ /\ cm_operators (ch_modes co) = ∅ /\
  cm_half_operators (ch_modes co) = ∅ /\ cm_voices (ch_modes co) = ∅ /\
  d_founders (ch_default co) = cm_founders (cc_modes c) /\
  d_protecteds (ch_default co) = cm_protecteds (cc_modes c) /\
  d_operators (ch_default co) = cm_operators (cc_modes c) /\
  d_half_operators (ch_default co) = cm_half_operators (cc_modes c) /\
  d_voices (ch_default co) = cm_voices (cc_modes c).
Proof. cbn. repeat split. Qed.

Lemma find_app' {A} (f : A -> bool) l1 l2 :
  List.find f (l1 ++ l2) = match List.find f l1 with Some x => Some x | None => List.find f l2 end.
Proof. induction l1 as [|x l1 IH]; cbn; [reflexivity|]. destruct (f x); [reflexivity|exact IH]. Qed.

Lemma shared_init_chans_aux (l : list chancfg) (m : gmap str chan) name :
  fold_left (fun m c => <[cc_name c := chan_of_cfg c]> m) l m !! name =
  match find_last (fun c => str_eqb (cc_name c) name) l with
  | Some c => Some (chan_of_cfg c)
  | None => m !! name
  end.
Proof.
  revert m. induction l as [|c l IH]; intros m; [reflexivity|].
  cbn [fold_left]. rewrite IH. unfold find_last. cbn [rev]. rewrite find_app'.
  destruct (find _ (rev l)); [reflexivity|]. cbn [find].
  destruct (str_eqb (cc_name c) name) eqn:E.
  - apply str_eqb_eq in E. rewrite <- E. apply lookup_insert.
  - apply str_eqb_neq in E. rewrite lookup_insert_ne by exact E. reflexivity.
Qed.

Lemma shared_init_chans cfg name :
  chans (shared_init cfg) !! name =
  option_map chan_of_cfg (find_last (fun c => str_eqb (cc_name c) name) (cfg_channels cfg)).
Proof.
  unfold shared_init. cbn [chans]. rewrite shared_init_chans_aux.
  destruct (find_last _ _); [reflexivity|apply lookup_empty].
Qed.

(* a nick listed in a configured rank list gets exactly those ranks when it joins *)
Lemma chan_add_user_default nick co :
  let co' := chan_add_user nick co in
  exists r, ch_users co' = <[nick := r]> (ch_users co) /\
    (forall l, rank_get l r = bool_decide (nick ∈ d_get l (ch_default co))) /\
    ch_topic co' = ch_topic co /\ ch_preconf co' = ch_preconf co /\ ch_default co' = ch_default co.
Proof.
  unfold chan_add_user. cbn [fold_left].
  repeat match goal with |- context [bool_decide ?P] => destruct (bool_decide P) eqn:? end;
    cbn in *; eexists; (split; [reflexivity|]); (split; [intros []; cbn in *; congruence|]); auto.
Qed.
