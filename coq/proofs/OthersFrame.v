(* OthersFrame.v - a connection can modify only the user it registered itself.  [ufields u]: owner,
   host, user name, real name, cached source, user modes, away text, WHOWAS data.  Whatever connection i
   sends and however it ends, every record of ANOTHER connection that exists afterwards existed before
   under the same nick with the same [ufields]; what a foreign command can touch in it is only the
   membership set (KICK), the pending invitations (INVITE) and the KILL mark (KILL / DIE). *)
From IRC Require Import Str Wild Glob Mask Parse Reply State Handlers Step.
From IRCP Require Import StrP ChanP InvDefs InvPrims InvNick InvHandlers InvStep Reach NickP OperP ModesFrame.
From stdpp Require Import gmap.
Open Scope N_scope.

Local Arguments lit : simpl never.

Definition ufields (u : user) :=
  (u_conn u, u_host u, u_name u, u_real u, u_source u, u_modes u, u_away u, u_hist u).

(* every record that does not belong to connection [i] was there before with the same fields *)
Definition okeeps (i : nat) (s s' : shared) : Prop :=
  forall n u', users s' !! n = Some u' -> u_conn u' <> i -> exists u, users s !! n = Some u /\ ufields u' = ufields u.
(* every record, also the sender's *)
Definition akeeps (s s' : shared) : Prop :=
  forall n u', users s' !! n = Some u' -> exists u, users s !! n = Some u /\ ufields u' = ufields u.

Lemma akeeps_okeeps i s s' : akeeps s s' -> okeeps i s s'.
Proof. intros A n u' H _. exact (A n u' H). Qed.
Lemma akeeps_refl s : akeeps s s. Proof. intros n u H. eauto. Qed.
Lemma akeeps_trans s1 s2 s3 : akeeps s1 s2 -> akeeps s2 s3 -> akeeps s1 s3.
Proof. intros A B n u3 H3. destruct (B n u3 H3) as [u2 [H2 E2]]. destruct (A n u2 H2) as [u1 [H1 E1]]. exists u1. split; [exact H1|congruence]. Qed.
Lemma akeeps_users_eq s s' : users s' = users s -> akeeps s s'.
Proof. intros E n u H. rewrite E in H. eauto. Qed.

Lemma akeeps_insert s s' n u u' : users s' = <[n := u']> (users s) -> users s !! n = Some u -> ufields u' = ufields u -> akeeps s s'.
Proof.
  intros E Hu Hf n0 u0 H. rewrite E in H. destruct (decide (n0 = n)) as [->|Hne].
  - rewrite lookup_insert in H. injection H as <-. eauto.
  - rewrite lookup_insert_ne in H by congruence. eauto.
Qed.

(* the sender's own record is replaced by another record of the same connection *)
Lemma okeeps_insert_own i nick s s' u' : users s' = <[nick := u']> (users s) -> u_conn u' = i -> okeeps i s s'.
Proof.
  intros E Hc n u0 H Hne. rewrite E in H. destruct (decide (n = nick)) as [->|N1].
  - rewrite lookup_insert in H. injection H as <-. contradiction.
  - rewrite lookup_insert_ne in H by congruence. eauto.
Qed.

Lemma rfold_akeeps {A} (f : shared -> A -> res shared) l :
  (forall s x s', f s x = Ok s' -> akeeps s s') -> forall s s', rfold f l s = Ok s' -> akeeps s s'.
Proof.
  intros Hf. induction l as [|x l IH]; intros s s'; cbn [rfold].
  - intros [= <-]. apply akeeps_refl.
  - destruct (f s x) as [s1|] eqn:E; cbn [rbind]; [|discriminate]. intros H.
    eapply akeeps_trans; [eapply Hf; eauto|eapply IH; eauto].
Qed.

Lemma remove_from_channel_akeeps ch nick s s' : st_remove_user_from_channel ch nick s = Ok s' -> akeeps s s'.
Proof.
  unfold st_remove_user_from_channel.
  assert (forall s1, users s1 = users s ->
            match users s1 !! nick with
            | Some u => Ok (set_users (fun us => <[nick := u_set_chans (fun cs => cs ∖ {[ch]}) u]> us) s1)
            | None => Ok s1
            end = Ok s' -> akeeps s s') as K.
  { intros s1 E. destruct (users s1 !! nick) as [u|] eqn:Hu; intros [= <-].
    - eapply (akeeps_insert s _ nick u); cbn; [now rewrite E|now rewrite <- E|destruct u; reflexivity].
    - now apply akeeps_users_eq. }
  destruct (chans s !! ch) as [co|]; cbn [rbind]; [|now apply K].
  destruct (chan_remove_user nick co) as [co'|]; cbn [rbind]; [|discriminate].
  destruct (_ && _); cbn [rbind]; apply K; reflexivity.
Qed.

Lemma join_insert_akeeps nick s x s' : join_insert nick s x = Ok s' -> akeeps s s'.
Proof.
  destruct x as [ch [j cr]]. unfold join_insert. destruct (negb j); [intros [= <-]; apply akeeps_refl|].
  unfold get_user. destruct (users s !! nick) as [u|] eqn:Hu; cbn [rbind]; [|discriminate].
  destruct cr.
  - intros [= <-]. eapply (akeeps_insert s _ nick u); cbn; [reflexivity|exact Hu|destruct u; reflexivity].
  - unfold get_chan. cbn [chans set_users]. destruct (chans s !! ch); cbn [rbind]; [|discriminate].
    intros [= <-]. eapply (akeeps_insert s _ nick u); cbn; [reflexivity|exact Hu|destruct u; reflexivity].
Qed.

Section frame.
Context (cfg : config) (verify : str -> str -> bool) (i : nat).

Ltac same H := injection H as <-; cbn [h_sh]; apply akeeps_refl.

Lemma join_akeeps s c chs keys r : process_join cfg i s c chs keys = Ok r -> akeeps s (h_sh r).
Proof.
  unfold process_join. destruct (own_nick c) as [nick|]; cbn [rbind]; [|discriminate].
  destruct (get_user s nick) as [u|]; cbn [rbind]; [|discriminate].
  destruct (join_phase1 _ _ _ _ _ _ _ _ _ _ _) as [[[plan o1] q]|]; cbn [rbind]; [|discriminate].
  destruct (rfold (join_insert nick) plan s) as [s'|] eqn:E; cbn [rbind]; [|discriminate].
  match goal with |- context [rfold ?G plan []] => destruct (rfold G plan []) as [o2|] end; cbn [rbind]; [|discriminate].
  intros [= <-]. cbn [h_sh]. eapply rfold_akeeps; [|exact E]. intros; eapply join_insert_akeeps; eauto.
Qed.

Lemma part_akeeps s c chs reason r : process_part cfg i s c chs reason = Ok r -> akeeps s (h_sh r).
Proof.
  unfold process_part. destruct (own_nick c) as [nick|]; cbn [rbind]; [|discriminate].
  match goal with |- context [rfold ?F chs (s, [])] => set (F0 := F) end.
  assert (forall l s0 o0 s1 o1, rfold F0 l (s0, o0) = Ok (s1, o1) -> akeeps s0 s1) as G.
  { induction l as [|ch l IH]; intros s0 o0 s1 o1; cbn [rfold]; [intros [= <- _]; apply akeeps_refl|].
    unfold F0 at 1. destruct (chans s0 !! ch) as [co|]; [|cbn [rbind]; apply IH].
    destruct (bool_decide _); [|cbn [rbind]; apply IH].
    destruct (send_all _ _ _); cbn [rbind]; [|discriminate].
    destruct (st_remove_user_from_channel ch nick s0) as [s2|] eqn:E; cbn [rbind]; [|discriminate].
    intros H. eapply akeeps_trans; [eapply remove_from_channel_akeeps; eauto|eapply IH; eauto]. }
  destruct (rfold F0 chs (s, [])) as [[s' o]|] eqn:E; cbn [rbind]; [|discriminate].
  destruct (get_user s' nick); cbn [rbind]; [|discriminate]. intros [= <-]. cbn [h_sh]. eapply G; eauto.
Qed.

Lemma kick_akeeps s c ch victims comment r : process_kick cfg i s c ch victims comment = Ok r -> akeeps s (h_sh r).
Proof.
  unfold process_kick. destruct (own_nick c) as [nick|]; cbn [rbind]; [|discriminate].
  destruct (kick_decide s nick (client_name c) ch victims) as [kicked o1].
  destruct (rfold (fun s v => st_remove_user_from_channel ch v s) kicked s) as [s'|] eqn:E; cbn [rbind]; [|discriminate].
  match goal with |- context [rfold ?G kicked []] => destruct (rfold G kicked []) end; cbn [rbind]; [|discriminate]. intros [= <-]. cbn [h_sh].
  eapply rfold_akeeps; [|exact E]. intros s0 x s1 H; cbn beta in H; eapply remove_from_channel_akeeps; exact H.
Qed.

Lemma topic_akeeps s c ch topic msg r : process_topic cfg i s c ch topic msg = Ok r -> akeeps s (h_sh r).
Proof.
  unfold process_topic. destruct (own_nick c) as [nick|]; cbn [rbind]; [|discriminate].
  destruct topic as [t|].
  - destruct (chans s !! ch) as [co|]; [|intros H; same H].
    destruct (ch_users co !! nick) as [rk|]; [|intros H; same H].
    destruct (topic_allowed co rk); [|intros H; same H].
    destruct (send_all _ _ _); cbn [rbind]; [|discriminate]. intros [= <-]. cbn [h_sh]. now apply akeeps_users_eq.
  - destruct (chans s !! ch) as [co|]; [|intros H; same H].
    destruct (bool_decide _); [|intros H; same H]. destruct (ch_topic co) as [[t w]|]; intros H; same H.
Qed.

Lemma invite_akeeps s c nickname ch msg r : process_invite cfg i s c nickname ch msg = Ok r -> akeeps s (h_sh r).
Proof.
  unfold process_invite. destruct (own_nick c) as [nick|]; cbn [rbind]; [|discriminate].
  destruct (chans s !! ch) as [co|]; [|intros H; same H].
  destruct (ch_users co !! nick) as [rk|]; [|intros H; same H].
  destruct (_ && _); [intros H; same H|]. destruct (bool_decide _); [intros H; same H|].
  destruct (users s !! nickname) as [inv|] eqn:Hu; [|intros H; same H].
  intros [= <-]. cbn [h_sh]. eapply (akeeps_insert s _ nickname inv); cbn; [reflexivity|exact Hu|destruct inv; reflexivity].
Qed.

Lemma mode_channel_akeeps s c target nick co rk modes r :
  process_mode_channel cfg i s c target nick co rk modes = Ok r -> akeeps s (h_sh r).
Proof.
  unfold process_mode_channel. destruct (is_empty modes); [intros H; same H|].
  match goal with |- context [rfold ?G modes ?m0] => destruct (rfold G modes m0) as [m|] end; cbn [rbind]; [|discriminate].
  destruct (match mode_announcement target m with Some _ => _ | None => _ end); cbn [rbind]; [|discriminate].
  intros [= <-]. cbn [h_sh]. now apply akeeps_users_eq.
Qed.

Lemma kill_akeeps s c nickname comment r : process_kill cfg i s c nickname comment = Ok r -> akeeps s (h_sh r).
Proof.
  unfold process_kill. destruct (own_nick c) as [nick|]; cbn [rbind]; [|discriminate].
  destruct (get_user s nick) as [u|]; cbn [rbind]; [|discriminate].
  destruct (um_oper (u_modes u)); [|intros H; same H].
  destruct (users s !! nickname) as [v|] eqn:Hv; [|intros H; same H].
  destruct (u_kill v); [intros H; same H|].
  intros [= <-]. cbn [h_sh]. eapply (akeeps_insert s _ nickname v); cbn; [reflexivity|exact Hv|destruct v; reflexivity].
Qed.

Lemma die_akeeps s c message r : process_die cfg i s c message = Ok r -> akeeps s (h_sh r).
Proof.
  unfold process_die. destruct (own_nick c) as [nick|]; cbn [rbind]; [|discriminate].
  destruct (get_user s nick) as [u|]; cbn [rbind]; [|discriminate].
  destruct (um_oper (u_modes u)); [|intros H; same H].
  intros [= <-]. cbn [h_sh]. intros n u' H. cbn in H. rewrite lookup_fmap in H.
  destruct (users s !! n) as [v|] eqn:Hv; [|discriminate]. cbn in H. injection H as <-.
  exists v. split; [reflexivity|]. destruct (u_kill v); [reflexivity|]. destruct v; reflexivity.
Qed.

Lemma away_okeeps s c text r nick u : own_nick c = Ok nick -> users s !! nick = Some u -> u_conn u = i ->
  process_away cfg i s c text = Ok r -> okeeps i s (h_sh r).
Proof.
  intros Ho Hu Hc. unfold process_away. rewrite Ho. cbn [rbind].
  unfold get_user. rewrite Hu. cbn [rbind].
  intros [= <-]. cbn [h_sh]. eapply (okeeps_insert_own i nick); [reflexivity|]. destruct u; exact Hc.
Qed.

(* every command of a registered connection: the records of all other connections keep their fields *)
Theorem dispatch_others s c cmd msg r :
  InvS s -> conn_ok i s c -> c_auth c = true ->
  dispatch cfg verify i s c cmd msg = Ok r -> okeeps i s (h_sh r).
Proof.
  intros I C A H.
  destruct (own_user i s c C A) as [nick [u [Hn [Hu [Hc [Ho Hg]]]]]].
  assert (forall r0, same_result s c r0 -> okeeps i s (h_sh r0)) as Same.
  { intros r0 [E _]. rewrite E. apply akeeps_okeeps, akeeps_refl. }
  assert (forall (P : res hres), (exists r0, P = Ok r0 /\ same_result s c r0) -> P = Ok r -> okeeps i s (h_sh r)) as S2.
  { intros P [r0 [-> Hs]] [= <-]. now apply Same. }
  assert (forall o, Ok {| h_sh := s; h_conn := c; h_out := o; h_quit := false |} = Ok r -> okeeps i s (h_sh r)) as S3.
  { intros o [= <-]. apply akeeps_okeeps, akeeps_refl. }
  destruct cmd; cbn [dispatch] in H.
  - unfold process_cap in H. destruct sub.
    + injection H as <-. apply akeeps_okeeps, akeeps_refl.
    + injection H as <-. apply akeeps_okeeps, akeeps_refl.
    + destruct caps as [cs|]; [destruct (forallb _ cs)|]; injection H as <-; apply akeeps_okeeps, akeeps_refl.
    + rewrite A in H. injection H as <-. apply akeeps_okeeps, akeeps_refl.
  - injection H as <-. apply akeeps_okeeps, akeeps_refl.
  - unfold process_pass in H. rewrite A in H. injection H as <-. apply akeeps_okeeps, akeeps_refl.
  - (* NICK *)
    destruct (decide (nickname = nick)) as [->|Hne].
    { rewrite (process_nick_same cfg verify i s c msg nick A Hn) in H. injection H as <-. apply akeeps_okeeps, akeeps_refl. }
    destruct (users s !! nickname) as [x|] eqn:Hx.
    { rewrite (process_nick_refused cfg verify i s c nickname msg nick x A Hn Hne Hx) in H. injection H as <-. apply akeeps_okeeps, akeeps_refl. }
    destruct (process_nick_effect cfg verify i s c nickname msg nick u I A Hn Hu Hne Hx) as [r0 [Hr [_ [_ [Hus _]]]]].
    rewrite Hr in H. injection H as <-.
    intros n u' Hu' N1. rewrite Hus in Hu'. destruct (decide (n = nickname)) as [->|N0].
    { rewrite lookup_insert in Hu'. injection Hu' as <-. exfalso. apply N1. destruct u; exact Hc. }
    rewrite lookup_insert_ne in Hu' by congruence.
    destruct (decide (n = nick)) as [->|N2]; [now rewrite lookup_delete in Hu'|]. rewrite lookup_delete_ne in Hu' by congruence. eauto.
  - unfold process_user in H. rewrite A in H. injection H as <-. apply akeeps_okeeps, akeeps_refl.
  - injection H as <-. apply akeeps_okeeps, akeeps_refl.
  - injection H as <-. apply akeeps_okeeps, akeeps_refl.
  - (* OPER *)
    destruct (oper_spec cfg verify i s c name password nick u Hn Hu) as [r0 [Hr [_ [_ Hacc]]]].
    rewrite Hr in H. injection H as <-. destruct (oper_accepted cfg verify c name password).
    + destruct Hacc as [Hus _]. eapply (okeeps_insert_own i nick); [exact Hus|]. destruct u; exact Hc.
    + destruct Hacc as [E _]. rewrite E. apply akeeps_okeeps, akeeps_refl.
  - (* QUIT *) injection H as <-. apply akeeps_okeeps, akeeps_refl.
  - apply akeeps_okeeps. eapply join_akeeps; eauto.
  - apply akeeps_okeeps. eapply part_akeeps; eauto.
  - apply akeeps_okeeps. eapply topic_akeeps; eauto.
  - eapply S2; [|exact H]. now apply process_names_ok.
  - unfold process_list in H. destruct server; eapply S3; exact H.
  - apply akeeps_okeeps. eapply invite_akeeps; eauto.
  - apply akeeps_okeeps. eapply kick_akeeps; eauto.
  - unfold process_motd in H. destruct target; eapply S3; exact H.
  - unfold process_version in H. destruct target; eapply S3; exact H.
  - unfold process_admin in H. destruct target; eapply S3; exact H.
  - eapply S3; exact H.
  - unfold process_lusers in H. destruct (lusers_lines s (client_name c)); cbn [rbind] in H; [|discriminate]. eapply S3; exact H.
  - unfold process_time in H. destruct server; eapply S3; exact H.
  - unfold process_stats in H. destruct server; [eapply S3; exact H|].
    rewrite Ho in H. cbn [rbind] in H. rewrite Hg in H. cbn [rbind] in H. destruct (is_local_oper _); eapply S3; exact H.
  - unfold process_links in H. destruct remote_server, server_mask; eapply S3; exact H.
  - unfold process_help in H. destruct (help_topic _); eapply S3; exact H.
  - eapply S3; exact H.
  - (* MODE *)
    unfold process_mode in H. rewrite Ho in H. cbn [rbind] in H. destruct (validate_channel target).
    + destruct (chans s !! target) as [co|]; [|eapply S3; exact H].
      destruct (ch_users co !! nick) as [rk|]; [|eapply S3; exact H].
      apply akeeps_okeeps. eapply mode_channel_akeeps; eauto.
    + destruct (bool_decide (nick = target)).
      * destruct (mode_user_no_grant cfg i s c nick modes r u Hu H) as [m' [Hus _]].
        eapply (okeeps_insert_own i nick); [exact Hus|]. destruct u; exact Hc.
      * destruct (users s !! target); eapply S3; exact H.
  - eapply S2; [|exact H]. now apply process_privmsg_ok.
  - eapply S2; [|exact H]. now apply process_privmsg_ok.
  - eapply S2; [|exact H]. now apply process_who_ok.
  - eapply S2; [|exact H]. now apply process_whois_ok.
  - unfold process_whowas in H. destruct server; eapply S3; exact H.
  - apply akeeps_okeeps. eapply kill_akeeps; eauto.
  - eapply S3; exact H.
  - eapply S3; exact H.
  - unfold process_squit in H. destruct (bool_decide _); [|eapply S3; exact H]. apply akeeps_okeeps. eapply die_akeeps; eauto.
  - eapply away_okeeps; eauto.
  - eapply S3; exact H.
  - eapply S2; [|exact H]. now apply process_wallops_ok.
  - eapply S3; exact H.
  - apply akeeps_okeeps. eapply die_akeeps; eauto.
Qed.

End frame.
