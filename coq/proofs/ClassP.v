(* ClassP.v - the character classes of channel modes agree between parser and handler. *)
From IRC Require Import Str Parse State Handlers.
From stdpp Require Import gmap.
Open Scope N_scope.

Lemma in_chars_cases c (s : string) : in_chars c s = true -> In c (lit s).
Proof.
  unfold in_chars, contains. intros H. apply existsb_exists in H as [x [Hx E]]. apply N.eqb_eq in E. now subst.
Qed.

Lemma classify_list ch : classify_mode ch = MListC -> exists ll, listletter_of ch = Some ll.
Proof.
  unfold classify_mode.
  destruct (N.eqb ch c_plus); [discriminate|]. destruct (N.eqb ch c_minus); [discriminate|].
  destruct (in_chars ch "beI") eqn:E.
  - intros _. apply in_chars_cases in E. vm_compute in E.
    destruct E as [<-|[<-|[<-|[]]]]; vm_compute; eauto.
  - destruct (in_chars ch "ovhqa"); [discriminate|]. destruct (N.eqb ch 108); [discriminate|].
    destruct (N.eqb ch 107); [discriminate|]. destruct (in_chars ch "imtns"); discriminate.
Qed.

Lemma classify_rank ch : classify_mode ch = MRankC -> exists rl, rankletter_of ch = Some rl.
Proof.
  unfold classify_mode.
  destruct (N.eqb ch c_plus); [discriminate|]. destruct (N.eqb ch c_minus); [discriminate|].
  destruct (in_chars ch "beI"); [discriminate|].
  destruct (in_chars ch "ovhqa") eqn:E.
  - intros _. apply in_chars_cases in E. vm_compute in E.
    destruct E as [<-|[<-|[<-|[<-|[<-|[]]]]]]; vm_compute; eauto.
  - destruct (N.eqb ch 108); [discriminate|].
    destruct (N.eqb ch 107); [discriminate|]. destruct (in_chars ch "imtns"); discriminate.
Qed.
