(* BornFrame.v - channels are born by JOIN only, with their founder.  [nborn]: no channel name that was free becomes a
   channel; it holds for every command but JOIN, for registration, for every way a session ends and for KILL delivery.
   JOIN: a name of its list that was free becomes the fresh channel of the joiner ([chan_new]: the joiner its only member,
   founder and operator, default settings, no topic) - also when the list repeats names or mixes fresh and existing ones. *)
From IRC Require Import Str Wild Glob Mask Parse Reply State Handlers Step.
From IRCP Require Import StrP ChanP InvDefs InvPrims InvNick InvHandlers InvStep Reach NickP OperP ModesFrame ModeP SettingsFrame SettingsGlobal ConnFrame.
From stdpp Require Import gmap.
Open Scope N_scope.

Local Arguments lit : simpl never.

Definition nborn (s s' : shared) : Prop := forall ch, chans s !! ch = None -> chans s' !! ch = None.
Definition bornby (nick : str) (L : list str) (s s' : shared) : Prop :=
  forall ch co', chans s !! ch = None -> chans s' !! ch = Some co' -> ch ∈ L /\ co' = chan_new nick.

Lemma nborn_refl s : nborn s s. Proof. intros ch H. exact H. Qed.
Lemma nborn_trans s1 s2 s3 : nborn s1 s2 -> nborn s2 s3 -> nborn s1 s3.
Proof. intros A B ch H. apply B, A, H. Qed.
Lemma nborn_chans_eq s s' : chans s' = chans s -> nborn s s'.
Proof. intros E ch H. now rewrite E. Qed.
Lemma sshrink_nborn s s' : sshrink s s' -> nborn s s'.
Proof.
  intros S ch H. destruct (chans s' !! ch) as [co'|] eqn:E; [|reflexivity].
  destruct (S ch co' E) as [co [F _]]. congruence.
Qed.

Section frame.
Context (cfg : config) (verify : str -> str -> bool) (i : nat).

(* ---------------------------------------------------------------- JOIN *)
Lemma phase1_names s c u nick client keys chs0 : forall idx seen jc plan o jc',
  join_phase1 cfg s c u nick client chs0 keys idx seen jc = Ok (plan, o, jc') ->
  forall x, x ∈ plan -> x.1 ∈ chs0.
Proof.
  induction chs0 as [|ch0 chs0 IH]; intros idx seen jc plan o jc'; cbn [join_phase1].
  - intros [= <- _ _] x H. inversion H.
  - destruct (existsb _ seen).
    + destruct (join_phase1 cfg s c u nick client chs0 keys (S idx) _ jc) as [[[l o'] jc2]|] eqn:E; cbn [rbind]; [|discriminate].
      intros [= <- _ _] x H. apply elem_of_cons in H as [->|H]; [left|right; eapply IH; eauto].
    + destruct (match keys with None => Ok None | Some ks => _ end) as [key|]; cbn [rbind]; [|discriminate].
      destruct (join_check s c u nick client ch0 key) as [[jn cr] o1] eqn:Ejc.
      destruct (match cfg_max_joins cfg with Some mj => _ | None => _ end) as [dj o2].
      destruct (join_phase1 cfg s c u nick client chs0 keys (S idx) _ _) as [[[l o'] jc2]|] eqn:E; cbn [rbind]; [|discriminate].
      intros [= <- _ _] x H. apply elem_of_cons in H as [->|H]; [left|right; eapply IH; eauto].
Qed.

Lemma join_check_existing s c u nick client ch key :
  (join_check s c u nick client ch key).1.2 = false -> (join_check s c u nick client ch key).1.1 = true -> is_Some (chans s !! ch).
Proof.
  unfold join_check. destruct (chans s !! ch) as [co|]; [eauto|]. cbn. discriminate.
Qed.

(* an entry that joins without creating names a channel that exists *)
Lemma phase1_join_existing s c u nick client keys chs0 : forall idx seen jc plan o jc',
  join_phase1 cfg s c u nick client chs0 keys idx seen jc = Ok (plan, o, jc') ->
  forall ch, (ch, (true, false)) ∈ plan -> is_Some (chans s !! ch).
Proof.
  induction chs0 as [|ch0 chs0 IH]; intros idx seen jc plan o jc'; cbn [join_phase1].
  - intros [= <- _ _] ch H. inversion H.
  - destruct (existsb _ seen).
    + destruct (join_phase1 cfg s c u nick client chs0 keys (S idx) _ jc) as [[[l o'] jc2]|] eqn:E; cbn [rbind]; [|discriminate].
      intros [= <- _ _] ch H. apply elem_of_cons in H as [H|H]; [discriminate H|]. eapply IH; eauto.
    + destruct (match keys with None => Ok None | Some ks => _ end) as [key|]; cbn [rbind]; [|discriminate].
      destruct (join_check s c u nick client ch0 key) as [[jn cr] o1] eqn:Ejc.
      destruct (match cfg_max_joins cfg with Some mj => _ | None => _ end) as [dj o2] eqn:Emj.
      destruct (join_phase1 cfg s c u nick client chs0 keys (S idx) _ _) as [[[l o'] jc2]|] eqn:E; cbn [rbind]; [|discriminate].
      intros [= <- _ _] ch H. apply elem_of_cons in H as [H|H]; [|eapply IH; eauto].
      injection H as -> <- <-. apply (join_check_existing s c u nick client ch0 key); rewrite Ejc; [reflexivity|]. cbn.
      destruct (cfg_max_joins cfg); injection Emj as Hd _; [|congruence].
      apply andb_true_iff in Hd as [Hd _]. exact Hd.
Qed.

Lemma join_bornby s c chs0 keys r nick : own_nick c = Ok nick ->
  process_join cfg i s c chs0 keys = Ok r -> bornby nick chs0 s (h_sh r) /\ h_quit r = false.
Proof.
  intros Ho. unfold process_join. rewrite Ho. cbn [rbind].
  destruct (get_user s nick) as [u|]; cbn [rbind]; [|discriminate].
  destruct (join_phase1 _ _ _ _ _ _ _ _ _ _ _) as [[[plan o1] q]|] eqn:Ep; cbn [rbind]; [|discriminate].
  destruct (rfold (join_insert nick) plan s) as [s'|] eqn:E; cbn [rbind]; [|discriminate].
  match goal with |- context [rfold ?G plan []] => destruct (rfold G plan []) as [o2|] end; cbn [rbind]; [|discriminate].
  intros [= <-]. cbn [h_sh h_quit]. split; [|reflexivity].
  pose proof (phase1_names s c u nick (client_name c) keys chs0 _ _ _ _ _ _ Ep) as Hnames.
  pose proof (phase1_join_existing s c u nick (client_name c) keys chs0 _ _ _ _ _ _ Ep) as Hex.
  clear Ep.
  assert (forall s1, (forall ch co', chans s !! ch = None -> chans s1 !! ch = Some co' -> ch ∈ chs0 /\ co' = chan_new nick) ->
                     rfold (join_insert nick) plan s1 = Ok s' ->
                     forall ch co', chans s !! ch = None -> chans s' !! ch = Some co' -> ch ∈ chs0 /\ co' = chan_new nick) as G.
  { clear E. induction plan as [|x plan IH]; intros s1 B; cbn [rfold].
    - intros [= <-]. exact B.
    - destruct (join_insert nick s1 x) as [s2|] eqn:E1; cbn [rbind]; [|discriminate]. intros E2.
      eapply (IH (fun y Hy => Hnames y (elem_of_list_further _ _ _ Hy)) (fun ch Hy => Hex ch (elem_of_list_further _ _ _ Hy)) s2); [|exact E2].
      intros ch co' Hfree Hco'. destruct x as [ch1 [j cr]]. unfold join_insert in E1.
      destruct j; cbn [negb] in E1; [|injection E1 as <-; eauto].
      destruct (get_user s1 nick) as [u1|]; cbn [rbind] in E1; [|discriminate]. destruct cr.
      + injection E1 as <-. cbn in Hco'. destruct (decide (ch = ch1)) as [->|N1].
        * rewrite lookup_insert in Hco'. injection Hco' as <-. split; [|reflexivity]. apply (Hnames (ch1, (true, true))). left.
        * rewrite lookup_insert_ne in Hco' by congruence. eauto.
      + unfold get_chan in E1. cbn [chans set_users] in E1. destruct (chans s1 !! ch1) as [c1|] eqn:H1; cbn [rbind] in E1; [|discriminate].
        injection E1 as <-. cbn in Hco'. destruct (decide (ch = ch1)) as [->|N1].
        * exfalso. destruct (Hex ch1) as [cx Hcx]; [left|]. congruence.
        * rewrite lookup_insert_ne in Hco' by congruence. eauto. }
  intros ch co' Hfree Hco'. eapply (G s); eauto. intros ch0 c0 H1 H2. congruence.
Qed.

(* ---------------------------------------------------------------- the commands that rewrite channel records in place *)
Lemma topic_nborn s c ch topic msg r : process_topic cfg i s c ch topic msg = Ok r -> nborn s (h_sh r).
Proof.
  assert (forall o, Ok {| h_sh := s; h_conn := c; h_out := o; h_quit := false |} = Ok r -> nborn s (h_sh r)) as Same.
  { intros o [= <-]. apply nborn_refl. }
  unfold process_topic. destruct (own_nick c) as [nick|]; cbn [rbind]; [|discriminate].
  destruct topic as [t|].
  - destruct (chans s !! ch) as [co|] eqn:Hco; [|apply Same].
    destruct (ch_users co !! nick) as [rk|]; [|apply Same].
    destruct (topic_allowed co rk); [|apply Same].
    destruct (send_all _ _ _); cbn [rbind]; [|discriminate]. intros [= <-]. cbn [h_sh].
    intros c0 H1. cbn. destruct (decide (c0 = ch)) as [->|N1]; [congruence|]. rewrite lookup_insert_ne by congruence. exact H1.
  - destruct (chans s !! ch) as [co|]; [|apply Same].
    destruct (bool_decide _); [|apply Same]. destruct (ch_topic co) as [[t w]|]; apply Same.
Qed.

Lemma mode_nborn s c target modes r nick u : own_nick c = Ok nick -> users s !! nick = Some u ->
  process_mode cfg i s c target modes = Ok r -> nborn s (h_sh r).
Proof.
  intros Ho Hu H.
  assert (forall o, Ok {| h_sh := s; h_conn := c; h_out := o; h_quit := false |} = Ok r -> nborn s (h_sh r)) as S3.
  { intros o [= <-]. apply nborn_refl. }
  unfold process_mode in H. rewrite Ho in H. cbn [rbind] in H. destruct (validate_channel target).
  - destruct (chans s !! target) as [ct|] eqn:Hct; [|eapply S3; exact H].
    destruct (ch_users ct !! nick) as [rk|]; [|eapply S3; exact H].
    destruct modes as [|m ms].
    + destruct (process_mode_channel_query cfg i s c target nick ct rk r H) as [E _]. rewrite E. apply nborn_refl.
    + destruct (process_mode_channel_effect cfg i s c target nick ct rk (m :: ms) r) as [_ [_ [ct' [E _]]]]; [discriminate|exact H|].
      rewrite E. intros ch H1. cbn. destruct (decide (ch = target)) as [->|N1]; [congruence|]. rewrite lookup_insert_ne by congruence. exact H1.
  - destruct (bool_decide (nick = target)).
    + destruct (mode_user_no_grant cfg i s c nick modes r u Hu H) as [m' [_ [Hch _]]]. apply nborn_chans_eq. exact Hch.
    + destruct (users s !! target); eapply S3; exact H.
Qed.

(* ---------------------------------------------------------------- every command but JOIN *)
Theorem dispatch_nborn s c cmd msg r :
  InvS s -> conn_ok i s c -> c_auth c = true ->
  dispatch cfg verify i s c cmd msg = Ok r -> (forall chs0 keys, cmd <> JOIN chs0 keys) -> nborn s (h_sh r).
Proof.
  intros I C A H Hnj.
  assert (forall r0, same_result s c r0 -> nborn s (h_sh r0)) as Same.
  { intros r0 [E _]. rewrite E. apply nborn_refl. }
  assert (forall (P : res hres), (exists r0, P = Ok r0 /\ same_result s c r0) -> P = Ok r -> nborn s (h_sh r)) as S2.
  { intros P [r0 [-> Hs]] [= <-]. now apply Same. }
  assert (forall o, Ok {| h_sh := s; h_conn := c; h_out := o; h_quit := false |} = Ok r -> nborn s (h_sh r)) as S3.
  { intros o [= <-]. apply nborn_refl. }
  assert (forall s1, chans s1 = chans s -> nborn s s1) as SC by (intros s1 E; now apply nborn_chans_eq).
  destruct (own_user i s c C A) as [nick [u [Hn [Hu [Hc [Ho Hg]]]]]].
  destruct cmd; cbn [dispatch] in H.
  - unfold process_cap in H. destruct sub.
    + injection H as <-. apply SC. reflexivity.
    + injection H as <-. apply SC. reflexivity.
    + destruct caps as [cs|]; [destruct (forallb _ cs)|]; injection H as <-; apply SC; reflexivity.
    + rewrite A in H. injection H as <-. apply SC. reflexivity.
  - injection H as <-. apply SC. reflexivity.
  - unfold process_pass in H. rewrite A in H. injection H as <-. apply SC. reflexivity.
  - (* NICK: channels are renamed in place *)
    destruct (decide (nickname = nick)) as [->|Hne].
    { rewrite (process_nick_same cfg verify i s c msg nick A Hn) in H. injection H as <-. apply SC. reflexivity. }
    destruct (users s !! nickname) as [x|] eqn:Hx.
    { rewrite (process_nick_refused cfg verify i s c nickname msg nick x A Hn Hne Hx) in H. injection H as <-. apply SC. reflexivity. }
    destruct (process_nick_effect cfg verify i s c nickname msg nick u I A Hn Hu Hne Hx) as [r0 [Hr [_ [_ [_ [Hch _]]]]]].
    rewrite Hr in H. injection H as <-. intros ch H1. rewrite Hch, H1. destruct (bool_decide _); reflexivity.
  - unfold process_user in H. rewrite A in H. injection H as <-. apply SC. reflexivity.
  - injection H as <-. apply SC. reflexivity.
  - injection H as <-. apply SC. reflexivity.
  - destruct (oper_spec cfg verify i s c name password nick u Hn Hu) as [r0 [Hr [_ [_ Hacc]]]].
    rewrite Hr in H. injection H as <-. destruct (oper_accepted cfg verify c name password).
    + destruct Hacc as [_ [Hch _]]. now apply SC.
    + destruct Hacc as [E _]. rewrite E. apply SC. reflexivity.
  - injection H as <-. apply SC. reflexivity.
  - exfalso. eapply Hnj. reflexivity.
  - apply sshrink_nborn. eapply part_sshrink; eauto.
  - eapply topic_nborn; eauto.
  - eapply S2; [|exact H]. now apply process_names_ok.
  - unfold process_list in H. destruct server; eapply S3; exact H.
  - apply SC. eapply chans_same_invite; eauto.
  - apply sshrink_nborn. eapply kick_sshrink; eauto.
  - unfold process_motd in H. destruct target; eapply S3; exact H.
  - unfold process_version in H. destruct target; eapply S3; exact H.
  - unfold process_admin in H. destruct target; eapply S3; exact H.
  - eapply S3; exact H.
  - unfold process_lusers in H. destruct (lusers_lines s (client_name c)); cbn [rbind] in H; [|discriminate]. eapply S3; exact H.
  - unfold process_time in H. destruct server; eapply S3; exact H.
  - unfold process_stats in H. destruct server; [eapply S3; exact H|].
    rewrite Ho in H. cbn [rbind] in H. rewrite Hg in H. cbn [rbind] in H. destruct (is_local_oper _); eapply S3; exact H.
  - unfold process_links in H. destruct remote_server, server_mask; eapply S3; exact H.
  - unfold process_help in H. destruct (help_topic _); eapply S3; exact H.
  - eapply S3; exact H.
  - eapply mode_nborn; eauto.
  - eapply S2; [|exact H]. now apply process_privmsg_ok.
  - eapply S2; [|exact H]. now apply process_privmsg_ok.
  - eapply S2; [|exact H]. now apply process_who_ok.
  - eapply S2; [|exact H]. now apply process_whois_ok.
  - unfold process_whowas in H. destruct server; eapply S3; exact H.
  - apply SC. eapply chans_same_kill; eauto.
  - eapply S3; exact H.
  - eapply S3; exact H.
  - unfold process_squit in H. destruct (bool_decide _); [apply SC; eapply chans_same_die; eauto|eapply S3; exact H].
  - apply SC. eapply chans_same_away; eauto.
  - eapply S3; exact H.
  - eapply S2; [|exact H]. now apply process_wallops_ok.
  - eapply S3; exact H.
  - apply SC. eapply chans_same_die; eauto.
Qed.

(* a line: either it is a registered connection's JOIN, or no channel is born *)
Definition join_line (l : str) (chs0 : list str) : Prop :=
  exists msg keys, tokenize l = inl msg /\ command_of_message msg = inl (JOIN chs0 keys).

Theorem line_born s c l r : InvS s -> conn_ok i s c -> process_line cfg verify i s c l = Ok r ->
  nborn s (h_sh r) \/
  (exists nick chs0, c_auth c = true /\ c_nick c = Some nick /\ join_line l chs0 /\ bornby nick chs0 s (h_sh r) /\ h_quit r = false /\
                     keeps s (h_sh r)).
Proof.
  intros I C H.
  assert (forall o, Ok {| h_sh := s; h_conn := c; h_out := o; h_quit := false |} = Ok r -> nborn s (h_sh r)) as Same.
  { intros o [= <-]. apply nborn_refl. }
  unfold process_line in H. destruct (tokenize l) as [msg|[| |]] eqn:Ht; try (left; eapply Same; exact H).
  destruct (command_of_message msg) as [cmd|e] eqn:Hcmd; [|left; eapply Same; exact H].
  destruct (needs_registration cmd && negb (c_auth c)) eqn:G; [left; eapply Same; exact H|].
  destruct (c_auth c) eqn:A.
  - assert ((exists chs0 keys, cmd = JOIN chs0 keys) \/ (forall chs0 keys, cmd <> JOIN chs0 keys)) as [[chs0 [keys ->]]|NJ].
    { destruct cmd; try (right; intros ? ?; discriminate). left. eauto. }
    + right. destruct (own_user i s c C A) as [nick [u [Hn [Hu [Hc [Ho Hg]]]]]]. cbn [dispatch] in H.
      destruct (join_bornby s c chs0 keys r nick Ho H) as [B Q]. exists nick, chs0.
      split; [reflexivity|]. split; [exact Hn|]. split; [exists msg, keys; auto|]. split; [exact B|]. split; [exact Q|].
      eapply join_keeps; eauto.
    + left. eapply dispatch_nborn; eauto.
  - left. cbn in G. rewrite andb_true_r in G. apply nborn_chans_eq. eapply unauth_dispatch_chans; eauto.
Qed.

End frame.

Section global.
Context (cfg : config) (verify : str -> str -> bool).

(* over every event of every connection: a channel that is there after the step and was not there before it was named in a
   JOIN line of a registered connection - this event - and is the fresh channel of that connection's nick *)
Theorem channel_born_only_by_join w i e w' o cl ch co' : Inv w -> step cfg verify w i e = Ok (w', o, cl) ->
  chans (sh w) !! ch = None -> chans (sh w') !! ch = Some co' ->
  exists c nick l chs0, conns w !! i = Some c /\ c_auth c = true /\ c_nick c = Some nick /\ e = EvLine l /\ join_line l chs0 /\
    ch ∈ chs0 /\ co' = chan_new nick.
Proof.
  intros I H Hfree Hco'. pose proof (InvK_of_Inv w I) as K. unfold step in H.
  destruct (step_raw cfg verify w i e) as [[[w1 o1] c1]|] eqn:H1; [|discriminate]. cbn [rbind] in H.
  destruct (deliver_kills cfg w1) as [[[w2 o2] c2]|] eqn:H2; [|discriminate]. cbn [rbind] in H. injection H as <- _ _.
  pose proof (sshrink_nborn _ _ (deliver_kills_sshrink cfg w1 w2 o2 c2 H2)) as N2.
  assert (nborn (sh w) (sh w1) -> False) as Contra.
  { intros N1. pose proof (N2 ch (N1 ch Hfree)). congruence. }
  assert (forall w0 wx, teardown i w0 = Ok wx -> nborn (sh w0) (sh wx)) as TD.
  { intros w0 wx T. apply sshrink_nborn. eapply teardown_sshrink; eauto. }
  destruct e; cbn [step_raw] in H1.
  - exfalso. apply Contra. destruct (conns w !! i); [injection H1 as <- _ _; apply nborn_refl|].
    destruct (server_quit (sh w)); [injection H1 as <- _ _; apply nborn_refl|].
    match type of H1 with (if ?g then _ else _) = _ => destruct g end; injection H1 as <- _ _; apply nborn_refl.
  - destruct (conns w !! i) as [c|] eqn:Hc; [|exfalso; apply Contra; injection H1 as <- _ _; apply nborn_refl].
    destruct (process_line cfg verify i (sh w) c l) as [r|] eqn:Hr; cbn [rbind] in H1; [|discriminate].
    destruct (line_born cfg verify i (sh w) c l r (ik_s w K) (ik_cu w K i c Hc) Hr) as [N1|[nick [chs0 [A [Hn [JL [B [Q Kp]]]]]]]].
    + exfalso. apply Contra. destruct (h_quit r).
      * destruct (teardown i _) as [wx|] eqn:T; cbn [rbind] in H1; [|discriminate]. injection H1 as <- _ _.
        eapply nborn_trans; [exact N1|]. apply (TD _ _ T).
      * injection H1 as <- _ _. exact N1.
    + rewrite Q in H1. injection H1 as <- _ _.
      rewrite deliver_nil in H2.
      * injection H2 as <- _ _. cbn [sh] in Hco'. destruct (B ch co' Hfree Hco') as [Hin ->].
        exists c, nick, l, chs0. repeat split; assumption.
      * cbn [sh]. intros n u Hu. destruct Kp as [Kp _]. destruct (Kp n u Hu) as [u0 [Hu0 [_ [_ Hk]]]]. rewrite Hk. eapply (iw_nk w I); eauto.
  - exfalso. apply Contra. destruct (conns w !! i); [|injection H1 as <- _ _; apply nborn_refl].
    destruct (teardown i w) as [wx|] eqn:T; cbn [rbind] in H1; [|discriminate]. injection H1 as <- _ _. apply (TD _ _ T).
  - exfalso. apply Contra. destruct (conns w !! i); [|injection H1 as <- _ _; apply nborn_refl].
    destruct (teardown i w) as [wx|] eqn:T; cbn [rbind] in H1; [|discriminate]. injection H1 as <- _ _. apply (TD _ _ T).
  - exfalso. apply Contra. destruct (conns w !! i); [|injection H1 as <- _ _; apply nborn_refl].
    destruct (teardown i w) as [wx|] eqn:T; cbn [rbind] in H1; [|discriminate]. injection H1 as <- _ _. apply (TD _ _ T).
  - exfalso. apply Contra. destruct (conns w !! i); injection H1 as <- _ _; apply nborn_refl.
  - exfalso. apply Contra. destruct (conns w !! i); [|injection H1 as <- _ _; apply nborn_refl].
    destruct (teardown i w) as [wx|] eqn:T; cbn [rbind] in H1; [|discriminate]. injection H1 as <- _ _. apply (TD _ _ T).
Qed.

End global.
