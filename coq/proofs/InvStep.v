(* InvStep.v - every step of the server model returns Ok and preserves the invariant;
   hence no abort site is reachable from the initial state (C05) and the invariant holds in
   every reachable world (C02, C04, C06, C19). *)
From IRC Require Import Str Wild Glob Mask Parse Reply State Handlers Step.
From IRCP Require Import StrP ChanP ClassP ModeP MsgP RankP InvDefs InvPrims InvNick InvHandlers.
From stdpp Require Import gmap.
Open Scope N_scope.

Local Arguments lit : simpl never.

Section step.
Context (cfg : config) (verify : str -> str -> bool).

(* what a command of a REGISTERED connection i does to the ownership relation *)
Definition auth_result (i : nat) (s : shared) (c : conn) (r : hres) : Prop :=
  InvS (h_sh r) /\ conn_ok i (h_sh r) (h_conn r) /\ c_auth (h_conn r) = true /\
  c_sender_taken (h_conn r) = c_sender_taken c /\
  exists old, c_nick c = Some old /\
    ((same_owners s (h_sh r) /\ c_nick (h_conn r) = Some old) \/
     (exists new, c_nick (h_conn r) = Some new /\ new <> old /\ users s !! new = None /\
        forall n, option_map u_conn (users (h_sh r) !! n) =
                  if decide (n = new) then Some i else if decide (n = old) then None else option_map u_conn (users s !! n))).

Lemma auth_of_handled i s c r : conn_ok i s c -> c_auth c = true -> handled i s c r -> auth_result i s c r.
Proof.
  intros C A [Hi Ho [Ha [Hn Ht]] Hk]. destruct (C A) as [nick [u [Hnick _]]].
  split; [exact Hi|]. split; [exact Hk|]. split; [congruence|]. split; [exact Ht|].
  exists nick. split; [exact Hnick|]. left. split; [exact Ho|congruence].
Qed.

Lemma auth_of_same i s c r : InvS s -> conn_ok i s c -> c_auth c = true -> same_result s c r -> auth_result i s c r.
Proof. intros I C A S. apply auth_of_handled; auto. now apply handled_of_same. Qed.

Lemma dispatch_auth_ok i s c cmd msg :
  InvS s -> conn_ok i s c -> c_auth c = true -> command_of_message msg = inl cmd ->
  exists r, dispatch cfg verify i s c cmd msg = Ok r /\ auth_result i s c r.
Proof.
  intros I C A Hcmd.
  assert (forall o, auth_result i s c {| h_sh := s; h_conn := c; h_out := o; h_quit := false |}) as Same.
  { intros o. apply auth_of_same; auto. repeat split. }
  assert (forall r, (exists r0, r = Ok r0 /\ handled i s c r0) -> exists r0, r = Ok r0 /\ auth_result i s c r0) as H1.
  { intros r [r0 [-> H]]. exists r0. split; [reflexivity|]. now apply auth_of_handled. }
  assert (forall r, (exists r0, r = Ok r0 /\ same_result s c r0) -> exists r0, r = Ok r0 /\ auth_result i s c r0) as H2.
  { intros r [r0 [-> H]]. exists r0. split; [reflexivity|]. now apply auth_of_same. }
  destruct (own_user i s c C A) as [nick [u [Hn [Hu [Hc [Ho Hg]]]]]].
  destruct cmd; cbn [dispatch].
  - (* CAP *) unfold process_cap. destruct sub.
    + eexists. split; [reflexivity|]. apply auth_of_handled; auto. split; cbn; [exact I|apply same_owners_refl|repeat split|exact C].
    + eexists. split; [reflexivity|apply Same].
    + destruct caps as [cs|]; [destruct (forallb _ cs)|]; eexists; (split; [reflexivity|]); apply auth_of_handled; auto;
        (split; cbn; [exact I|apply same_owners_refl|repeat split|exact C]).
    + rewrite A. eexists. split; [reflexivity|]. apply auth_of_handled; auto. split; cbn; [exact I|apply same_owners_refl|repeat split|exact C].
  - eexists. split; [reflexivity|apply Same].
  - unfold process_pass. rewrite A. eexists. split; [reflexivity|apply Same].
  - (* NICK *)
    destruct (process_nick_reg_ok cfg verify i s c nickname msg I C A) as [r [Hr [Ir [Hq [Ha [Ht [Ck [old [Hold Hcase]]]]]]]]].
    exists r. split; [exact Hr|]. split; [exact Ir|]. split; [exact Ck|]. split; [exact Ha|]. split; [exact Ht|].
    exists old. split; [exact Hold|]. destruct Hcase as [[-> ->]|[Hnn [Hne [Hnew Hown]]]].
    + left. split; [apply same_owners_refl|exact Hold].
    + right. exists nickname. auto.
  - unfold process_user. rewrite A. eexists. split; [reflexivity|apply Same].
  - eexists. split; [reflexivity|apply Same].
  - eexists. split; [reflexivity|apply Same].
  - apply H1. now apply process_oper_ok.
  - (* QUIT *) eexists. split; [reflexivity|]. apply auth_of_handled; auto. split; cbn; [exact I|apply same_owners_refl|repeat split|exact C].
  - apply H1. apply process_join_ok; auto. intros ks ->. eapply parsed_join_keys; eauto.
  - apply H1. now apply process_part_ok.
  - apply H1. now apply process_topic_ok.
  - apply H2. now apply process_names_ok.
  - unfold process_list. destruct server; eexists; (split; [reflexivity|apply Same]).
  - apply H1. now apply process_invite_ok.
  - apply H1. now apply process_kick_ok.
  - unfold process_motd. destruct target; eexists; (split; [reflexivity|apply Same]).
  - unfold process_version. destruct target; eexists; (split; [reflexivity|apply Same]).
  - unfold process_admin. destruct target; eexists; (split; [reflexivity|apply Same]).
  - eexists. split; [reflexivity|apply Same].
  - unfold process_lusers. destruct (lusers_ok s (client_name c) I) as [l ->]. cbn [rbind]. eexists. split; [reflexivity|apply Same].
  - unfold process_time. destruct server; eexists; (split; [reflexivity|apply Same]).
  - unfold process_stats. destruct server; [eexists; split; [reflexivity|apply Same]|].
    rewrite Ho. cbn [rbind]. rewrite Hg. cbn [rbind]. destruct (is_local_oper _); eexists; (split; [reflexivity|apply Same]).
  - unfold process_links. destruct remote_server, server_mask; eexists; (split; [reflexivity|apply Same]).
  - unfold process_help. destruct (help_topic _); eexists; (split; [reflexivity|apply Same]).
  - eexists. split; [reflexivity|apply Same].
  - apply H1. apply process_mode_ok; auto. intros Hv. eapply parsed_mode_valid; eauto.
  - apply H2. now apply process_privmsg_ok.
  - apply H2. now apply process_privmsg_ok.
  - apply H2. now apply process_who_ok.
  - apply H2. now apply process_whois_ok.
  - unfold process_whowas. destruct server; eexists; (split; [reflexivity|apply Same]).
  - apply H1. now apply process_kill_ok.
  - eexists. split; [reflexivity|apply Same].
  - eexists. split; [reflexivity|apply Same].
  - apply H1. now apply process_squit_ok.
  - apply H1. now apply process_away_ok.
  - eexists. split; [reflexivity|apply Same].
  - apply H2. now apply process_wallops_ok.
  - eexists. split; [reflexivity|apply Same].
  - apply H1. now apply process_die_ok.
Qed.

(* ---------------------------------------------------------------- the world invariant without the "no KILL pending" clause *)
Record InvK (w : world) : Prop := {
  ik_s : InvS (sh w);
  ik_uc : forall n u, users (sh w) !! n = Some u ->
            exists c, conns w !! u_conn u = Some c /\ c_auth c = true /\ c_nick c = Some n;
  ik_cu : forall i c, conns w !! i = Some c -> conn_ok i (sh w) c;
  ik_st : forall i c, conns w !! i = Some c -> c_sender_taken c = c_auth c;
  ik_nc : nconns w = N.of_nat (size (conns w));
}.

Lemma InvK_of_Inv w : Inv w -> InvK w.
Proof. intros [A B C D E F]. split; assumption. Qed.

Lemma Inv_of_InvK w : InvK w -> (forall n u, users (sh w) !! n = Some u -> u_kill u = None) -> Inv w.
Proof. intros [A B C D E] F. split; assumption. Qed.

(* two users never share a connection *)
Lemma owner_inj w n1 u1 n2 u2 : InvK w ->
  users (sh w) !! n1 = Some u1 -> users (sh w) !! n2 = Some u2 -> u_conn u1 = u_conn u2 -> n1 = n2.
Proof.
  intros K H1 H2 E. destruct (ik_uc w K _ _ H1) as [c1 [Hc1 [_ Hn1]]]. destruct (ik_uc w K _ _ H2) as [c2 [Hc2 [_ Hn2]]].
  rewrite E in Hc1. congruence.
Qed.

(* ---------------------------------------------------------------- the end of a connection *)
Lemma teardown_ok i w c : InvK w -> conns w !! i = Some c ->
  exists w', teardown i w = Ok w' /\ InvK w' /\ conns w' = delete i (conns w) /\
    (forall n u, users (sh w') !! n = Some u -> users (sh w) !! n = Some u /\ u_conn u <> i) /\
    (forall n u, users (sh w) !! n = Some u -> u_conn u <> i -> users (sh w') !! n = Some u).
Proof.
  intros K Hc. unfold teardown. rewrite Hc.
  assert (exists n', dec_counter (nconns w) = Ok n' /\ n' = N.of_nat (size (delete i (conns w)))) as [n' [Hdec Hn']].
  { unfold dec_counter. rewrite (ik_nc w K). rewrite map_size_delete_Some by eauto.
    assert (size (conns w) <> 0%nat). { intros Z. apply map_size_empty_inv in Z. rewrite Z in Hc. now rewrite lookup_empty in Hc. }
    destruct (N.eqb_spec (N.of_nat (size (conns w))) 0); [lia|]. eexists. split; [reflexivity|lia]. }
  destruct (c_auth c) eqn:A.
  - destruct (ik_cu w K i c Hc A) as [nick [u [Hn [Hu Hci]]]]. rewrite Hn.
    destruct (st_remove_user_inv (sh w) nick u (ik_s w K) Hu) as [s' [-> [I' [Hus _]]]]. cbn [rbind]. rewrite Hdec. cbn [rbind].
    eexists. split; [reflexivity|]. split; [|split; [reflexivity|]].
    + split; cbn.
      * exact I'.
      * intros n u0 H. rewrite Hus in H. destruct (decide (n = nick)) as [->|Hne]; [now rewrite lookup_delete in H|].
        rewrite lookup_delete_ne in H by congruence. destruct (ik_uc w K _ _ H) as [c0 [Hc0 [Ha0 Hn0]]].
        exists c0. split; [|auto]. rewrite lookup_delete_ne; [exact Hc0|]. intros E. apply Hne. symmetry.
        eapply (owner_inj w nick u n u0 K Hu H). congruence.
      * intros j cj Hj Aj. destruct (decide (j = i)) as [->|Hji]; [now rewrite lookup_delete in Hj|].
        rewrite lookup_delete_ne in Hj by congruence. destruct (ik_cu w K j cj Hj Aj) as [nj [uj [Hnj [Huj Hcj]]]].
        exists nj, uj. split; [exact Hnj|]. split; [|exact Hcj]. rewrite Hus. rewrite lookup_delete_ne; [exact Huj|].
        intros <-. rewrite Hu in Huj. injection Huj as <-. congruence.
      * intros j cj Hj. destruct (decide (j = i)) as [->|Hji]; [now rewrite lookup_delete in Hj|].
        rewrite lookup_delete_ne in Hj by congruence. eapply ik_st; eauto.
      * exact Hn'.
    + split.
      * intros n u0 H. cbn in H. rewrite Hus in H. destruct (decide (n = nick)) as [->|Hne]; [now rewrite lookup_delete in H|].
        rewrite lookup_delete_ne in H by congruence. split; [exact H|]. intros E. apply Hne. symmetry.
        eapply (owner_inj w nick u n u0 K Hu H). congruence.
      * intros n u0 H Hne. cbn. rewrite Hus. rewrite lookup_delete_ne; [exact H|]. intros <-. rewrite Hu in H. injection H as <-. congruence.
  - cbn [rbind]. rewrite Hdec. cbn [rbind]. eexists. split; [reflexivity|].
    assert (forall n u0, users (sh w) !! n = Some u0 -> u_conn u0 <> i) as Hno.
    { intros n u0 H E. destruct (ik_uc w K _ _ H) as [c0 [Hc0 [Ha0 _]]]. rewrite E, Hc in Hc0. injection Hc0 as <-. congruence. }
    split; [|split; [reflexivity|]].
    + split; cbn.
      * apply (ik_s w K).
      * intros n u0 H. destruct (ik_uc w K _ _ H) as [c0 [Hc0 [Ha0 Hn0]]]. exists c0. split; [|auto].
        rewrite lookup_delete_ne; [exact Hc0|]. intros E. apply (Hno _ _ H). congruence.
      * intros j cj Hj. destruct (decide (j = i)) as [->|Hji]; [now rewrite lookup_delete in Hj|].
        rewrite lookup_delete_ne in Hj by congruence. eapply ik_cu; eauto.
      * intros j cj Hj. destruct (decide (j = i)) as [->|Hji]; [now rewrite lookup_delete in Hj|].
        rewrite lookup_delete_ne in Hj by congruence. eapply ik_st; eauto.
      * exact Hn'.
    + split; [intros n u0 H; split; [exact H|eapply Hno; eauto]|intros n u0 H _; exact H].
Qed.

(* ---------------------------------------------------------------- one line *)
Definition line_result (i : nat) (s : shared) (c : conn) (r : hres) : Prop :=
  if c_auth c then auth_result i s c r else unauth_result i s r.

Lemma process_line_ok i s c l : InvS s -> conn_ok i s c -> c_sender_taken c = c_auth c ->
  exists r, process_line cfg verify i s c l = Ok r /\ line_result i s c r.
Proof.
  intros I C T.
  assert (forall o, line_result i s c {| h_sh := s; h_conn := c; h_out := o; h_quit := false |}) as Same.
  { intros o. unfold line_result. destruct (c_auth c) eqn:A.
    - apply auth_of_same; auto. repeat split.
    - left. cbn. auto. }
  unfold process_line. destruct (tokenize l) as [msg|[| |]].
  2-4: eexists; split; [reflexivity|apply Same].
  destruct (command_of_message msg) as [cmd|e] eqn:Hcmd; [|eexists; split; [reflexivity|apply Same]].
  destruct (needs_registration cmd && negb (c_auth c)) eqn:G; [eexists; split; [reflexivity|apply Same]|].
  unfold line_result. destruct (c_auth c) eqn:A.
  - eapply dispatch_auth_ok; eauto.
  - apply unauth_line_ok; auto; try congruence. cbn in G. now rewrite andb_true_r in G.
Qed.

Lemma InvK_line i w c r : InvK w -> conns w !! i = Some c -> line_result i (sh w) c r ->
  InvK {| sh := h_sh r; conns := <[i := h_conn r]> (conns w); nconns := nconns w |}.
Proof.
  intros K Hc R. unfold line_result in R.
  assert (N.of_nat (size (<[i := h_conn r]> (conns w))) = nconns w) as Hsz.
  { rewrite map_size_insert_Some by eauto. symmetry. apply (ik_nc w K). }
  destruct (c_auth c) eqn:A.
  - destruct R as [Ir [Ck [Ha [Ht [old [Hold Hcase]]]]]].
    destruct (ik_cu w K i c Hc A) as [nick0 [u0 [Hn0 [Hu0 Hc0]]]]. assert (nick0 = old) by congruence. subst nick0.
    split; cbn.
    + exact Ir.
    + intros n u' Hu'. destruct Hcase as [[O Hnn]|[new [Hnew [Hne [Hfree Hown]]]]].
      * specialize (O n). rewrite Hu' in O. cbn in O. destruct (users (sh w) !! n) as [u|] eqn:Hu; [|discriminate]. injection O as O.
        destruct (ik_uc w K _ _ Hu) as [c1 [Hc1 [Ha1 Hn1]]]. rewrite O. destruct (decide (u_conn u = i)) as [E|E].
        -- rewrite E in *. rewrite lookup_insert. eexists. split; [reflexivity|]. split; [exact Ha|]. rewrite Hnn. congruence.
        -- rewrite lookup_insert_ne by congruence. eauto.
      * specialize (Hown n). rewrite Hu' in Hown. cbn in Hown. destruct (decide (n = new)) as [->|N1].
        -- injection Hown as ->. rewrite lookup_insert. eexists. split; [reflexivity|]. auto.
        -- destruct (decide (n = old)) as [->|N2]; [discriminate|].
           destruct (users (sh w) !! n) as [u|] eqn:Hu; [|discriminate]. injection Hown as O.
           destruct (ik_uc w K _ _ Hu) as [c1 [Hc1 [Ha1 Hn1]]]. rewrite O. rewrite lookup_insert_ne; [eauto|].
           intros E. rewrite <- E in Hc1. congruence.
    + intros j cj Hj. destruct (decide (j = i)) as [->|Hji].
      * rewrite lookup_insert in Hj. injection Hj as <-. exact Ck.
      * rewrite lookup_insert_ne in Hj by congruence. pose proof (ik_cu w K j cj Hj) as Cj.
        destruct Hcase as [[O Hnn]|[new [Hnew [Hne [Hfree Hown]]]]]; [eapply conn_ok_own; eauto|].
        intros Aj. destruct (Cj Aj) as [nj [uj [Hnj [Huj Hcj]]]].
        assert (nj <> old) by (intros ->; congruence). assert (nj <> new) by (intros ->; congruence).
        specialize (Hown nj). rewrite Huj in Hown. cbn in Hown. rewrite !decide_False in Hown by assumption.
        destruct (users (h_sh r) !! nj) as [u'|] eqn:Hu'; [|discriminate]. injection Hown as O.
        exists nj, u'. repeat split; congruence.
    + intros j cj Hj. destruct (decide (j = i)) as [->|Hji].
      * rewrite lookup_insert in Hj. injection Hj as <-. rewrite Ht, Ha. rewrite <- A. eapply ik_st; eauto.
      * rewrite lookup_insert_ne in Hj by congruence. eapply ik_st; eauto.
    + now rewrite Hsz.
  - assert (forall n u, users (sh w) !! n = Some u -> u_conn u <> i) as Hno.
    { intros n u H E. destruct (ik_uc w K _ _ H) as [c0 [Hc0 [Ha0 _]]]. rewrite E, Hc in Hc0. injection Hc0 as <-. congruence. }
    destruct R as [[Hs [Ha Ht]]|[nick [u [Hn [Ha [Ht [Hfree [Hus [Hcu [Hk [Hq Ir]]]]]]]]]]].
    + rewrite Hs. split; cbn.
      * apply (ik_s w K).
      * intros n u Hu. destruct (ik_uc w K _ _ Hu) as [c1 [Hc1 [Ha1 Hn1]]]. rewrite lookup_insert_ne; [eauto|].
        intros E. apply (Hno _ _ Hu). congruence.
      * intros j cj Hj. destruct (decide (j = i)) as [->|Hji].
        -- rewrite lookup_insert in Hj. injection Hj as <-. intros A'. congruence.
        -- rewrite lookup_insert_ne in Hj by congruence. eapply ik_cu; eauto.
      * intros j cj Hj. destruct (decide (j = i)) as [->|Hji].
        -- rewrite lookup_insert in Hj. injection Hj as <-. congruence.
        -- rewrite lookup_insert_ne in Hj by congruence. eapply ik_st; eauto.
      * now rewrite Hsz.
    + split; cbn.
      * exact Ir.
      * intros n u' Hu'. rewrite Hus in Hu'. destruct (decide (n = nick)) as [->|N1].
        -- rewrite lookup_insert in Hu'. injection Hu' as <-. rewrite Hcu, lookup_insert. eexists. split; [reflexivity|]. auto.
        -- rewrite lookup_insert_ne in Hu' by congruence. destruct (ik_uc w K _ _ Hu') as [c1 [Hc1 [Ha1 Hn1]]].
           rewrite lookup_insert_ne; [eauto|]. intros E. apply (Hno _ _ Hu'). congruence.
      * intros j cj Hj. destruct (decide (j = i)) as [->|Hji].
        -- rewrite lookup_insert in Hj. injection Hj as <-. intros _. exists nick, u. rewrite Hus, lookup_insert. auto.
        -- rewrite lookup_insert_ne in Hj by congruence. intros Aj. destruct (ik_cu w K j cj Hj Aj) as [nj [uj [Hnj [Huj Hcj]]]].
           exists nj, uj. rewrite Hus. rewrite lookup_insert_ne; [auto|]. intros <-. congruence.
      * intros j cj Hj. destruct (decide (j = i)) as [->|Hji].
        -- rewrite lookup_insert in Hj. injection Hj as <-. congruence.
        -- rewrite lookup_insert_ne in Hj by congruence. eapply ik_st; eauto.
      * now rewrite Hsz.
Qed.

(* ---------------------------------------------------------------- one event, before pending KILLs are delivered *)
Lemma step_raw_ok w i e : InvK w -> exists w1 o cl, step_raw cfg verify w i e = Ok (w1, o, cl) /\ InvK w1.
Proof.
  intros K.
  assert (forall c, conns w !! i = Some c -> forall (o : outl) (cl : list nat),
            exists w1 o1 cl1, (let! w1 := teardown i w in Ok (w1, o, cl)) = Ok (w1, o1, cl1) /\ InvK w1) as TD.
  { intros c Hc o cl. destruct (teardown_ok i w c K Hc) as [w' [-> [K' _]]]. cbn [rbind]. eauto. }
  destruct e; cbn [step_raw].
  - destruct (conns w !! i) as [c|] eqn:Hc; [eauto|].
    destruct (server_quit (sh w)); [eauto|].
    destruct (match cfg_max_connections cfg with Some m => N.ltb (nconns w) m | None => true end); [|eauto].
    do 3 eexists. split; [reflexivity|]. split; cbn.
    + apply (ik_s w K).
    + intros n u Hu. destruct (ik_uc w K _ _ Hu) as [c1 [Hc1 [Ha1 Hn1]]]. rewrite lookup_insert_ne; [eauto|]. intros E. congruence.
    + intros j cj Hj. destruct (decide (j = i)) as [->|Hji].
      * rewrite lookup_insert in Hj. injection Hj as <-. intros A'. discriminate A'.
      * rewrite lookup_insert_ne in Hj by congruence. eapply ik_cu; eauto.
    + intros j cj Hj. destruct (decide (j = i)) as [->|Hji].
      * rewrite lookup_insert in Hj. injection Hj as <-. reflexivity.
      * rewrite lookup_insert_ne in Hj by congruence. eapply ik_st; eauto.
    + rewrite map_size_insert_None by exact Hc. rewrite (ik_nc w K). lia.
  - destruct (conns w !! i) as [c|] eqn:Hc; [|eauto].
    destruct (process_line_ok i (sh w) c l (ik_s w K) (ik_cu w K i c Hc) (ik_st w K i c Hc)) as [r [-> R]]. cbn [rbind].
    pose proof (InvK_line i w c r K Hc R) as K1.
    destruct (h_quit r); [|eauto].
    set (w1 := {| sh := h_sh r; conns := <[i := h_conn r]> (conns w); nconns := nconns w |}) in *.
    assert (conns w1 !! i = Some (h_conn r)) as Hc1 by (cbn; now rewrite lookup_insert).
    destruct (teardown_ok i w1 _ K1 Hc1) as [w' [-> [K' _]]]. cbn [rbind]. eauto.
  - destruct (conns w !! i) as [c|] eqn:Hc; [|eauto]. eapply TD; eauto.
  - destruct (conns w !! i) as [c|] eqn:Hc; [|eauto]. eapply TD; eauto.
  - destruct (conns w !! i) as [c|] eqn:Hc; [|eauto]. eapply TD; eauto.
  - destruct (conns w !! i) as [c|] eqn:Hc; eauto.
  - destruct (conns w !! i) as [c|] eqn:Hc; [|eauto]. eapply TD; eauto.
Qed.

(* ---------------------------------------------------------------- delivery of pending KILLs *)
Definition kill_conn (x : nat * str * str) : nat := fst (fst x).

Definition kill_f : world * outl * list nat -> nat * str * str -> res (world * outl * list nat) :=
  fun '(w, o, cl) '(j, killer, comment) =>
           let! w' := teardown j w in
           Ok (w', o ++ [(j, srv cfg (lit "ERROR :User killed by " ++ killer ++ lit ": " ++ comment))],
               cl ++ [j]).

Lemma kills_fold L : forall w o cl, InvK w -> NoDup (kill_conn <$> L) ->
  (forall x, x ∈ L -> exists c, conns w !! kill_conn x = Some c) ->
  exists w' o' cl', rfold kill_f L (w, o, cl) = Ok (w', o', cl') /\ InvK w' /\
    (forall n u, users (sh w') !! n = Some u -> users (sh w) !! n = Some u /\ u_conn u ∉ (kill_conn <$> L)) /\
    (forall j c, conns w' !! j = Some c -> conns w !! j = Some c) /\
    cl' = cl ++ (kill_conn <$> L) /\
    (forall n u, users (sh w) !! n = Some u -> u_conn u ∉ (kill_conn <$> L) -> users (sh w') !! n = Some u) /\
    (forall j, j ∉ (kill_conn <$> L) -> conns w' !! j = conns w !! j) /\
    (forall j, j ∈ (kill_conn <$> L) -> conns w' !! j = None).
Proof.
  induction L as [|[[j k] cm] L IH]; intros w o cl K ND Hex; cbn [rfold].
  - do 3 eexists. split; [reflexivity|]. split; [exact K|]. split; [intros n u H; split; [exact H|apply not_elem_of_nil]|].
    split; [auto|]. split; [now rewrite fmap_nil, app_nil_r|]. split; [auto|]. split; [auto|]. intros j H. now apply elem_of_nil in H.
  - rewrite fmap_cons in ND. cbn [kill_conn fst] in ND. apply NoDup_cons in ND as [Hj ND].
    destruct (Hex (j, k, cm) (elem_of_list_here _ _)) as [c Hc]. cbn [kill_conn fst] in Hc.
    destruct (teardown_ok j w c K Hc) as [w1 [Ht [K1 [Hcs [Hsub Hkeep]]]]].
    cbn [kill_f]. rewrite Ht. cbn [rbind].
    destruct (IH w1 (o ++ [(j, srv cfg (lit "ERROR :User killed by " ++ k ++ lit ": " ++ cm))]) (cl ++ [j]) K1 ND)
      as [w' [o' [cl' [Hr [K' [Hu' [Hc' [Hcl [Hk' [Hsame Hgone]]]]]]]]]].
    { intros x Hx. destruct (Hex x (elem_of_list_further _ _ _ Hx)) as [cx Hcx]. exists cx. rewrite Hcs. rewrite lookup_delete_ne; [exact Hcx|].
      intros E. apply Hj. rewrite E. apply elem_of_list_fmap. eauto. }
    exists w', o', cl'. split; [exact Hr|]. split; [exact K'|]. rewrite fmap_cons. cbn [kill_conn fst]. split; [|split; [|split; [|split; [|split]]]].
    + intros n u H. destruct (Hu' n u H) as [H1 H2]. destruct (Hsub n u H1) as [H3 H4]. split; [exact H3|].
      apply not_elem_of_cons. auto.
    + intros j' c' H. apply Hc' in H. rewrite Hcs in H. destruct (decide (j' = j)) as [->|N1]; [now rewrite lookup_delete in H|].
      now rewrite lookup_delete_ne in H by congruence.
    + rewrite Hcl. now rewrite <- app_assoc.
    + intros n u H Hn. apply not_elem_of_cons in Hn as [Hn1 Hn2]. apply Hk'; [|exact Hn2]. now apply Hkeep.
    + intros j' Hn. apply not_elem_of_cons in Hn as [Hn1 Hn2]. rewrite (Hsame j' Hn2), Hcs. now rewrite lookup_delete_ne by congruence.
    + intros j' Hin. apply elem_of_cons in Hin as [->|Hin]; [|now apply Hgone].
      rewrite (Hsame j Hj), Hcs. apply lookup_delete.
Qed.

Definition kill_g : str * user -> option (nat * str * str) :=
  fun '(_, u) => match u_kill u with
                 | Some (killer, comment) => Some (u_conn u, killer, comment)
                 | None => None
                 end.

Lemma pending_nodup w (l : list (str * user)) : InvK w -> NoDup (l.*1) ->
  (forall n u, (n, u) ∈ l -> users (sh w) !! n = Some u) -> NoDup (kill_conn <$> omap kill_g l).
Proof.
  intros K. induction l as [|[n u] l IH]; intros ND Hin; cbn [omap list_omap]; [constructor|].
  rewrite fmap_cons in ND. cbn [fst] in ND. apply NoDup_cons in ND as [Hn ND].
  assert (NoDup (kill_conn <$> omap kill_g l)) as IH' by (apply IH; [exact ND|intros; apply Hin; now apply elem_of_list_further]).
  unfold kill_g at 1. destruct (u_kill u) as [[k cm]|]; [|exact IH'].
  rewrite fmap_cons. cbn [kill_conn fst]. apply NoDup_cons. split; [|exact IH'].
  intros Hi. apply elem_of_list_fmap in Hi as [[[j' k'] cm'] [Ej Hx]]. cbn in Ej. subst j'.
  apply elem_of_list_omap in Hx as [[n' u'] [Hx Hg]].
  unfold kill_g in Hg. destruct (u_kill u') as [[k2 cm2]|]; [|discriminate]. injection Hg as Hg _ _.
  assert (n = n').
  { eapply (owner_inj w n u n' u' K); [apply Hin; apply elem_of_list_here|apply Hin; now apply elem_of_list_further|congruence]. }
  subst n'. apply Hn. apply elem_of_list_fmap. exists (n, u'). auto.
Qed.

Definition kill_pending (s : shared) (j : nat) : Prop :=
  exists n u, users s !! n = Some u /\ u_conn u = j /\ u_kill u <> None.

Lemma deliver_kills_ok w : InvK w -> exists w' o cl, deliver_kills cfg w = Ok (w', o, cl) /\ Inv w' /\
  (forall n u, users (sh w') !! n = Some u -> users (sh w) !! n = Some u /\ u_kill u = None) /\
  (forall n u, users (sh w) !! n = Some u -> u_kill u = None -> users (sh w') !! n = Some u) /\
  (forall j, j ∈ cl <-> kill_pending (sh w) j) /\
  (forall j, j ∉ cl -> conns w' !! j = conns w !! j) /\
  (forall j, j ∈ cl -> conns w' !! j = None).
Proof.
  intros K. unfold deliver_kills.
  change (pending_kills (sh w)) with (omap kill_g (map_to_list (users (sh w)))).
  assert (forall j, j ∈ kill_conn <$> omap kill_g (map_to_list (users (sh w))) <-> kill_pending (sh w) j) as Hpend.
  { intros j. split.
    - intros H. apply elem_of_list_fmap in H as [[[j' k] cm] [-> Hx]]. apply elem_of_list_omap in Hx as [[n u] [Hx Hg]].
      apply elem_of_map_to_list in Hx. unfold kill_g in Hg. destruct (u_kill u) as [[k2 cm2]|] eqn:Hk; [|discriminate]. injection Hg as <- _ _.
      exists n, u. cbn. rewrite Hk. auto.
    - intros [n [u [Hu [Hc Hk]]]]. destruct (u_kill u) as [[k cm]|] eqn:Hk'; [|congruence].
      apply elem_of_list_fmap. exists (j, k, cm). split; [reflexivity|]. apply elem_of_list_omap. exists (n, u).
      split; [now apply elem_of_map_to_list|]. unfold kill_g. rewrite Hk'. congruence. }
  destruct (kills_fold (omap kill_g (map_to_list (users (sh w)))) w [] [] K) as [w' [o' [cl' [Hr [K' [Hu [Hc [Hcl [Hkeep [Hsame Hgone]]]]]]]]]].
  - apply (pending_nodup w); [exact K|apply NoDup_fst_map_to_list|].
    intros n u H. apply elem_of_map_to_list in H. exact H.
  - intros [[j k] cm] Hx. assert (kill_pending (sh w) j) as [n [u [Hu [Hc _]]]].
    { apply Hpend. apply elem_of_list_fmap. exists (j, k, cm). auto. }
    destruct (ik_uc w K _ _ Hu) as [c [Hc' _]]. exists c. cbn. now rewrite <- Hc.
  - cbn [app] in Hcl. subst cl'.
    assert (forall n u, users (sh w') !! n = Some u -> u_kill u = None) as Hnk.
    { intros n u H. destruct (Hu n u H) as [H1 H2]. destruct (u_kill u) as [[k cm]|] eqn:Hk; [|reflexivity]. exfalso. apply H2.
      apply Hpend. exists n, u. rewrite Hk. auto. }
    exists w', o', (kill_conn <$> omap kill_g (map_to_list (users (sh w)))). split; [exact Hr|].
    split; [apply Inv_of_InvK; [exact K'|exact Hnk]|]. split; [|split; [|split; [exact Hpend|split; [exact Hsame|exact Hgone]]]].
    + intros n u H. split; [apply (Hu n u H)|eapply Hnk; eauto].
    + intros n u H Hk. apply Hkeep; [exact H|]. intros Hin. apply Hpend in Hin as [n' [u' [Hu' [Hc' Hk']]]].
      assert (n' = n) by (eapply (owner_inj w n' u' n u K); eauto). subst n'. congruence.
Qed.

(* ---------------------------------------------------------------- one event; any finite history *)
Theorem step_ok w i e : Inv w -> exists w' o cl, step cfg verify w i e = Ok (w', o, cl) /\ Inv w'.
Proof.
  intros I. unfold step. destruct (step_raw_ok w i e (InvK_of_Inv w I)) as [w1 [o1 [c1 [-> K1]]]]. cbn [rbind].
  destruct (deliver_kills_ok w1 K1) as [w2 [o2 [c2 [-> [I2 _]]]]]. cbn [rbind]. eauto 6.
Qed.

Theorem run_ok evs : forall w, Inv w -> exists w' outs, run cfg verify w evs = Ok (w', outs) /\ Inv w'.
Proof.
  induction evs as [|[i e] evs IH]; intros w I; cbn [run]; [eauto|].
  destruct (step_ok w i e I) as [w1 [o [cl [-> I1]]]]. cbn [rbind].
  destruct (IH w1 I1) as [w2 [rest [-> I2]]]. cbn [rbind]. eauto.
Qed.

End step.
