(* FrameP.v - the frames do not depend on how the byte stream is cut into TCP segments. *)
From IRC Require Import Frame.
From Coq Require Import List NArith Arith Lia Bool.
Import ListNotations.
Open Scope N_scope.

Definition nolf (s : list N) : Prop := forallb (fun c => negb (N.eqb c LF)) s = true.

Lemma lines_of_rest_nolf s : nolf (snd (lines_of s)).
Proof.
  induction s as [|c s IH]; [reflexivity|]. cbn [lines_of]. destruct (lines_of s) as [ls r]. cbn [snd] in IH.
  destruct (N.eqb c LF) eqn:E; [exact IH|]. destruct ls as [|l ls]; cbn [snd]; [|exact IH].
  unfold nolf. cbn [forallb]. now rewrite E, IH.
Qed.

(* a prefix without LF is glued to the first line (or to the pending bytes) *)
Lemma lines_of_nolf_app a b : nolf a ->
  lines_of (a ++ b) = match lines_of b with
                      | ([], r) => ([], a ++ r)
                      | (l :: ls, r) => ((a ++ l) :: ls, r)
                      end.
Proof.
  induction a as [|c a IH]; intros H; cbn [app].
  - destruct (lines_of b) as [[|l ls] r]; reflexivity.
  - unfold nolf in H. cbn [forallb] in H. apply andb_true_iff in H as [Hc Ha]. apply negb_true_iff in Hc.
    cbn [lines_of]. rewrite (IH Ha), Hc. destruct (lines_of b) as [[|l ls] r]; reflexivity.
Qed.

(* cutting the stream: the lines of a ++ b are the lines of a followed by the lines of (pending of a) ++ b *)
Lemma lines_of_app a b :
  lines_of (a ++ b) =
  let '(la, ra) := lines_of a in let '(lb, rb) := lines_of (ra ++ b) in (la ++ lb, rb).
Proof.
  induction a as [|c a IH]; cbn [app lines_of].
  - destruct (lines_of b) as [lb rb]. reflexivity.
  - rewrite IH. destruct (lines_of a) as [la ra] eqn:Ea.
    pose proof (lines_of_rest_nolf a) as Hn. rewrite Ea in Hn. cbn [snd] in Hn.
    destruct (N.eqb c LF) eqn:Ec.
    + destruct (lines_of (ra ++ b)) as [lb rb]. reflexivity.
    + destruct la as [|l la].
      * cbn [app]. change (c :: ra ++ b) with ((c :: ra) ++ b). rewrite (lines_of_nolf_app (c :: ra) b) by (unfold nolf; cbn [forallb]; now rewrite Ec, Hn).
        rewrite (lines_of_nolf_app ra b Hn). destruct (lines_of b) as [[|l ls] r]; reflexivity.
      * destruct (lines_of (ra ++ b)) as [lb rb]. reflexivity.
Qed.

Lemma frames_of_app la lb r :
  frames_of (la ++ lb) r =
  if closed (frames_of la []) then frames_of la [] else frames_of la [] ++ frames_of lb r.
Proof.
  induction la as [|l la IH]; cbn [app frames_of].
  - reflexivity.
  - destruct (Nat.leb (length l) max_len); [|reflexivity]. cbn [closed existsb orb]. fold (closed (frames_of la [])).
    rewrite IH. destruct (closed (frames_of la [])); reflexivity.
Qed.

Lemma closed_app a b : closed (a ++ b) = closed a || closed b.
Proof. unfold closed. apply existsb_app. Qed.

(* the frames of the lines alone never contain the pending-bytes verdict *)
Lemma frames_of_pending la r :
  frames_of la r = if closed (frames_of la []) then frames_of la []
                   else frames_of la [] ++ (if Nat.ltb max_len (length r) then [FTooLong] else []).
Proof.
  induction la as [|l la IH]; cbn [frames_of].
  - cbn. destruct (Nat.ltb max_len (length r)); reflexivity.
  - destruct (Nat.leb (length l) max_len); [|reflexivity]. cbn [closed existsb orb]. fold (closed (frames_of la [])).
    rewrite IH. destruct (closed (frames_of la [])); reflexivity.
Qed.

(* Segmentation invariance.  Feeding a then b (with the pending bytes of the first read carried
   over) gives the frames of feeding a ++ b at once; once an over-long line has been reported the
   connection is closed and nothing more is framed - in both ways of feeding. *)
Theorem feed_split pending a b :
  let '(f1, r1) := feed pending a in
  let '(f2, r2) := feed r1 b in
  let '(f, r) := feed pending (a ++ b) in
  if closed f1 then f = f1 else (f = f1 ++ f2 /\ r = r2).
Proof.
  unfold feed. rewrite app_assoc. rewrite (lines_of_app (pending ++ a) b).
  destruct (lines_of (pending ++ a)) as [la ra] eqn:Ea.
  pose proof (lines_of_rest_nolf (pending ++ a)) as Hn. rewrite Ea in Hn. cbn [snd] in Hn.
  destruct (lines_of (ra ++ b)) as [lb rb] eqn:Eb.
  rewrite (frames_of_pending la ra). rewrite frames_of_app. cbn beta iota zeta.
  destruct (closed (frames_of la [])) eqn:Ec; cbn iota.
  { rewrite Ec. reflexivity. }
  rewrite closed_app, Ec. cbn [orb].
  destruct (Nat.ltb max_len (length ra)) eqn:El.
  - (* the pending bytes alone already exceed the limit: whatever follows, the next frame is TooLong *)
    cbn [closed existsb orb]. f_equal.
    rewrite (lines_of_nolf_app ra b Hn) in Eb. apply Nat.ltb_lt in El.
    destruct (lines_of b) as [[|l ls] r] eqn:E.
    + injection Eb as <- <-. cbn [frames_of]. rewrite app_length.
      destruct (Nat.ltb_spec max_len (length ra + length r)); [reflexivity|lia].
    + injection Eb as <- <-. cbn [frames_of]. rewrite app_length.
      destruct (Nat.leb_spec (length ra + length l) max_len); [lia|reflexivity].
  - cbn [closed existsb]. rewrite app_nil_r. split; reflexivity.
Qed.

(* every framed line is free of LF: a received line is one line *)
Lemma lines_of_nolf s : Forall nolf (fst (lines_of s)).
Proof.
  induction s as [|c s IH]; [constructor|]. cbn [lines_of]. destruct (lines_of s) as [ls r]. cbn [fst] in *.
  destruct (N.eqb c LF) eqn:E.
  - constructor; [reflexivity|exact IH].
  - destruct ls as [|l ls]; [constructor|]. inversion IH as [|? ? Hl Hls]; subst. constructor; [|exact Hls].
    unfold nolf. cbn [forallb]. now rewrite E, Hl.
Qed.

Lemma strip_cr_nolf l : nolf l -> nolf (strip_cr l).
Proof.
  unfold strip_cr. intros H. destruct (rev l) as [|c r] eqn:E; [exact H|]. destruct (N.eqb c CR); [|exact H].
  assert (l = rev r ++ [c]) as -> by (rewrite <- (rev_involutive l), E; reflexivity).
  unfold nolf in *. rewrite forallb_app in H. now apply andb_true_iff in H as [H _].
Qed.

Theorem framed_lines_nolf pending seg l : In (FLine l) (fst (feed pending seg)) -> nolf l.
Proof.
  unfold feed. pose proof (lines_of_nolf (pending ++ seg)) as H. destruct (lines_of (pending ++ seg)) as [ls r]. cbn [fst] in *.
  induction ls as [|x ls IH]; cbn [frames_of].
  - destruct (Nat.ltb max_len (length r)); [intros [E|[]]; discriminate E|intros []].
  - inversion H as [|? ? Hx Hls]; subst. destruct (Nat.leb (length x) max_len).
    + intros [[= <-]|Hin]; [now apply strip_cr_nolf|now apply IH].
    + intros [E|[]]. discriminate E.
Qed.

(* ---------------------------------------------------------------- encoder / decoder round trip *)
Lemma strip_cr_snoc l : strip_cr (l ++ [CR]) = l.
Proof. unfold strip_cr. rewrite rev_app_distr. cbn [rev app]. cbn. now rewrite rev_involutive. Qed.

Lemma nolf_snoc_cr l : nolf l -> nolf (l ++ [CR]).
Proof. unfold nolf. intros H. rewrite forallb_app, H. reflexivity. Qed.

Lemma lines_of_encode l rest : nolf l ->
  lines_of (encode l ++ rest) = let '(ls, r) := lines_of rest in ((l ++ [CR]) :: ls, r).
Proof.
  intros H. unfold encode. change [CR; LF] with ([CR] ++ [LF]). rewrite app_assoc, <- app_assoc. cbn [app].
  rewrite (lines_of_nolf_app (l ++ [CR]) (LF :: rest) (nolf_snoc_cr l H)). cbn [lines_of]. destruct (lines_of rest) as [ls r].
  change (N.eqb LF LF) with true. cbn iota. now rewrite app_nil_r.
Qed.

(* Every line the server emits is one CRLF-terminated message: what the encoder writes for a list of
   LF-free lines (each shorter than the receiver's limit) is framed by the same codec into exactly those
   lines, in order, with nothing left over - also when a line ends in CR or contains CR. *)
Theorem decode_encode ls : Forall (fun l => nolf l /\ (length l < max_len)%nat) ls ->
  feed [] (concat (map encode ls)) = (map FLine ls, []).
Proof.
  unfold feed. cbn [app]. induction ls as [|l ls IH]; intros H; [reflexivity|].
  inversion H as [|? ? [Hn Hl] Hls]; subst. cbn [map concat]. rewrite (lines_of_encode l _ Hn).
  specialize (IH Hls). destruct (lines_of (concat (map encode ls))) as [ls' r]. injection IH as IH1 IH2. subst r.
  cbn [frames_of]. rewrite app_length. cbn [length].
  destruct (Nat.leb_spec (length l + 1) max_len) as [_|Hgt]; [|lia]. rewrite strip_cr_snoc, IH1. reflexivity.
Qed.

(* bytes that are not (yet) terminated by LF are never handed to the command layer - they stay pending (and are dropped
   with the connection if it closes): a read without LF yields no line at all *)
Lemma lines_of_nolf_none s : nolf s -> lines_of s = ([], s).
Proof.
  induction s as [|c s IH]; intros H; [reflexivity|]. unfold nolf in H. cbn [forallb] in H. apply andb_true_iff in H as [Hc Hs].
  apply negb_true_iff in Hc. cbn [lines_of]. rewrite (IH Hs), Hc. reflexivity.
Qed.

Theorem unterminated_yields_no_line pending seg l : nolf (pending ++ seg) -> ~ In (FLine l) (fst (feed pending seg)).
Proof.
  intros H. unfold feed. rewrite (lines_of_nolf_none _ H). cbn [frames_of fst].
  destruct (Nat.ltb max_len (length (pending ++ seg))); [intros [E|[]]; discriminate E|intros []].
Qed.
