(* OperGlobal.v - over whole steps: operator status appears only through an accepted OPER of the
   connection itself or through the configured default user modes at its registration. *)
From IRC Require Import Str Wild Glob Mask Parse Reply State Handlers Step.
From IRCP Require Import StrP InvDefs InvPrims InvHandlers InvStep Reach OperP ModesFrame.
From stdpp Require Import gmap.
Open Scope N_scope.

Local Arguments lit : simpl never.

Section global.
Context (cfg : config) (verify : str -> str -> bool).

Definition step_oper_source (w : world) (i : nat) (e : event) (u' : user) : Prop :=
  (exists n0 u, users (sh w) !! n0 = Some u /\ u_conn u = u_conn u' /\ um_oper (u_modes u) = true) \/
  (u_conn u' = i /\ exists c l, conns w !! i = Some c /\ e = EvLine l /\
     ((c_auth c = true /\ exists msg name pw, tokenize l = inl msg /\ command_of_message msg = inl (OPER name pw) /\
                                               oper_accepted cfg verify c name pw = true) \/
      (c_auth c = false /\ um_oper (cfg_default_umodes cfg) = true))).

Theorem oper_only_from_oper w i e w' o cl : Inv w -> step cfg verify w i e = Ok (w', o, cl) ->
  forall n u', users (sh w') !! n = Some u' -> um_oper (u_modes u') = true -> step_oper_source w i e u'.
Proof.
  intros I H n u' Hu' Hop. pose proof (InvK_of_Inv w I) as K. unfold step in H.
  destruct (step_raw cfg verify w i e) as [[[w1 o1] c1]|] eqn:H1; [|discriminate]. cbn [rbind] in H.
  destruct (step_raw_frame cfg verify w i e w1 o1 c1 K H1) as [K1 _].
  destruct (deliver_kills_ok cfg w1 K1) as [w2 [o2 [c2 [H2 [_ [Hsub _]]]]]].
  rewrite H2 in H. cbn [rbind] in H. injection H as <- _ _.
  destruct (Hsub n u' Hu') as [Hu1 _]. clear Hu' Hsub H2.
  (* it remains to look at the world before the KILLs are delivered *)
  assert (forall c, conns w !! i = Some c -> forall (o0 : outl) (cl0 : list nat),
            (let! wx := teardown i w in Ok (wx, o0, cl0)) = Ok (w1, o1, c1) -> step_oper_source w i e u') as TD.
  { intros c Hc o0 cl0 E. destruct (teardown_ok i w c K Hc) as [wx [Ht [_ [_ [Hs _]]]]]. rewrite Ht in E. cbn [rbind] in E.
    injection E as <- _ _. destruct (Hs n u' Hu1) as [Hu0 _]. left. eauto. }
  assert (Ok (w, @nil (nat * str), @nil nat) = Ok (w1, o1, c1) -> step_oper_source w i e u') as Same.
  { intros [= <- _ _]. left. eauto. }
  destruct e; cbn [step_raw] in H1.
  - destruct (conns w !! i); [now apply Same|]. destruct (server_quit (sh w)); [injection H1 as <- _ _; left; eauto|].
    destruct (match cfg_max_connections cfg with Some m => N.ltb (nconns w) m | None => true end); injection H1 as <- _ _; left; eauto.
  - destruct (conns w !! i) as [c|] eqn:Hc; [|now apply Same].
    destruct (process_line cfg verify i (sh w) c l) as [r|] eqn:Hr; cbn [rbind] in H1; [|discriminate].
    assert (users (h_sh r) !! n = Some u') as Hur.
    { destruct (h_quit r).
      - set (wl := {| sh := h_sh r; conns := <[i := h_conn r]> (conns w); nconns := nconns w |}) in *.
        destruct (process_line_ok cfg verify i (sh w) c l (ik_s w K) (ik_cu w K i c Hc) (ik_st w K i c Hc)) as [r' [Hr' R]].
        rewrite Hr in Hr'. injection Hr' as <-. pose proof (InvK_line i w c r K Hc R) as Kl.
        assert (conns wl !! i = Some (h_conn r)) as Hcl by (cbn; now rewrite lookup_insert).
        destruct (teardown_ok i wl _ Kl Hcl) as [wx [Ht [_ [_ [Hs _]]]]]. rewrite Ht in H1. cbn [rbind] in H1.
        injection H1 as <- _ _. destruct (Hs n u' Hu1) as [Hx _]. exact Hx.
      - injection H1 as <- _ _. exact Hu1. }
    destruct (line_oper_source cfg verify i (sh w) c l r (ik_s w K) (ik_cu w K i c Hc) Hr n u' Hur Hop) as [L|[Hci R]].
    + left. exact L.
    + right. split; [exact Hci|]. exists c, l. auto.
  - destruct (conns w !! i) as [c|] eqn:Hc; [|now apply Same]. eapply TD; eauto.
  - destruct (conns w !! i) as [c|] eqn:Hc; [|now apply Same]. eapply TD; eauto.
  - destruct (conns w !! i) as [c|] eqn:Hc; [|now apply Same]. eapply TD; eauto.
  - destruct (conns w !! i) as [c|] eqn:Hc; [|now apply Same]. injection H1 as <- _ _. left. eauto.
  - destruct (conns w !! i) as [c|] eqn:Hc; [|now apply Same]. eapply TD; eauto.
Qed.

End global.
