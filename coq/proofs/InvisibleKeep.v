(* InvisibleKeep.v - an invisible user stays invisible (and a visible one visible) through every user-mode change that does not
   name the letter 'i': dropping or being refused operator status (-o, -O, +o, +O), +w / -w, +r / -r, unknown letters, in any
   number of groups and sign switches. *)
From IRC Require Import Str Wild Glob Mask Parse Reply State Handlers Step.
From stdpp Require Import gmap.
Open Scope N_scope.

Local Arguments lit : simpl never.

Section keep.
Context (cfg : config) (i : nat).

Lemma umode_char_keeps_invisible c client nick ch mode_set m m' : ch <> 105 ->
  umode_char c client nick ch mode_set m = Ok m' -> um_invisible (us_modes m') = um_invisible (us_modes m).
Proof.
  intros Hne. unfold umode_char.
  destruct (N.eqb_spec ch 105) as [E|_]; [contradiction|].
  repeat match goal with
         | |- context [if ?b then _ else _] => destruct b
         | |- context [rbind ?x _] => destruct x; cbn [rbind]
         end; try discriminate; intros [= <-]; reflexivity.
Qed.

Lemma umode_chars_keeps_invisible c client nick cs : forall mode_set m m', 105 ∉ cs ->
  umode_chars c client nick cs mode_set m = Ok m' -> um_invisible (us_modes m') = um_invisible (us_modes m).
Proof.
  induction cs as [|ch cs IH]; intros mode_set m m' Hn; cbn [umode_chars].
  - intros [= <-]. reflexivity.
  - assert (ch <> 105) as Hc by (intros ->; apply Hn; left).
    assert (105 ∉ cs) as Hr by (intros H; apply Hn; now right).
    destruct (N.eqb ch c_plus); [apply IH; exact Hr|].
    destruct (N.eqb ch c_minus); [apply IH; exact Hr|].
    destruct (umode_char c client nick ch mode_set m) as [m1|] eqn:E1; cbn [rbind]; [|discriminate].
    intros H. rewrite (IH _ _ _ Hr H). eapply umode_char_keeps_invisible; eauto.
Qed.

(* the whole command: a MODE <own nick> whose mode strings do not contain 'i' leaves the user's invisible flag as it is *)
Theorem mode_user_keeps_invisible s c nick modes r u : users s !! nick = Some u ->
  Forall (fun g : str * list str => 105 ∉ g.1) modes ->
  process_mode_user cfg i s c nick modes = Ok r ->
  exists u', users (h_sh r) !! nick = Some u' /\ um_invisible (u_modes u') = um_invisible (u_modes u).
Proof.
  intros Hu Hf. unfold process_mode_user, get_user. rewrite Hu. cbn [rbind].
  destruct (is_empty modes); [intros [= <-]; cbn; eauto|].
  match goal with |- (let! m := rfold ?F modes ?m0 in _) = _ -> _ => destruct (rfold F modes m0) as [m|] eqn:Hr end; cbn [rbind]; [|discriminate].
  intros [= <-]. cbn. rewrite lookup_insert. eexists. split; [reflexivity|]. cbn.
  assert (forall m0 m1, rfold (fun m '(mchars, _) => umode_chars c (client_name c) nick mchars false m) modes m0 = Ok m1 ->
                        um_invisible (us_modes m1) = um_invisible (us_modes m0)) as G.
  { clear Hr. induction Hf as [|[mc ma] l Hx Hl IH]; intros m0 m1; cbn [rfold].
    - intros [= <-]. reflexivity.
    - destruct (umode_chars c (client_name c) nick mc false m0) as [m2|] eqn:E2; cbn [rbind]; [|discriminate].
      intros H. rewrite (IH _ _ H). eapply umode_chars_keeps_invisible; eauto. }
  rewrite (G _ _ Hr). reflexivity.
Qed.

End keep.
