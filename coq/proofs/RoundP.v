(* RoundP.v - a message serialised for relay by to_string_with_source is tokenised back to the
   same command and parameters (with the given source). *)
From IRC Require Import Str Parse.
From Coq Require Import List Bool NArith Lia.
Import ListNotations.
Open Scope N_scope.

Local Arguments lit : simpl never.

Definition nows (t : str) : Prop := forallb (fun c => negb (is_ascii_ws c)) t = true.
(* a middle parameter: non-empty, no ASCII blank, not starting with ':' *)
Definition mid_ok (t : str) : Prop :=
  nows t /\ match t with [] => False | c :: _ => N.eqb c c_colon = false end.

Definition sp (ts : list str) : str := concat (map (fun t => c_space :: t) ts).

Lemma ws_space : is_ascii_ws c_space = true. Proof. reflexivity. Qed.
Lemma ws_colon : is_ascii_ws c_colon = false. Proof. reflexivity. Qed.

Lemma nows_cons c t : nows (c :: t) <-> is_ascii_ws c = false /\ nows t.
Proof. unfold nows. cbn [forallb]. rewrite andb_true_iff, negb_true_iff. reflexivity. Qed.

(* ---------------------------------------------------------------- find_trailing *)
Lemma ft_nows t : forall prev acc rest, is_ascii_ws prev = false -> nows t ->
  exists prev', is_ascii_ws prev' = false /\
    find_trailing prev (t ++ rest) acc = find_trailing prev' rest (rev t ++ acc).
Proof.
  induction t as [|c t IH]; intros prev acc rest Hp Ht.
  - exists prev. split; [exact Hp|reflexivity].
  - apply nows_cons in Ht as [Hc Ht]. cbn [app find_trailing]. rewrite Hp, andb_false_r.
    destruct (IH c (c :: acc) rest Hc Ht) as [p' [Hp' E]]. exists p'. split; [exact Hp'|].
    rewrite E. cbn [rev]. now rewrite <- app_assoc.
Qed.

Lemma ft_mid t : forall prev acc rest, mid_ok t ->
  exists prev', is_ascii_ws prev' = false /\
    find_trailing prev (c_space :: t ++ rest) acc = find_trailing prev' rest (rev (c_space :: t) ++ acc).
Proof.
  intros prev acc rest [Ht Hh]. destruct t as [|c t]; [contradiction|].
  apply nows_cons in Ht as [Hc Ht].
  cbn [find_trailing app]. change (N.eqb c_space c_colon) with false. cbn [andb].
  rewrite Hh. cbn [andb].
  destruct (ft_nows t c (c :: c_space :: acc) rest Hc Ht) as [p' [Hp' E]]. exists p'. split; [exact Hp'|].
  rewrite E. cbn [rev]. now rewrite <- !app_assoc.
Qed.

Lemma ft_sp ts : forall prev acc rest, is_ascii_ws prev = false -> Forall mid_ok ts ->
  exists prev', is_ascii_ws prev' = false /\
    find_trailing prev (sp ts ++ rest) acc = find_trailing prev' rest (rev (sp ts) ++ acc).
Proof.
  induction ts as [|t ts IH]; intros prev acc rest Hp Hts.
  - exists prev. split; [exact Hp|reflexivity].
  - inversion Hts as [|? ? Ht Hts']; subst. unfold sp. cbn [map concat]. fold (sp ts).
    rewrite <- app_assoc. cbn [app].
    destruct (ft_mid t prev acc (sp ts ++ rest) Ht) as [p1 [Hp1 E1]].
    rewrite E1.
    destruct (IH p1 (rev (c_space :: t) ++ acc) rest Hp1 Hts') as [p2 [Hp2 E2]]. exists p2. split; [exact Hp2|].
    rewrite E2. change (c_space :: t ++ sp ts) with ((c_space :: t) ++ sp ts). rewrite rev_app_distr. now rewrite <- app_assoc.
Qed.

(* ---------------------------------------------------------------- words *)
Lemma words_nows t : forall s cur, nows t -> words_aux (t ++ s) cur = words_aux s (rev t ++ cur).
Proof.
  induction t as [|c t IH]; intros s cur Ht; [reflexivity|].
  apply nows_cons in Ht as [Hc Ht]. cbn [app words_aux]. rewrite Hc. rewrite IH by exact Ht. cbn [rev]. now rewrite <- app_assoc.
Qed.

Lemma is_empty_rev (t : str) : is_empty (rev t) = is_empty t.
Proof. destruct t as [|c t]; [reflexivity|]. cbn [rev]. destruct (rev t); reflexivity. Qed.

Lemma words_sp ts : forall cur, Forall mid_ok ts ->
  words_aux (sp ts) cur = (if is_empty cur then [] else [rev cur]) ++ ts.
Proof.
  induction ts as [|t ts IH]; intros cur Hts.
  - cbn. destruct (is_empty cur); reflexivity.
  - inversion Hts as [|? ? [Ht Hh] Hts']; subst. unfold sp. cbn [map concat]. fold (sp ts). cbn [app words_aux].
    rewrite ws_space. rewrite (words_nows t (sp ts) [] Ht). rewrite app_nil_r. rewrite (IH (rev t) Hts').
    rewrite is_empty_rev, rev_involutive. destruct t as [|c t]; [contradiction|]. cbn [is_empty].
    destruct (is_empty cur); reflexivity.
Qed.

Lemma words_trailing_space s : forall cur, words_aux (s ++ [c_space]) cur = words_aux s cur.
Proof.
  induction s as [|c s IH]; intros cur.
  - cbn. destruct (is_empty cur); reflexivity.
  - cbn [app words_aux]. destruct (is_ascii_ws c); [destruct (is_empty cur); now rewrite IH|apply IH].
Qed.

(* ---------------------------------------------------------------- join_middle *)
Lemma join_middle_snoc mids last : join_middle (mids ++ [last]) = (sp mids, Some last).
Proof.
  induction mids as [|p mids IH]; [reflexivity|].
  cbn [app]. destruct (mids ++ [last]) as [|q l] eqn:E; [destruct mids; discriminate|].
  cbn [join_middle]. cbn [join_middle] in IH. rewrite IH. reflexivity.
Qed.

(* ---------------------------------------------------------------- the round trip *)
Definition params_ok (ps : list str) : Prop := Forall mid_ok (removelast ps).

Lemma needs_trailing_false last : needs_trailing last = false -> mid_ok last.
Proof.
  unfold needs_trailing. intros H. apply orb_false_iff in H as [H1 H2]. split.
  - unfold nows. apply forallb_forall. intros c Hc. apply negb_true_iff.
    destruct (is_ascii_ws c) eqn:E; [|reflexivity]. exfalso.
    assert (existsb (fun c => N.eqb c c_colon || is_ascii_ws c) last = true) as X; [|congruence].
    apply existsb_exists. exists c. split; [exact Hc|]. now rewrite E, orb_true_r.
  - destruct last as [|c l]; [discriminate|]. cbn [existsb] in H1. apply orb_false_iff in H1 as [H1 _].
    now apply orb_false_iff in H1 as [H1 _].
Qed.

Theorem roundtrip m src :
  nows src -> validate_source src = true -> mid_ok (m_command m) -> params_ok (m_params m) ->
  tokenize (to_string_with_source m src) =
  inl {| m_source := Some src; m_command := m_command m; m_params := m_params m |}.
Proof.
  intros Hs Hv Hc Hp. destruct m as [s0 cmd ps]. cbn [m_command m_params] in *.
  unfold to_string_with_source. cbn [m_command m_params].
  (* normal form of the serialised line: ":" src, then the blank-led tokens, then the tail *)
  assert (exists ts tail lastp,
            Forall mid_ok ts /\
            (c_colon :: src) ++ (c_space :: cmd) ++
              match join_middle ps with
              | (mid, Some last) => mid ++ (if needs_trailing last then lit " :" else [c_space]) ++ last
              | (mid, None) => mid
              end = (c_colon :: src) ++ sp ts ++ tail /\
            ((tail = [] /\ lastp = None /\ ts = cmd :: ps) \/
             (exists last, tail = c_space :: c_colon :: last /\ lastp = Some last /\ ps = tl ts ++ [last] /\ hd [] ts = cmd /\ ts <> []))) as
      [ts [tail [lastp [Hts [El Hcase]]]]].
  { destruct ps as [|p0 ps0].
    { cbn [join_middle]. exists [cmd], [], None. split; [constructor; [assumption|constructor]|]. split; [|left; auto].
      unfold sp. cbn. now rewrite !app_nil_r. }
    destruct (@exists_last _ (p0 :: ps0)) as [mids [last E]]; [discriminate|]. rewrite E in *. clear E p0 ps0.
    unfold params_ok in Hp. rewrite removelast_last in Hp. rewrite join_middle_snoc.
    destruct (needs_trailing last) eqn:Hn.
    + exists (cmd :: mids), (c_space :: c_colon :: last), (Some last). split; [constructor; assumption|]. split.
      * unfold sp at 2. cbn [map concat]. fold (sp mids). change (lit " :") with [c_space; c_colon]. now rewrite <- !app_assoc.
      * right. exists last. cbn. repeat split. discriminate.
    + exists (cmd :: mids ++ [last]), [], None. split.
      * constructor; [assumption|]. apply Forall_app. split; [assumption|]. constructor; [|constructor]. now apply needs_trailing_false.
      * split; [|left; auto]. unfold sp. cbn [map concat]. rewrite map_app, concat_app. cbn [map concat]. rewrite !app_nil_r.
        reflexivity. }
  rewrite El. clear El.
  unfold tokenize. cbn [app trim_start]. change (is_unicode_ws c_colon) with false. cbn iota.
  destruct (ft_nows src c_colon [c_colon] (sp ts ++ tail) ws_colon Hs) as [p1 [Hp1 E1]]. rewrite E1.
  destruct (ft_sp ts p1 (rev src ++ [c_colon]) tail Hp1 Hts) as [p2 [Hp2 E2]]. rewrite E2.
  change (N.eqb c_colon c_colon) with true. cbn iota.
  assert (rev (rev (sp ts) ++ rev src ++ [c_colon]) = (c_colon :: src) ++ sp ts) as H0.
  { rewrite !rev_app_distr, !rev_involutive. cbn [rev app]. reflexivity. }
  assert (rev (c_space :: rev (sp ts) ++ rev src ++ [c_colon]) = ((c_colon :: src) ++ sp ts) ++ [c_space]) as H1.
  { cbn [rev]. now rewrite H0. }
  assert (words ((c_colon :: src) ++ sp ts) = (c_colon :: src) :: ts) as Hw.
  { unfold words. rewrite words_nows by (apply nows_cons; split; [reflexivity|exact Hs]).
    rewrite words_sp by exact Hts. rewrite app_nil_r, is_empty_rev, rev_involutive. reflexivity. }
  destruct Hcase as [[-> [-> ->]]|[last [-> [-> [Eps [Ehd Hne]]]]]].
  - cbn [find_trailing]. rewrite H0, Hw. cbn [tl]. rewrite Hv. now rewrite app_nil_r.
  - cbn [find_trailing]. change (N.eqb c_space c_colon) with false. cbn [andb]. change (N.eqb c_colon c_colon) with true.
    rewrite ws_space. cbn [andb]. rewrite H1.
    unfold words. rewrite words_trailing_space. fold (words ((c_colon :: src) ++ sp ts)). rewrite Hw. cbn [tl]. rewrite Hv.
    destruct ts as [|t0 ts0]; [contradiction|]. cbn [hd tl] in *. subst t0. now rewrite Eps.
Qed.

(* ---------------------------------------------------------------- every tokenised message satisfies the hypotheses *)
Fixpoint notrail (prev : N) (s : str) : Prop :=
  match s with
  | [] => True
  | c :: s' => N.eqb c c_colon && is_ascii_ws prev = false /\ notrail c s'
  end.

Lemma ft_spec s : forall prev acc rest last, find_trailing prev s acc = (rest, last) ->
  exists pre, rest = rev acc ++ pre /\ notrail prev pre.
Proof.
  induction s as [|c s IH]; intros prev acc rest last H; cbn [find_trailing] in H.
  - injection H as <- _. exists []. split; [now rewrite app_nil_r|exact I].
  - destruct (N.eqb c c_colon && is_ascii_ws prev) eqn:E.
    + injection H as <- _. exists []. split; [now rewrite app_nil_r|exact I].
    + destruct (IH c (c :: acc) rest last H) as [pre [-> Hn]]. exists (c :: pre). split.
      * cbn [rev]. now rewrite <- app_assoc.
      * cbn [notrail]. auto.
Qed.

Lemma nows_app a b : nows a -> nows b -> nows (a ++ b).
Proof. unfold nows. intros Ha Hb. rewrite forallb_app. now rewrite Ha, Hb. Qed.

Lemma words_notrail s :
  (forall prev cur, notrail prev s -> cur <> [] ->
     exists t ws, words_aux s cur = (rev cur ++ t) :: ws /\ nows t /\ Forall mid_ok ws) /\
  (forall prev, notrail prev s -> is_ascii_ws prev = true -> Forall mid_ok (words_aux s [])).
Proof.
  induction s as [|c s [IHA IHB]]; split.
  - intros prev cur _ Hc. exists [], []. cbn [words_aux]. destruct cur; [contradiction|]. cbn [is_empty].
    split; [now rewrite app_nil_r|]. split; [reflexivity|constructor].
  - intros prev _ _. constructor.
  - intros prev cur [Hn Hs] Hc. cbn [words_aux]. destruct (is_ascii_ws c) eqn:Ec.
    + destruct cur as [|d cur]; [contradiction|]. cbn [is_empty]. exists [], (words_aux s []).
      split; [now rewrite app_nil_r|]. split; [reflexivity|]. now apply (IHB c).
    + destruct (IHA c (c :: cur) Hs) as [t [ws [E [Ht Hws]]]]; [discriminate|].
      exists (c :: t), ws. split; [rewrite E; cbn [rev]; now rewrite <- app_assoc|]. split; [|exact Hws].
      apply nows_cons. auto.
  - intros prev [Hn Hs] Hp. cbn [words_aux]. rewrite Hp, andb_true_r in Hn. destruct (is_ascii_ws c) eqn:Ec.
    + cbn [is_empty]. now apply (IHB c).
    + destruct (IHA c [c] Hs) as [t [ws [E [Ht Hws]]]]; [discriminate|]. rewrite E. constructor; [|exact Hws].
      cbn [rev app]. split; [apply nows_cons; auto|exact Hn].
Qed.

Lemma ascii_ws_unicode c : is_ascii_ws c = true -> is_unicode_ws c = true.
Proof.
  unfold is_ascii_ws, is_unicode_ws. intros H.
  repeat (apply orb_true_iff in H as [H|H]); apply N.eqb_eq in H; subst c; reflexivity.
Qed.

Lemma trim_start_head l c s : trim_start l = c :: s -> is_unicode_ws c = false.
Proof.
  induction l as [|d l IH]; cbn [trim_start]; [discriminate|].
  destruct (is_unicode_ws d) eqn:E; [exact IH|]. intros [= <- _]. exact E.
Qed.

Lemma Forall_removelast {A} (P : A -> Prop) l : Forall P l -> Forall P (removelast l).
Proof.
  induction l as [|x l IH]; [auto|]. intros H. inversion H; subst. cbn [removelast].
  destruct l; [constructor|]. constructor; auto.
Qed.

Theorem tokenize_wellformed l m : tokenize l = inl m -> mid_ok (m_command m) /\ params_ok (m_params m).
Proof.
  unfold tokenize. destruct (trim_start l) as [|c0 s1] eqn:Et; [discriminate|].
  pose proof (trim_start_head l c0 s1 Et) as Hu.
  assert (is_ascii_ws c0 = false) as Hc0.
  { destruct (is_ascii_ws c0) eqn:E; [|reflexivity]. apply ascii_ws_unicode in E. congruence. }
  destruct (find_trailing c0 s1 [c0]) as [rest last] eqn:Ef.
  destruct (ft_spec s1 c0 [c0] rest last Ef) as [pre [-> Hn]]. cbn [rev app].
  assert (exists t ws, words (c0 :: pre) = (c0 :: t) :: ws /\ nows t /\ Forall mid_ok ws) as [t [ws [Ew [Ht Hws]]]].
  { unfold words. cbn [words_aux]. rewrite Hc0. destruct (proj1 (words_notrail pre) c0 [c0] Hn) as [t [ws [E H]]]; [discriminate|].
    exists t, ws. split; [exact E|exact H]. }
  rewrite Ew.
  assert (forall ps, Forall mid_ok ps -> params_ok (ps ++ match last with Some lp => [lp] | None => [] end)) as Hpo.
  { intros ps Hps. unfold params_ok. destruct last as [lp|]; [now rewrite removelast_last|]. rewrite app_nil_r. now apply Forall_removelast. }
  destruct (N.eqb c0 c_colon) eqn:Ec.
  - cbn [tl]. destruct (validate_source t); [|discriminate]. destruct ws as [|cmd ps]; [discriminate|].
    intros [= <-]. cbn [m_command m_params]. inversion Hws; subst. split; [assumption|]. now apply Hpo.
  - intros [= <-]. cbn [m_command m_params]. split; [|now apply Hpo].
    split; [apply nows_cons; auto|exact Ec].
Qed.

(* the relay of any message that came out of the tokenizer re-parses to the same command and parameters *)
Corollary relay_reparses l m src : tokenize l = inl m -> nows src -> validate_source src = true ->
  tokenize (to_string_with_source m src) =
  inl {| m_source := Some src; m_command := m_command m; m_params := m_params m |}.
Proof. intros H Hs Hv. destruct (tokenize_wellformed l m H) as [Hc Hp]. now apply roundtrip. Qed.
