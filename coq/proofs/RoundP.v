(* RoundP.v - a message serialised for relay by to_string_with_source is tokenised back to the
   same command and parameters (with the given source). *)
From IRC Require Import Str Parse.
From Coq Require Import List Bool NArith Lia.
Import ListNotations.
Open Scope N_scope.

Local Arguments lit : simpl never.

Definition nows (t : str) : Prop := forallb (fun c => negb (is_ascii_ws c)) t = true.
(* a middle parameter: non-empty, no ASCII blank, not starting with ':' *)
Definition mid_ok (t : str) : Prop :=
  nows t /\ match t with [] => False | c :: _ => N.eqb c c_colon = false end.

Definition sp (ts : list str) : str := concat (map (fun t => c_space :: t) ts).

Lemma ws_space : is_ascii_ws c_space = true. Proof. reflexivity. Qed.
Lemma ws_colon : is_ascii_ws c_colon = false. Proof. reflexivity. Qed.

Lemma nows_cons c t : nows (c :: t) <-> is_ascii_ws c = false /\ nows t.
Proof. unfold nows. cbn [forallb]. rewrite andb_true_iff, negb_true_iff. reflexivity. Qed.

(* ---------------------------------------------------------------- find_trailing *)
Lemma ft_nows t : forall prev acc rest, is_ascii_ws prev = false -> nows t ->
  exists prev', is_ascii_ws prev' = false /\
    find_trailing prev (t ++ rest) acc = find_trailing prev' rest (rev t ++ acc).
Proof.
  induction t as [|c t IH]; intros prev acc rest Hp Ht.
  - exists prev. split; [exact Hp|reflexivity].
  - apply nows_cons in Ht as [Hc Ht]. cbn [app find_trailing]. rewrite Hp, andb_false_r.
    destruct (IH c (c :: acc) rest Hc Ht) as [p' [Hp' E]]. exists p'. split; [exact Hp'|].
    rewrite E. cbn [rev]. now rewrite <- app_assoc.
Qed.

Lemma ft_mid t : forall prev acc rest, mid_ok t ->
  exists prev', is_ascii_ws prev' = false /\
    find_trailing prev (c_space :: t ++ rest) acc = find_trailing prev' rest (rev (c_space :: t) ++ acc).
Proof.
  intros prev acc rest [Ht Hh]. destruct t as [|c t]; [contradiction|].
  apply nows_cons in Ht as [Hc Ht].
  cbn [find_trailing app]. change (N.eqb c_space c_colon) with false. cbn [andb].
  rewrite Hh. cbn [andb].
  destruct (ft_nows t c (c :: c_space :: acc) rest Hc Ht) as [p' [Hp' E]]. exists p'. split; [exact Hp'|].
  rewrite E. cbn [rev]. now rewrite <- !app_assoc.
Qed.

Lemma ft_sp ts : forall prev acc rest, is_ascii_ws prev = false -> Forall mid_ok ts ->
  exists prev', is_ascii_ws prev' = false /\
    find_trailing prev (sp ts ++ rest) acc = find_trailing prev' rest (rev (sp ts) ++ acc).
Proof.
  induction ts as [|t ts IH]; intros prev acc rest Hp Hts.
  - exists prev. split; [exact Hp|reflexivity].
  - inversion Hts as [|? ? Ht Hts']; subst. unfold sp. cbn [map concat]. fold (sp ts).
    rewrite <- app_assoc. cbn [app].
    destruct (ft_mid t prev acc (sp ts ++ rest) Ht) as [p1 [Hp1 E1]].
    rewrite E1.
    destruct (IH p1 (rev (c_space :: t) ++ acc) rest Hp1 Hts') as [p2 [Hp2 E2]]. exists p2. split; [exact Hp2|].
    rewrite E2. change (c_space :: t ++ sp ts) with ((c_space :: t) ++ sp ts). rewrite rev_app_distr. now rewrite <- app_assoc.
Qed.

(* ---------------------------------------------------------------- words *)
Lemma words_nows t : forall s cur, nows t -> words_aux (t ++ s) cur = words_aux s (rev t ++ cur).
Proof.
  induction t as [|c t IH]; intros s cur Ht; [reflexivity|].
  apply nows_cons in Ht as [Hc Ht]. cbn [app words_aux]. rewrite Hc. rewrite IH by exact Ht. cbn [rev]. now rewrite <- app_assoc.
Qed.

Lemma is_empty_rev (t : str) : is_empty (rev t) = is_empty t.
Proof. destruct t as [|c t]; [reflexivity|]. cbn [rev]. destruct (rev t); reflexivity. Qed.

Lemma words_sp ts : forall cur, Forall mid_ok ts ->
  words_aux (sp ts) cur = (if is_empty cur then [] else [rev cur]) ++ ts.
Proof.
  induction ts as [|t ts IH]; intros cur Hts.
  - cbn. destruct (is_empty cur); reflexivity.
  - inversion Hts as [|? ? [Ht Hh] Hts']; subst. unfold sp. cbn [map concat]. fold (sp ts). cbn [app words_aux].
    rewrite ws_space. rewrite (words_nows t (sp ts) [] Ht). rewrite app_nil_r. rewrite (IH (rev t) Hts').
    rewrite is_empty_rev, rev_involutive. destruct t as [|c t]; [contradiction|]. cbn [is_empty].
    destruct (is_empty cur); reflexivity.
Qed.

Lemma words_trailing_space s : forall cur, words_aux (s ++ [c_space]) cur = words_aux s cur.
Proof.
  induction s as [|c s IH]; intros cur.
  - cbn. destruct (is_empty cur); reflexivity.
  - cbn [app words_aux]. destruct (is_ascii_ws c); [destruct (is_empty cur); now rewrite IH|apply IH].
Qed.

(* ---------------------------------------------------------------- join_middle *)
Lemma join_middle_snoc mids last : join_middle (mids ++ [last]) = (sp mids, Some last).
Proof.
  induction mids as [|p mids IH]; [reflexivity|].
  cbn [app]. destruct (mids ++ [last]) as [|q l] eqn:E; [destruct mids; discriminate|].
  cbn [join_middle]. cbn [join_middle] in IH. rewrite IH. reflexivity.
Qed.

(* ---------------------------------------------------------------- the round trip *)
Definition params_ok (ps : list str) : Prop := Forall mid_ok (removelast ps).

Lemma needs_trailing_false last : needs_trailing last = false -> mid_ok last.
Proof.
  unfold needs_trailing. intros H. apply orb_false_iff in H as [H1 H2]. split.
  - unfold nows. apply forallb_forall. intros c Hc. apply negb_true_iff.
    destruct (is_ascii_ws c) eqn:E; [|reflexivity]. exfalso.
    assert (existsb (fun c => N.eqb c c_colon || is_ascii_ws c) last = true) as X; [|congruence].
    apply existsb_exists. exists c. split; [exact Hc|]. now rewrite E, orb_true_r.
  - destruct last as [|c l]; [discriminate|]. cbn [existsb] in H1. apply orb_false_iff in H1 as [H1 _].
    now apply orb_false_iff in H1 as [H1 _].
Qed.

Theorem roundtrip m src :
  nows src -> validate_source src = true -> mid_ok (m_command m) -> params_ok (m_params m) ->
  tokenize (to_string_with_source m src) =
  inl {| m_source := Some src; m_command := m_command m; m_params := m_params m |}.
Proof.
  intros Hs Hv Hc Hp. destruct m as [s0 cmd ps]. cbn [m_command m_params] in *.
  unfold to_string_with_source. cbn [m_command m_params].
  (* normal form of the serialised line: ":" src, then the blank-led tokens, then the tail *)
  assert (exists ts tail lastp,
            Forall mid_ok ts /\
            (c_colon :: src) ++ (c_space :: cmd) ++
              match join_middle ps with
              | (mid, Some last) => mid ++ (if needs_trailing last then lit " :" else [c_space]) ++ last
              | (mid, None) => mid
              end = (c_colon :: src) ++ sp ts ++ tail /\
            ((tail = [] /\ lastp = None /\ ts = cmd :: ps) \/
             (exists last, tail = c_space :: c_colon :: last /\ lastp = Some last /\ ps = tl ts ++ [last] /\ hd [] ts = cmd /\ ts <> []))) as
      [ts [tail [lastp [Hts [El Hcase]]]]].
  { destruct ps as [|p0 ps0].
    { cbn [join_middle]. exists [cmd], [], None. split; [constructor; [assumption|constructor]|]. split; [|left; auto].
      unfold sp. cbn. now rewrite !app_nil_r. }
    destruct (@exists_last _ (p0 :: ps0)) as [mids [last E]]; [discriminate|]. rewrite E in *. clear E p0 ps0.
    unfold params_ok in Hp. rewrite removelast_last in Hp. rewrite join_middle_snoc.
    destruct (needs_trailing last) eqn:Hn.
    + exists (cmd :: mids), (c_space :: c_colon :: last), (Some last). split; [constructor; assumption|]. split.
      * unfold sp at 2. cbn [map concat]. fold (sp mids). change (lit " :") with [c_space; c_colon]. now rewrite <- !app_assoc.
      * right. exists last. cbn. repeat split. discriminate.
    + exists (cmd :: mids ++ [last]), [], None. split.
      * constructor; [assumption|]. apply Forall_app. split; [assumption|]. constructor; [|constructor]. now apply needs_trailing_false.
      * split; [|left; auto]. unfold sp. cbn [map concat]. rewrite map_app, concat_app. cbn [map concat]. rewrite !app_nil_r.
        reflexivity. }
  rewrite El. clear El.
  unfold tokenize. cbn [app trim_start]. change (is_unicode_ws c_colon) with false. cbn iota.
  destruct (ft_nows src c_colon [c_colon] (sp ts ++ tail) ws_colon Hs) as [p1 [Hp1 E1]]. rewrite E1.
  destruct (ft_sp ts p1 (rev src ++ [c_colon]) tail Hp1 Hts) as [p2 [Hp2 E2]]. rewrite E2.
  change (N.eqb c_colon c_colon) with true. cbn iota.
  assert (rev (rev (sp ts) ++ rev src ++ [c_colon]) = (c_colon :: src) ++ sp ts) as H0.
  { rewrite !rev_app_distr, !rev_involutive. cbn [rev app]. reflexivity. }
  assert (rev (c_space :: rev (sp ts) ++ rev src ++ [c_colon]) = ((c_colon :: src) ++ sp ts) ++ [c_space]) as H1.
  { cbn [rev]. now rewrite H0. }
  assert (words ((c_colon :: src) ++ sp ts) = (c_colon :: src) :: ts) as Hw.
  { unfold words. rewrite words_nows by (apply nows_cons; split; [reflexivity|exact Hs]).
    rewrite words_sp by exact Hts. rewrite app_nil_r, is_empty_rev, rev_involutive. reflexivity. }
  destruct Hcase as [[-> [-> ->]]|[last [-> [-> [Eps [Ehd Hne]]]]]].
  - cbn [find_trailing]. rewrite H0, Hw. cbn [tl]. rewrite Hv. now rewrite app_nil_r.
  - cbn [find_trailing]. change (N.eqb c_space c_colon) with false. cbn [andb]. change (N.eqb c_colon c_colon) with true.
    rewrite ws_space. cbn [andb]. rewrite H1.
    unfold words. rewrite words_trailing_space. fold (words ((c_colon :: src) ++ sp ts)). rewrite Hw. cbn [tl]. rewrite Hv.
    destruct ts as [|t0 ts0]; [contradiction|]. cbn [hd tl] in *. subst t0. now rewrite Eps.
Qed.

(* ---------------------------------------------------------------- every tokenised message satisfies the hypotheses *)
Fixpoint notrail (prev : N) (s : str) : Prop :=
  match s with
  | [] => True
  | c :: s' => N.eqb c c_colon && is_ascii_ws prev = false /\ notrail c s'
  end.

Lemma ft_spec s : forall prev acc rest last, find_trailing prev s acc = (rest, last) ->
  exists pre, rest = rev acc ++ pre /\ notrail prev pre.
Proof.
  induction s as [|c s IH]; intros prev acc rest last H; cbn [find_trailing] in H.
  - injection H as <- _. exists []. split; [now rewrite app_nil_r|exact I].
  - destruct (N.eqb c c_colon && is_ascii_ws prev) eqn:E.
    + injection H as <- _. exists []. split; [now rewrite app_nil_r|exact I].
    + destruct (IH c (c :: acc) rest last H) as [pre [-> Hn]]. exists (c :: pre). split.
      * cbn [rev]. now rewrite <- app_assoc.
      * cbn [notrail]. auto.
Qed.

Lemma nows_app a b : nows a -> nows b -> nows (a ++ b).
Proof. unfold nows. intros Ha Hb. rewrite forallb_app. now rewrite Ha, Hb. Qed.

Lemma words_notrail s :
  (forall prev cur, notrail prev s -> cur <> [] ->
     exists t ws, words_aux s cur = (rev cur ++ t) :: ws /\ nows t /\ Forall mid_ok ws) /\
  (forall prev, notrail prev s -> is_ascii_ws prev = true -> Forall mid_ok (words_aux s [])).
Proof.
  induction s as [|c s [IHA IHB]]; split.
  - intros prev cur _ Hc. exists [], []. cbn [words_aux]. destruct cur; [contradiction|]. cbn [is_empty].
    split; [now rewrite app_nil_r|]. split; [reflexivity|constructor].
  - intros prev _ _. constructor.
  - intros prev cur [Hn Hs] Hc. cbn [words_aux]. destruct (is_ascii_ws c) eqn:Ec.
    + destruct cur as [|d cur]; [contradiction|]. cbn [is_empty]. exists [], (words_aux s []).
      split; [now rewrite app_nil_r|]. split; [reflexivity|]. now apply (IHB c).
    + destruct (IHA c (c :: cur) Hs) as [t [ws [E [Ht Hws]]]]; [discriminate|].
      exists (c :: t), ws. split; [rewrite E; cbn [rev]; now rewrite <- app_assoc|]. split; [|exact Hws].
      apply nows_cons. auto.
  - intros prev [Hn Hs] Hp. cbn [words_aux]. rewrite Hp, andb_true_r in Hn. destruct (is_ascii_ws c) eqn:Ec.
    + cbn [is_empty]. now apply (IHB c).
    + destruct (IHA c [c] Hs) as [t [ws [E [Ht Hws]]]]; [discriminate|]. rewrite E. constructor; [|exact Hws].
      cbn [rev app]. split; [apply nows_cons; auto|exact Hn].
Qed.

Lemma ascii_ws_unicode c : is_ascii_ws c = true -> is_unicode_ws c = true.
Proof.
  unfold is_ascii_ws, is_unicode_ws. intros H.
  repeat (apply orb_true_iff in H as [H|H]); apply N.eqb_eq in H; subst c; reflexivity.
Qed.

Lemma trim_start_head l c s : trim_start l = c :: s -> is_unicode_ws c = false.
Proof.
  induction l as [|d l IH]; cbn [trim_start]; [discriminate|].
  destruct (is_unicode_ws d) eqn:E; [exact IH|]. intros [= <- _]. exact E.
Qed.

Lemma Forall_removelast {A} (P : A -> Prop) l : Forall P l -> Forall P (removelast l).
Proof.
  induction l as [|x l IH]; [auto|]. intros H. inversion H; subst. cbn [removelast].
  destruct l; [constructor|]. constructor; auto.
Qed.

Theorem tokenize_wellformed l m : tokenize l = inl m -> mid_ok (m_command m) /\ params_ok (m_params m).
Proof.
  unfold tokenize. destruct (trim_start l) as [|c0 s1] eqn:Et; [discriminate|].
  pose proof (trim_start_head l c0 s1 Et) as Hu.
  assert (is_ascii_ws c0 = false) as Hc0.
  { destruct (is_ascii_ws c0) eqn:E; [|reflexivity]. apply ascii_ws_unicode in E. congruence. }
  destruct (find_trailing c0 s1 [c0]) as [rest last] eqn:Ef.
  destruct (ft_spec s1 c0 [c0] rest last Ef) as [pre [-> Hn]]. cbn [rev app].
  assert (exists t ws, words (c0 :: pre) = (c0 :: t) :: ws /\ nows t /\ Forall mid_ok ws) as [t [ws [Ew [Ht Hws]]]].
  { unfold words. cbn [words_aux]. rewrite Hc0. destruct (proj1 (words_notrail pre) c0 [c0] Hn) as [t [ws [E H]]]; [discriminate|].
    exists t, ws. split; [exact E|exact H]. }
  rewrite Ew.
  assert (forall ps, Forall mid_ok ps -> params_ok (ps ++ match last with Some lp => [lp] | None => [] end)) as Hpo.
  { intros ps Hps. unfold params_ok. destruct last as [lp|]; [now rewrite removelast_last|]. rewrite app_nil_r. now apply Forall_removelast. }
  destruct (N.eqb c0 c_colon) eqn:Ec.
  - cbn [tl]. destruct (validate_source t); [|discriminate]. destruct ws as [|cmd ps]; [discriminate|].
    intros [= <-]. cbn [m_command m_params]. inversion Hws; subst. split; [assumption|]. now apply Hpo.
  - intros [= <-]. cbn [m_command m_params]. split; [|now apply Hpo].
    split; [apply nows_cons; auto|exact Ec].
Qed.

(* the relay of any message that came out of the tokenizer re-parses to the same command and parameters *)
Corollary relay_reparses l m src : tokenize l = inl m -> nows src -> validate_source src = true ->
  tokenize (to_string_with_source m src) =
  inl {| m_source := Some src; m_command := m_command m; m_params := m_params m |}.
Proof. intros H Hs Hv. destruct (tokenize_wellformed l m H) as [Hc Hp]. now apply roundtrip. Qed.

(* ---------------------------------------------------------------- the grammar, with blank runs of any kind *)
(* a separator: a non-empty run of ASCII blanks (SP, TAB, LF, FF, CR) *)
Definition ws_run (r : str) : Prop := r <> [] /\ forallb is_ascii_ws r = true.

Definition spw (ts : list (str * str)) : str := concat (map (fun x => fst x ++ snd x) ts).

Lemma ws_not_colon c : is_ascii_ws c = true -> N.eqb c c_colon = false.
Proof.
  unfold is_ascii_ws. intros H. repeat (apply orb_true_iff in H as [H|H]); apply N.eqb_eq in H; subst c; reflexivity.
Qed.

Lemma ft_ws r : forall prev acc rest, forallb is_ascii_ws r = true -> r <> [] ->
  exists prev', is_ascii_ws prev' = true /\
    find_trailing prev (r ++ rest) acc = find_trailing prev' rest (rev r ++ acc).
Proof.
  induction r as [|c r IH]; intros prev acc rest Hr Hne; [contradiction|].
  cbn [forallb] in Hr. apply andb_true_iff in Hr as [Hc Hr]. cbn [app find_trailing]. rewrite (ws_not_colon c Hc). cbn [andb].
  destruct r as [|d r].
  - exists c. split; [exact Hc|reflexivity].
  - destruct (IH c (c :: acc) rest Hr) as [p' [Hp' E]]; [discriminate|]. exists p'. split; [exact Hp'|].
    rewrite E. cbn [rev]. now rewrite <- !app_assoc.
Qed.

Lemma ft_tok_any t : forall prev acc rest, mid_ok t ->
  exists prev', is_ascii_ws prev' = false /\
    find_trailing prev (t ++ rest) acc = find_trailing prev' rest (rev t ++ acc).
Proof.
  intros prev acc rest [Ht Hh]. destruct t as [|c t]; [contradiction|]. apply nows_cons in Ht as [Hc Ht].
  cbn [app find_trailing]. rewrite Hh. cbn [andb].
  destruct (ft_nows t c (c :: acc) rest Hc Ht) as [p' [Hp' E]]. exists p'. split; [exact Hp'|].
  rewrite E. cbn [rev]. now rewrite <- app_assoc.
Qed.

Definition sep_tok_ok (x : str * str) : Prop := ws_run (fst x) /\ mid_ok (snd x).

Lemma ft_spw ts : forall prev acc rest, Forall sep_tok_ok ts ->
  exists prev', find_trailing prev (spw ts ++ rest) acc = find_trailing prev' rest (rev (spw ts) ++ acc).
Proof.
  induction ts as [|[sep t] ts IH]; intros prev acc rest Hts.
  - exists prev. reflexivity.
  - inversion Hts as [|? ? [[Hne Hws] Ht] Hts']; subst. cbn [fst snd] in *. unfold spw. cbn [map concat fst snd]. fold (spw ts).
    rewrite <- !app_assoc.
    destruct (ft_ws sep prev acc (t ++ spw ts ++ rest) Hws Hne) as [p1 [_ E1]]. rewrite E1.
    destruct (ft_tok_any t p1 (rev sep ++ acc) (spw ts ++ rest) Ht) as [p2 [_ E2]]. rewrite E2.
    destruct (IH p2 (rev t ++ rev sep ++ acc) rest Hts') as [p3 E3]. exists p3. rewrite E3.
    rewrite !rev_app_distr. now rewrite <- !app_assoc.
Qed.

Lemma words_ws r : forall s cur, forallb is_ascii_ws r = true -> r <> [] ->
  words_aux (r ++ s) cur = (if is_empty cur then [] else [rev cur]) ++ words_aux s [].
Proof.
  induction r as [|c r IH]; intros s cur Hr Hne; [contradiction|].
  cbn [forallb] in Hr. apply andb_true_iff in Hr as [Hc Hr]. cbn [app words_aux]. rewrite Hc.
  destruct r as [|d r].
  - cbn [app]. destruct (is_empty cur); reflexivity.
  - rewrite (IH s [] Hr) by discriminate. cbn [is_empty app]. destruct (is_empty cur); reflexivity.
Qed.

Lemma words_spw ts : forall cur tailws, Forall sep_tok_ok ts -> forallb is_ascii_ws tailws = true ->
  words_aux (spw ts ++ tailws) cur = (if is_empty cur then [] else [rev cur]) ++ map snd ts.
Proof.
  induction ts as [|[sep t] ts IH]; intros cur tailws Hts Htw.
  - unfold spw. cbn [map concat app]. destruct tailws as [|c tw].
    + cbn. destruct (is_empty cur); reflexivity.
    + rewrite <- (app_nil_r (c :: tw)). rewrite (words_ws (c :: tw) [] cur Htw) by discriminate. cbn. now rewrite app_nil_r.
  - inversion Hts as [|? ? [[Hne Hws] [Ht Hh]] Hts']; subst. cbn [fst snd] in *. unfold spw. cbn [map concat fst snd]. fold (spw ts).
    rewrite <- !app_assoc. rewrite (words_ws sep _ cur Hws Hne). f_equal.
    rewrite (words_nows t _ [] Ht). rewrite app_nil_r. rewrite (IH (rev t) tailws Hts' Htw).
    rewrite is_empty_rev, rev_involutive. destruct t as [|c t]; [contradiction|]. reflexivity.
Qed.

(* Completeness of the tokenizer for the IRC grammar: any leading (Unicode) blanks, optional
   ':'source followed by a blank run, the command, middle parameters each preceded by a blank run of
   any kind and length, then either a blank run and ':' and ANY trailing text, or only trailing
   blanks - is tokenised to exactly (source, command, middles [++ trailing]). *)
Theorem grammar_complete lead (src : option (str * str)) cmd mids (trailing : option (str * str)) tailws :
  forallb is_unicode_ws lead = true ->
  match src with Some (sn, sep0) => nows sn /\ validate_source sn = true /\ ws_run sep0 | None => True end ->
  mid_ok cmd -> (src = None -> match cmd with c :: _ => is_unicode_ws c = false | [] => True end) ->
  Forall sep_tok_ok mids ->
  match trailing with Some (sep, _) => ws_run sep /\ tailws = [] | None => forallb is_ascii_ws tailws = true end ->
  tokenize (lead ++ match src with Some (sn, sep0) => (c_colon :: sn) ++ sep0 | None => [] end
                 ++ cmd ++ spw mids
                 ++ match trailing with Some (sep, tr) => sep ++ c_colon :: tr | None => tailws end)
  = inl {| m_source := option_map fst src; m_command := cmd;
           m_params := map snd mids ++ match trailing with Some (_, tr) => [tr] | None => [] end |}.
Proof.
  intros Hlead Hsrc Hcmd Hfirst Hmids Htr.
  (* the leading blanks are trimmed *)
  assert (forall body c0 rest, body = c0 :: rest -> is_unicode_ws c0 = false -> trim_start (lead ++ body) = body) as Htrim.
  { intros body c0 rest -> Hc0. clear -Hlead Hc0. induction lead as [|x l IH]; cbn [app trim_start].
    - now rewrite Hc0.
    - cbn [forallb] in Hlead. apply andb_true_iff in Hlead as [Hx Hl]. rewrite Hx. now apply IH. }
  (* normal form: first token, then separator/token pairs, then the tail *)
  set (tail := match trailing with Some (sep, tr) => sep ++ c_colon :: tr | None => tailws end).
  destruct src as [[sn sep0]|].
  - destruct Hsrc as [Hsn [Hv [Hne0 Hws0]]].
    unfold tokenize. rewrite <- !app_assoc. cbn [app]. rewrite (Htrim _ c_colon _ eq_refl eq_refl). change (N.eqb c_colon c_colon) with true.
    (* tokens after the source: (sep0, cmd) :: mids *)
    assert (sn ++ sep0 ++ cmd ++ spw mids ++ tail = sn ++ spw ((sep0, cmd) :: mids) ++ tail) as En.
    { unfold spw. cbn [map concat fst snd]. now rewrite <- !app_assoc. }
    rewrite En. clear En.
    assert (Forall sep_tok_ok ((sep0, cmd) :: mids)) as Hall by (constructor; [split; [split|]; assumption|assumption]).
    destruct (ft_nows sn c_colon [c_colon] (spw ((sep0, cmd) :: mids) ++ tail) ws_colon Hsn) as [p1 [_ E1]]. rewrite E1.
    destruct (ft_spw ((sep0, cmd) :: mids) p1 (rev sn ++ [c_colon]) tail Hall) as [p2 E2]. rewrite E2.
    assert (forall extra, forallb is_ascii_ws extra = true ->
              words (rev (rev extra ++ rev (spw ((sep0, cmd) :: mids)) ++ rev sn ++ [c_colon])) = (c_colon :: sn) :: cmd :: map snd mids) as Hw.
    { intros extra Hex. rewrite !rev_app_distr, !rev_involutive. cbn [rev app]. rewrite <- !app_assoc. cbn [app].
      unfold words. change (c_colon :: sn ++ spw ((sep0, cmd) :: mids) ++ extra) with ((c_colon :: sn) ++ spw ((sep0, cmd) :: mids) ++ extra).
      rewrite words_nows by (apply nows_cons; split; [reflexivity|exact Hsn]).
      rewrite (words_spw ((sep0, cmd) :: mids) _ extra Hall Hex). rewrite app_nil_r, is_empty_rev, rev_involutive. reflexivity. }
    unfold tail. destruct trailing as [[sep tr]|].
    + destruct Htr as [[Hnes Hwss] ->].
      destruct (ft_ws sep p2 (rev (spw ((sep0, cmd) :: mids)) ++ rev sn ++ [c_colon]) (c_colon :: tr) Hwss Hnes) as [p3 [Hp3 E3]]. rewrite E3.
      cbn [find_trailing]. change (N.eqb c_colon c_colon) with true. rewrite Hp3. cbn [andb].
      rewrite (Hw sep Hwss). cbn [tl option_map fst]. rewrite Hv. reflexivity.
    + (* no trailing parameter: the rest is blanks *)
      assert (forall tw prev acc, forallb is_ascii_ws tw = true -> find_trailing prev tw acc = (rev (rev tw ++ acc), None)) as Fend.
      { induction tw as [|c tw IHt]; intros prev acc Hw'; cbn [find_trailing]; [reflexivity|].
        cbn [forallb] in Hw'. apply andb_true_iff in Hw' as [Hc Hw']. rewrite (ws_not_colon c Hc). cbn [andb].
        rewrite IHt by exact Hw'. cbn [rev]. now rewrite <- app_assoc. }
      rewrite (Fend tailws _ _ Htr). rewrite (Hw tailws Htr). cbn [tl option_map fst]. rewrite Hv. now rewrite app_nil_r.
  - destruct Hcmd as [Hcn Hch]. destruct cmd as [|c0 cmd']; [contradiction|]. specialize (Hfirst eq_refl). cbn in Hfirst.
    apply nows_cons in Hcn as [Hc0 Hcn'].
    unfold tokenize. cbn [app]. rewrite (Htrim _ c0 _ eq_refl Hfirst). rewrite Hch.
    destruct (ft_nows cmd' c0 [c0] (spw mids ++ tail) Hc0 Hcn') as [p1 [_ E1]]. rewrite E1.
    destruct (ft_spw mids p1 (rev cmd' ++ [c0]) tail Hmids) as [p2 E2]. rewrite E2.
    assert (forall extra, forallb is_ascii_ws extra = true ->
              words (rev (rev extra ++ rev (spw mids) ++ rev cmd' ++ [c0])) = (c0 :: cmd') :: map snd mids) as Hw.
    { intros extra Hex. rewrite !rev_app_distr, !rev_involutive. cbn [rev app]. rewrite <- !app_assoc. cbn [app].
      unfold words. change (c0 :: cmd' ++ spw mids ++ extra) with ((c0 :: cmd') ++ spw mids ++ extra).
      rewrite words_nows by (apply nows_cons; split; assumption).
      rewrite (words_spw mids _ extra Hmids Hex). rewrite app_nil_r, is_empty_rev, rev_involutive. reflexivity. }
    unfold tail. destruct trailing as [[sep tr]|].
    + destruct Htr as [[Hnes Hwss] ->].
      destruct (ft_ws sep p2 (rev (spw mids) ++ rev cmd' ++ [c0]) (c_colon :: tr) Hwss Hnes) as [p3 [Hp3 E3]]. rewrite E3.
      cbn [find_trailing]. change (N.eqb c_colon c_colon) with true. rewrite Hp3. cbn [andb].
      rewrite (Hw sep Hwss). reflexivity.
    + assert (forall tw prev acc, forallb is_ascii_ws tw = true -> find_trailing prev tw acc = (rev (rev tw ++ acc), None)) as Fend.
      { induction tw as [|c tw IHt]; intros prev acc Hw'; cbn [find_trailing]; [reflexivity|].
        cbn [forallb] in Hw'. apply andb_true_iff in Hw' as [Hc Hw']. rewrite (ws_not_colon c Hc). cbn [andb].
        rewrite IHt by exact Hw'. cbn [rev]. now rewrite <- app_assoc. }
      rewrite (Fend tailws _ _ Htr). rewrite (Hw tailws Htr). cbn [option_map]. now rewrite app_nil_r.
Qed.
