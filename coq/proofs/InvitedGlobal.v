(* InvitedGlobal.v - over whole steps (any event of any connection): the pending invitations of a user record change
   only through an INVITE naming that user (gains the channel) and through the user's own JOIN (only shrinks); a new
   record holds none; NICK moves them.  So an admission past +i is granted by INVITE only, and nothing else takes a
   pending invitation away (C06: the end of somebody else's session leaves them alone). *)
From IRC Require Import Str Wild Glob Mask Parse Reply State Handlers Step.
From IRCP Require Import StrP InvDefs InvPrims InvHandlers InvStep Reach NickP OperP ModesFrame MembersFrame InvitedFrame.
From stdpp Require Import gmap.
Open Scope N_scope.

Local Arguments lit : simpl never.

Section reg.
Context (cfg : config) (verify : str -> str -> bool) (i : nat).

Definition fresh_invited (s s' : shared) : Prop :=
  users s' = users s \/
  exists nick u, users s !! nick = None /\ users s' = <[nick := u]> (users s) /\ u_conn u = i /\ u_invited u = ∅.

Lemma authenticate_fresh_i s c r : authenticate cfg verify i s c = Ok r -> fresh_invited s (h_sh r).
Proof.
  unfold authenticate. destruct (c_capneg c); [intros [= <-]; now left|].
  destruct (c_nick c) as [nick|]; [|intros [= <-]; now left].
  destruct (c_name c) as [name|]; [|intros [= <-]; now left].
  destruct (negb _); [intros [= <-]; now left|].
  match goal with |- (if ?g then _ else _) = _ -> _ => destruct g end; [|intros [= <-]; now left].
  destruct (users s !! nick) eqn:Hn; [intros [= <-]; now left|].
  destruct (c_sender_taken c); [discriminate|].
  match goal with |- context [st_add_user nick ?u0 s] => set (u := u0) end.
  destruct (lusers_lines _ _); cbn [rbind]; [|discriminate]. intros [= <-]. cbn [h_sh]. right.
  exists nick, u. split; [exact Hn|]. split; [apply st_add_user_fields|]. unfold u. cbn. auto.
Qed.

Lemma unauth_dispatch_fresh_i s c cmd msg r : c_auth c = false -> needs_registration cmd = false ->
  dispatch cfg verify i s c cmd msg = Ok r -> fresh_invited s (h_sh r).
Proof.
  intros A Hn. destruct cmd; try discriminate Hn; cbn [dispatch].
  - unfold process_cap. destruct sub.
    + intros [= <-]; now left.
    + intros [= <-]; now left.
    + destruct caps as [cs|]; [destruct (forallb _ cs)|]; intros [= <-]; now left.
    + rewrite A. apply authenticate_fresh_i.
  - intros [= <-]; now left.
  - unfold process_pass. rewrite A. apply authenticate_fresh_i.
  - unfold process_nick. rewrite A. cbn [negb]. destruct (users s !! nickname); [intros [= <-]; now left|apply authenticate_fresh_i].
  - unfold process_user. rewrite A. apply authenticate_fresh_i.
  - intros [= <-]; now left.
Qed.

(* where the record [u'] found under [n] after one line of connection [i] comes from *)
Definition invited_source (s : shared) (c : conn) (l : str) (n : str) (u' : user) : Prop :=
  (* the same memberships as a record of the same connection before (under [n], or - NICK - under the old nick) *)
  (exists n0 u, users s !! n0 = Some u /\ u_conn u = u_conn u' /\ u_invited u' = u_invited u) \/
  (* changed as the command of a registered connection allows *)
  (c_auth c = true /\ exists msg cmd nick P u, tokenize l = inl msg /\ command_of_message msg = inl cmd /\
      c_nick c = Some nick /\ invited_effect nick cmd P /\ users s !! n = Some u /\ u_conn u = u_conn u' /\
      P n (u_invited u) (u_invited u')) \/
  (* a registration that has just completed: no membership *)
  (c_auth c = false /\ users s !! n = None /\ u_conn u' = i /\ u_invited u' = ∅).

Theorem line_invited_source s c l r : InvS s -> conn_ok i s c ->
  process_line cfg verify i s c l = Ok r ->
  forall n u', users (h_sh r) !! n = Some u' -> invited_source s c l n u'.
Proof.
  intros I C H n u' Hu'.
  assert (forall o, Ok {| h_sh := s; h_conn := c; h_out := o; h_quit := false |} = Ok r -> invited_source s c l n u') as Same.
  { intros o [= <-]. cbn in Hu'. left. eauto. }
  unfold process_line in H. destruct (tokenize l) as [msg|[| |]] eqn:Ht; try (eapply Same; exact H).
  destruct (command_of_message msg) as [cmd|e] eqn:Hcmd; [|eapply Same; exact H].
  destruct (needs_registration cmd && negb (c_auth c)) eqn:G; [eapply Same; exact H|].
  destruct (c_auth c) eqn:A.
  - destruct (own_user i s c C A) as [nick [u [Hn [Hu [Hc [Ho Hg]]]]]].
    destruct (match cmd with NICK _ => true | _ => false end) eqn:En.
    + destruct cmd; try discriminate En. cbn [dispatch] in H.
      destruct (decide (nickname = nick)) as [->|Hne].
      { rewrite (process_nick_same cfg verify i s c msg nick A Hn) in H. injection H as <-. left. eauto. }
      destruct (users s !! nickname) as [x|] eqn:Hx.
      { rewrite (process_nick_refused cfg verify i s c nickname msg nick x A Hn Hne Hx) in H. injection H as <-. left. eauto. }
      destruct (process_nick_effect cfg verify i s c nickname msg nick u I A Hn Hu Hne Hx) as [r0 [Hr [_ [_ [Hus _]]]]].
      rewrite Hr in H. injection H as <-. rewrite Hus in Hu'. left. destruct (decide (n = nickname)) as [->|N1].
      * rewrite lookup_insert in Hu'. injection Hu' as <-. exists nick, u. destruct u; auto.
      * rewrite lookup_insert_ne in Hu' by congruence. destruct (decide (n = nick)) as [->|N2]; [now rewrite lookup_delete in Hu'|].
        rewrite lookup_delete_ne in Hu' by congruence. eauto.
    + destruct (dispatch_invited cfg verify i s c cmd msg r nick I C A Hn H) as [P [Hme M]].
      { intros n1 ->. discriminate En. }
      destruct (M n u' Hu') as [u0 [Hu0 [Hc0 Hp]]]. right. left. split; [exact A|]. exists msg, cmd, nick, P, u0. auto 10.
  - cbn in G. rewrite andb_true_r in G.
    destruct (unauth_dispatch_fresh_i s c cmd msg r A G H) as [E|[nick [u [Hfree [Hus [Hcu Hch]]]]]].
    + rewrite E in Hu'. left. eauto.
    + rewrite Hus in Hu'. destruct (decide (n = nick)) as [->|N1].
      * rewrite lookup_insert in Hu'. injection Hu' as <-. right. right. auto.
      * rewrite lookup_insert_ne in Hu' by congruence. left. eauto.
Qed.

End reg.

Section global.
Context (cfg : config) (verify : str -> str -> bool).

Definition step_invited_source (w : world) (i : nat) (e : event) (n : str) (u' : user) : Prop :=
  (exists n0 u, users (sh w) !! n0 = Some u /\ u_conn u = u_conn u' /\ u_invited u' = u_invited u) \/
  (exists c l, conns w !! i = Some c /\ e = EvLine l /\
     ((c_auth c = true /\ exists msg cmd nick P u, tokenize l = inl msg /\ command_of_message msg = inl cmd /\
         c_nick c = Some nick /\ invited_effect nick cmd P /\ users (sh w) !! n = Some u /\ u_conn u = u_conn u' /\
         P n (u_invited u) (u_invited u')) \/
      (c_auth c = false /\ users (sh w) !! n = None /\ u_conn u' = i /\ u_invited u' = ∅))).

Theorem invitations_follow_commands w i e w' o cl : Inv w -> step cfg verify w i e = Ok (w', o, cl) ->
  forall n u', users (sh w') !! n = Some u' -> step_invited_source w i e n u'.
Proof.
  intros I H n u' Hu'. pose proof (InvK_of_Inv w I) as K. unfold step in H.
  destruct (step_raw cfg verify w i e) as [[[w1 o1] c1]|] eqn:H1; [|discriminate]. cbn [rbind] in H.
  destruct (step_raw_frame cfg verify w i e w1 o1 c1 K H1) as [K1 _].
  destruct (deliver_kills_ok cfg w1 K1) as [w2 [o2 [c2 [H2 [_ [Hsub _]]]]]].
  rewrite H2 in H. cbn [rbind] in H. injection H as <- _ _.
  destruct (Hsub n u' Hu') as [Hu1 _]. clear Hu' Hsub H2.
  assert (forall c, conns w !! i = Some c -> forall (o0 : outl) (cl0 : list nat),
            (let! wx := teardown i w in Ok (wx, o0, cl0)) = Ok (w1, o1, c1) -> step_invited_source w i e n u') as TD.
  { intros c Hc o0 cl0 E. destruct (teardown_ok i w c K Hc) as [wx [Ht [_ [_ [Hs _]]]]]. rewrite Ht in E. cbn [rbind] in E.
    injection E as <- _ _. destruct (Hs n u' Hu1) as [Hu0 _]. left. eauto. }
  assert (Ok (w, @nil (nat * str), @nil nat) = Ok (w1, o1, c1) -> step_invited_source w i e n u') as Same.
  { intros [= <- _ _]. left. eauto. }
  destruct e; cbn [step_raw] in H1.
  - destruct (conns w !! i); [now apply Same|]. destruct (server_quit (sh w)); [injection H1 as <- _ _; left; eauto|].
    destruct (match cfg_max_connections cfg with Some m => N.ltb (nconns w) m | None => true end); injection H1 as <- _ _; left; eauto.
  - destruct (conns w !! i) as [c|] eqn:Hc; [|now apply Same].
    destruct (process_line cfg verify i (sh w) c l) as [r|] eqn:Hr; cbn [rbind] in H1; [|discriminate].
    assert (users (h_sh r) !! n = Some u') as Hur.
    { destruct (h_quit r).
      - set (wl := {| sh := h_sh r; conns := <[i := h_conn r]> (conns w); nconns := nconns w |}) in *.
        destruct (process_line_ok cfg verify i (sh w) c l (ik_s w K) (ik_cu w K i c Hc) (ik_st w K i c Hc)) as [r' [Hr' R]].
        rewrite Hr in Hr'. injection Hr' as <-. pose proof (InvK_line i w c r K Hc R) as Kl.
        assert (conns wl !! i = Some (h_conn r)) as Hcl by (cbn; now rewrite lookup_insert).
        destruct (teardown_ok i wl _ Kl Hcl) as [wx [Ht [_ [_ [Hs _]]]]]. rewrite Ht in H1. cbn [rbind] in H1.
        injection H1 as <- _ _. destruct (Hs n u' Hu1) as [Hx _]. exact Hx.
      - injection H1 as <- _ _. exact Hu1. }
    destruct (line_invited_source cfg verify i (sh w) c l r (ik_s w K) (ik_cu w K i c Hc) Hr n u' Hur) as [L|[R|R]].
    + left. exact L.
    + right. exists c, l. auto.
    + right. exists c, l. auto.
  - destruct (conns w !! i) as [c|] eqn:Hc; [|now apply Same]. eapply TD; eauto.
  - destruct (conns w !! i) as [c|] eqn:Hc; [|now apply Same]. eapply TD; eauto.
  - destruct (conns w !! i) as [c|] eqn:Hc; [|now apply Same]. eapply TD; eauto.
  - destruct (conns w !! i) as [c|] eqn:Hc; [|now apply Same]. injection H1 as <- _ _. left. eauto.
  - destruct (conns w !! i) as [c|] eqn:Hc; [|now apply Same]. eapply TD; eauto.
Qed.

(* an invitation appears only through an INVITE naming that user and that channel *)
Theorem invitation_gained_only_by_invite w i e w' o cl n u' n0 u ch : Inv w -> step cfg verify w i e = Ok (w', o, cl) ->
  users (sh w') !! n = Some u' -> users (sh w) !! n0 = Some u -> u_conn u = u_conn u' ->
  ch ∈ u_invited u' -> ch ∉ u_invited u ->
  exists c l msg, conns w !! i = Some c /\ c_auth c = true /\ e = EvLine l /\ tokenize l = inl msg /\
                  command_of_message msg = inl (INVITE n ch).
Proof.
  intros I H Hu' Hu Hcc Hin Hnot. pose proof (InvK_of_Inv w I) as K.
  destruct (invitations_follow_commands w i e w' o cl I H n u' Hu') as [[n1 [u1 [Hu1 [Hc1 Hch1]]]]|[c [l [Hc [-> [R|R]]]]]].
  - assert (n1 = n0) as -> by (eapply (owner_inj w); eauto; congruence). assert (u1 = u) as -> by congruence. rewrite Hch1 in Hin. contradiction.
  - destruct R as [A [msg [cmd [nick [P [u1 [Ht [Hcmd [Hn [Hme [Hu1 [Hc1 Hp]]]]]]]]]]]].
    assert (n = n0) as -> by (eapply (owner_inj w); eauto; congruence). assert (u1 = u) as -> by congruence.
    destruct Hme as [chs keys|nickname ch0|cmd N1 N2 N3].
    + unfold mshrink in Hp. destruct (decide (n0 = nick)); [set_solver|rewrite Hp in Hin; contradiction].
    + destruct Hp as [Hp|[-> Hp]]; [rewrite Hp in Hin; contradiction|].
      assert (ch0 = ch) as -> by (rewrite Hp in Hin; set_solver). exists c, l, msg. auto 10.
    + unfold meq in Hp. rewrite Hp in Hin. contradiction.
  - destruct R as [_ [_ [_ E]]]. rewrite E in Hin. set_solver.
Qed.

(* a user who stays connected loses a pending invitation only through its own JOIN *)
Theorem invitation_lost_only_by_own_join w i e w' o cl n u' n0 u ch : Inv w -> step cfg verify w i e = Ok (w', o, cl) ->
  users (sh w') !! n = Some u' -> users (sh w) !! n0 = Some u -> u_conn u = u_conn u' ->
  ch ∈ u_invited u -> ch ∉ u_invited u' ->
  u_conn u' = i /\ exists c l msg chs keys, conns w !! i = Some c /\ c_auth c = true /\ e = EvLine l /\ tokenize l = inl msg /\
                                             command_of_message msg = inl (JOIN chs keys).
Proof.
  intros I H Hu' Hu Hcc Hin Hnot. pose proof (InvK_of_Inv w I) as K.
  destruct (invitations_follow_commands w i e w' o cl I H n u' Hu') as [[n1 [u1 [Hu1 [Hc1 Hch1]]]]|[c [l [Hc [-> [R|R]]]]]].
  - assert (n1 = n0) as -> by (eapply (owner_inj w); eauto; congruence). assert (u1 = u) as -> by congruence. rewrite Hch1 in Hnot. contradiction.
  - destruct R as [A [msg [cmd [nick [P [u1 [Ht [Hcmd [Hn [Hme [Hu1 [Hc1 Hp]]]]]]]]]]]].
    assert (n = n0) as -> by (eapply (owner_inj w); eauto; congruence). assert (u1 = u) as -> by congruence.
    destruct Hme as [chs keys|nickname ch0|cmd N1 N2 N3].
    + unfold mshrink in Hp. destruct (decide (n0 = nick)) as [->|Hne]; [|rewrite Hp in Hnot; contradiction].
      destruct (ik_cu w K i c Hc A) as [nick' [u2 [Hn2 [Hu2 Hci]]]]. assert (nick' = nick) as -> by congruence. assert (u2 = u) as -> by congruence.
      split; [congruence|]. exists c, l, msg, chs, keys. auto 10.
    + destruct Hp as [Hp|[_ Hp]]; rewrite Hp in Hnot; [contradiction|set_solver].
    + unfold meq in Hp. rewrite Hp in Hnot. contradiction.
  - destruct R as [A [_ [Hci _]]]. destruct (ik_uc w K _ _ Hu) as [c0 [Hc0 [A0 _]]]. rewrite Hcc, Hci, Hc in Hc0. injection Hc0 as <-. congruence.
Qed.

End global.
