(* RankFrame.v - member ranks change only through MODE: for every other command, and for every way a session ends,
   a user who is a member of a channel before and after - under the same nick - holds the same rank flags. *)
From IRC Require Import Str Wild Glob Mask Parse Reply State Handlers Step.
From IRCP Require Import StrP ChanP InvDefs InvPrims InvNick InvHandlers InvStep Reach NickP OperP ModesFrame ModeP SettingsFrame.
From stdpp Require Import gmap.
Open Scope N_scope.

Local Arguments lit : simpl never.

Definition rk (n : str) (co : chan) := ch_users co !! n.

Lemma chan_set_rank_other l b nick co co' n : n <> nick -> chan_set_rank l b nick co = Ok co' -> rk n co' = rk n co.
Proof.
  intros Hne. unfold chan_set_rank. destruct (ch_users co !! nick); [|discriminate]. intros [= <-]. unfold rk. cbn.
  now rewrite lookup_insert_ne by congruence.
Qed.

(* removal: everybody else keeps its rank, the leaver is gone *)
Lemma chan_remove_user_rank nick co co' n : chan_remove_user nick co = Ok co' ->
  rk n co' = if decide (n = nick) then None else rk n co.
Proof.
  unfold chan_remove_user.
  assert (forall ls c0 c1, rfold (fun c l => chan_set_rank l false nick c) ls c0 = Ok c1 -> n <> nick -> rk n c1 = rk n c0) as G.
  { induction ls as [|l ls IH]; intros c0 c1; cbn [rfold]; [intros [= <-]; reflexivity|].
    destruct (chan_set_rank l false nick c0) as [c2|] eqn:E; cbn [rbind]; [|discriminate]. intros H Hne.
    rewrite (IH _ _ H Hne). eapply chan_set_rank_other; eauto. }
  destruct (rfold _ all_rankletters co) as [c1|] eqn:E; cbn [rbind]; [|discriminate]. intros [= <-].
  unfold rk. cbn. destruct (decide (n = nick)) as [->|Hne]; [apply lookup_delete|].
  rewrite lookup_delete_ne by congruence. exact (G _ _ _ E Hne).
Qed.

Lemma chan_add_user_rank nick co n : n <> nick -> rk n (chan_add_user nick co) = rk n co.
Proof.
  intros Hne. unfold chan_add_user.
  match goal with |- context [fold_left ?F ?L ?A] => destruct (fold_left F L A) as [m r] end. unfold rk. cbn.
  now rewrite lookup_insert_ne by congruence.
Qed.

(* ---------------------------------------------------------------- relations on the shared state *)
(* every member afterwards was a member of that channel before, with the same rank (departures, session ends) *)
Definition rshrink (s s' : shared) : Prop :=
  forall ch co' n r, chans s' !! ch = Some co' -> rk n co' = Some r -> exists co, chans s !! ch = Some co /\ rk n co = Some r.
(* a user who is a member of a channel before and after has the same rank *)
Definition rkeeps (s s' : shared) : Prop :=
  forall ch co co' n r r', chans s !! ch = Some co -> chans s' !! ch = Some co' -> rk n co = Some r -> rk n co' = Some r' -> r' = r.

Lemma rshrink_refl s : rshrink s s. Proof. intros ch co n r H R. eauto. Qed.
Lemma rshrink_trans s1 s2 s3 : rshrink s1 s2 -> rshrink s2 s3 -> rshrink s1 s3.
Proof. intros A B ch c3 n r H3 R3. destruct (B ch c3 n r H3 R3) as [c2 [H2 R2]]. exact (A ch c2 n r H2 R2). Qed.
Lemma rshrink_rkeeps s s' : rshrink s s' -> rkeeps s s'.
Proof. intros A ch co co' n r r' H H' R R'. destruct (A ch co' n r' H' R') as [c0 [H0 R0]]. congruence. Qed.
Lemma rkeeps_then_shrink s1 s2 s3 : rkeeps s1 s2 -> rshrink s2 s3 -> rkeeps s1 s3.
Proof. intros A B ch c1 c3 n r r' H1 H3 R1 R3. destruct (B ch c3 n r' H3 R3) as [c2 [H2 R2]]. eapply A; eauto. Qed.
Lemma rkeeps_chans_eq s s' : chans s' = chans s -> rkeeps s s'.
Proof. intros E ch co co' n r r' H H' R R'. rewrite E in H'. congruence. Qed.
Lemma rshrink_chans_eq s s' : chans s' = chans s -> rshrink s s'.
Proof. intros E ch co' n r H' R. rewrite E in H'. eauto. Qed.

Lemma rfold_rshrink {A} (f : shared -> A -> res shared) l :
  (forall s x s', f s x = Ok s' -> rshrink s s') -> forall s s', rfold f l s = Ok s' -> rshrink s s'.
Proof.
  intros Hf. induction l as [|x l IH]; intros s s'; cbn [rfold].
  - intros [= <-]. apply rshrink_refl.
  - destruct (f s x) as [s1|] eqn:E; cbn [rbind]; [|discriminate]. intros H.
    eapply rshrink_trans; [eapply Hf; eauto|eapply IH; eauto].
Qed.

Lemma remove_from_channel_rshrink ch nick s s' : st_remove_user_from_channel ch nick s = Ok s' -> rshrink s s'.
Proof.
  unfold st_remove_user_from_channel.
  assert (forall s1, rshrink s s1 ->
            match users s1 !! nick with
            | Some u => Ok (set_users (fun us => <[nick := u_set_chans (fun cs => cs ∖ {[ch]}) u]> us) s1)
            | None => Ok s1
            end = Ok s' -> rshrink s s') as K.
  { intros s1 S1. destruct (users s1 !! nick); intros [= <-]; [|exact S1].
    intros c0 co' n r H R. cbn in H. exact (S1 c0 co' n r H R). }
  destruct (chans s !! ch) as [co|] eqn:Hco; cbn [rbind]; [|apply K, rshrink_refl].
  destruct (chan_remove_user nick co) as [co1|] eqn:E; cbn [rbind]; [|discriminate].
  destruct (_ && _); cbn [rbind]; apply K.
  - intros c0 co' n r H R. cbn in H. destruct (decide (c0 = ch)) as [->|N1]; [now rewrite lookup_delete in H|].
    rewrite lookup_delete_ne in H by congruence. eauto.
  - intros c0 co' n r H R. cbn in H. destruct (decide (c0 = ch)) as [->|N1].
    + rewrite lookup_insert in H. injection H as <-. exists co. split; [exact Hco|].
      rewrite (chan_remove_user_rank nick co co1 n E) in R. destruct (decide (n = nick)); [discriminate|exact R].
    + rewrite lookup_insert_ne in H by congruence. eauto.
Qed.

Lemma st_remove_user_rshrink nick s s' : st_remove_user nick s = Ok s' -> rshrink s s'.
Proof.
  unfold st_remove_user. destruct (users s !! nick) as [u|]; [|intros [= <-]; apply rshrink_refl].
  set (s0 := set_users (delete nick) s).
  destruct (if is_local_oper (u_modes u) then _ else Ok s0) as [s1|] eqn:E1; cbn [rbind]; [|discriminate].
  assert (chans s1 = chans s) as C1.
  { destruct (is_local_oper (u_modes u)); [|injection E1 as <-; reflexivity].
    destruct (dec_counter (op_count s0)); cbn [rbind] in E1; [|discriminate]. injection E1 as <-. reflexivity. }
  destruct (if um_invisible (u_modes u) then _ else Ok s1) as [s2|] eqn:E2; cbn [rbind]; [|discriminate].
  assert (chans s2 = chans s) as C2.
  { destruct (um_invisible (u_modes u)); [|injection E2 as <-; exact C1].
    destruct (dec_counter (inv_count s1)); cbn [rbind] in E2; [|discriminate]. injection E2 as <-. exact C1. }
  destruct (rfold _ (elements (u_chans u)) _) as [s4|] eqn:E4; cbn [rbind]; [|discriminate]. intros [= <-].
  eapply rshrink_trans; [apply (rshrink_chans_eq s (set_wallops (fun w => w ∖ {[nick]}) s2)); exact C2|].
  eapply rshrink_trans; [eapply rfold_rshrink; [|exact E4]; intros sa x sb H; cbn beta in H; eapply remove_from_channel_rshrink; exact H|].
  apply rshrink_chans_eq. reflexivity.
Qed.

Section frame.
Context (cfg : config) (verify : str -> str -> bool).

Lemma teardown_rshrink i w w' : teardown i w = Ok w' -> rshrink (sh w) (sh w').
Proof.
  unfold teardown. destruct (conns w !! i) as [c|]; [|intros [= <-]; apply rshrink_refl].
  destruct (if c_auth c then _ else Ok (sh w)) as [s'|] eqn:E; cbn [rbind]; [|discriminate].
  destruct (dec_counter (nconns w)); cbn [rbind]; [|discriminate]. intros [= <-]. cbn [sh].
  destruct (c_auth c); [|injection E as <-; apply rshrink_refl].
  destruct (c_nick c) as [n|]; [|injection E as <-; apply rshrink_refl]. eapply st_remove_user_rshrink; eauto.
Qed.

Lemma deliver_kills_rshrink w w' o cl : deliver_kills cfg w = Ok (w', o, cl) -> rshrink (sh w) (sh w').
Proof.
  unfold deliver_kills.
  match goal with |- rfold ?F ?L ?A = _ -> _ => set (F0 := F); generalize L end. intros l.
  assert (forall l wa oa ca wb ob cb, rfold F0 l (wa, oa, ca) = Ok (wb, ob, cb) -> rshrink (sh wa) (sh wb)) as G.
  { clear. induction l as [|[[j k] cm] l IH]; intros wa oa ca wb ob cb; cbn [rfold]; [intros [= <- _ _]; apply rshrink_refl|].
    unfold F0 at 1. destruct (teardown j wa) as [w1|] eqn:E; cbn [rbind]; [|discriminate]. intros H.
    eapply rshrink_trans; [eapply teardown_rshrink; eauto|eapply IH; eauto]. }
  apply G.
Qed.

(* ---------------------------------------------------------------- JOIN *)
Lemma join_check_create s c u nick client ch key :
  (join_check s c u nick client ch key).1.2 = true -> chans s !! ch = None.
Proof.
  unfold join_check. destruct (chans s !! ch) as [co|]; [|reflexivity].
  repeat match goal with
         | |- context [let '(_, _) := ?x in _] => destruct x eqn:?
         | |- context [match ?x with _ => _ end] => destruct x eqn:?
         end; cbn; intros; try discriminate; try reflexivity.
Qed.

Lemma phase1_create_absent s c u nick client keys chs0 : forall idx seen jc plan o jc',
  join_phase1 cfg s c u nick client chs0 keys idx seen jc = Ok (plan, o, jc') ->
  forall ch j, (ch, (j, true)) ∈ plan -> chans s !! ch = None.
Proof.
  induction chs0 as [|ch0 chs0 IH]; intros idx seen jc plan o jc'; cbn [join_phase1].
  - intros [= <- _ _] ch j H. inversion H.
  - destruct (existsb _ seen).
    + destruct (join_phase1 cfg s c u nick client chs0 keys (S idx) _ jc) as [[[l o'] jc2]|] eqn:E; cbn [rbind]; [|discriminate].
      intros [= <- _ _] ch j H. apply elem_of_cons in H as [H|H]; [discriminate H|]. eapply IH; eauto.
    + destruct (match keys with None => Ok None | Some ks => _ end) as [key|]; cbn [rbind]; [|discriminate].
      destruct (join_check s c u nick client ch0 key) as [[jn cr] o1] eqn:Ejc.
      destruct (match cfg_max_joins cfg with Some mj => _ | None => _ end) as [dj o2].
      destruct (join_phase1 cfg s c u nick client chs0 keys (S idx) _ _) as [[[l o'] jc2]|] eqn:E; cbn [rbind]; [|discriminate].
      intros [= <- _ _] ch j H. apply elem_of_cons in H as [H|H]; [|eapply IH; eauto].
      injection H as -> _ <-. apply (join_check_create s c u nick client ch0 key). rewrite Ejc. reflexivity.
Qed.

(* an entry that does not (re)create the channel ch0 leaves its settings alone *)
Lemma join_check_nonmember s c u nick client ch key co :
  (join_check s c u nick client ch key).1.1 = true -> chans s !! ch = Some co -> nick ∉ dom (ch_users co).
Proof.
  intros H Hco. unfold join_check in H. rewrite Hco in H.
  repeat match type of H with
         | context [let '(_, _) := ?x in _] => destruct x eqn:?
         | context [match ?x with _ => _ end] => destruct x eqn:?
         end; cbn in H; try discriminate;
  try (apply andb_true_iff in H as [_ H]; apply negb_true_iff, bool_decide_eq_false in H; exact H).
Qed.

Lemma phase1_join_nonmember s c u nick client keys chs0 : forall idx seen jc plan o jc',
  join_phase1 cfg s c u nick client chs0 keys idx seen jc = Ok (plan, o, jc') ->
  forall ch cr co, (ch, (true, cr)) ∈ plan -> chans s !! ch = Some co -> nick ∉ dom (ch_users co).
Proof.
  induction chs0 as [|ch0 chs0 IH]; intros idx seen jc plan o jc'; cbn [join_phase1].
  - intros [= <- _ _] ch cr co H. inversion H.
  - destruct (existsb _ seen).
    + destruct (join_phase1 cfg s c u nick client chs0 keys (S idx) _ jc) as [[[l o'] jc2]|] eqn:E; cbn [rbind]; [|discriminate].
      intros [= <- _ _] ch cr co H. apply elem_of_cons in H as [H|H]; [discriminate H|]. eapply IH; eauto.
    + destruct (match keys with None => Ok None | Some ks => _ end) as [key|]; cbn [rbind]; [|discriminate].
      destruct (join_check s c u nick client ch0 key) as [[jn cr0] o1] eqn:Ejc.
      destruct (cfg_max_joins cfg) as [mj|].
      * destruct (join_phase1 cfg s c u nick client chs0 keys (S idx) _ _) as [[[l o'] jc2]|] eqn:E; cbn [rbind]; [|discriminate].
        intros [= <- _ _] ch cr co H. apply elem_of_cons in H as [H|H]; [|eapply IH; eauto].
        injection H as -> Hj _. intros Hco. apply (join_check_nonmember s c u nick client ch0 key co); [|exact Hco].
        rewrite Ejc. cbn. symmetry in Hj. apply andb_true_iff in Hj as [Hj _]. exact Hj.
      * destruct (join_phase1 cfg s c u nick client chs0 keys (S idx) _ _) as [[[l o'] jc2]|] eqn:E; cbn [rbind]; [|discriminate].
        intros [= <- _ _] ch cr co H. apply elem_of_cons in H as [H|H]; [|eapply IH; eauto].
        injection H as -> Hj _. intros Hco. apply (join_check_nonmember s c u nick client ch0 key co); [|exact Hco].
        rewrite Ejc. cbn. congruence.
Qed.

(* an entry that neither (re)creates ch0 nor adds n itself to ch0 leaves n's rank on ch0 alone *)
Lemma join_insert_rank nick s x s' ch0 co n r :
  chans s !! ch0 = Some co -> rk n co = Some r -> (forall j, x <> (ch0, (j, true))) -> (x = (ch0, (true, false)) -> n <> nick) ->
  join_insert nick s x = Ok s' -> exists co', chans s' !! ch0 = Some co' /\ rk n co' = Some r.
Proof.
  intros Hco Hr Hx Hn. destruct x as [ch [j cr]]. unfold join_insert. destruct j; cbn [negb]; [|intros [= <-]; eauto].
  destruct (get_user s nick) as [u|]; cbn [rbind]; [|discriminate]. destruct cr.
  - intros [= <-]. cbn. destruct (decide (ch0 = ch)) as [->|N1]; [exfalso; eapply Hx; reflexivity|].
    rewrite lookup_insert_ne by congruence. eauto.
  - unfold get_chan. cbn [chans set_users]. destruct (chans s !! ch) as [c1|] eqn:H1; cbn [rbind]; [|discriminate].
    intros [= <-]. cbn. destruct (decide (ch0 = ch)) as [->|N1].
    + rewrite lookup_insert. eexists. split; [reflexivity|]. assert (c1 = co) as -> by congruence.
      rewrite chan_add_user_rank; [exact Hr|]. apply Hn. reflexivity.
    + rewrite lookup_insert_ne by congruence. eauto.
Qed.

Lemma join_rkeeps i s c chs0 keys r : process_join cfg i s c chs0 keys = Ok r -> rkeeps s (h_sh r).
Proof.
  unfold process_join. destruct (own_nick c) as [nick|]; cbn [rbind]; [|discriminate].
  destruct (get_user s nick) as [u|]; cbn [rbind]; [|discriminate].
  destruct (join_phase1 _ _ _ _ _ _ _ _ _ _ _) as [[[plan o1] q]|] eqn:Ep; cbn [rbind]; [|discriminate].
  destruct (rfold (join_insert nick) plan s) as [s'|] eqn:E; cbn [rbind]; [|discriminate].
  match goal with |- context [rfold ?G plan []] => destruct (rfold G plan []) as [o2|] end; cbn [rbind]; [|discriminate].
  intros [= <-]. cbn [h_sh]. intros ch0 co co' n rr rr' Hco Hco' Hr Hr'.
  assert (forall j, (ch0, (j, true)) ∉ plan) as Hnc.
  { intros j Hin. pose proof (phase1_create_absent s c u nick (client_name c) keys chs0 _ _ _ _ _ _ Ep ch0 j Hin). congruence. }
  assert ((ch0, (true, false)) ∈ plan -> n <> nick) as Hnm.
  { intros Hin. pose proof (phase1_join_nonmember s c u nick (client_name c) keys chs0 _ _ _ _ _ _ Ep ch0 false co Hin Hco) as Hnot.
    intros ->. apply Hnot. apply elem_of_dom. unfold rk in Hr. eauto. }
  clear Ep. assert (exists c2, chans s' !! ch0 = Some c2 /\ rk n c2 = Some rr) as [c2 [H2 R2]].
  { revert s co Hco Hr E. induction plan as [|x plan IH]; intros s co Hco Hr; cbn [rfold].
    - intros [= <-]. eauto.
    - destruct (join_insert nick s x) as [s1|] eqn:E1; cbn [rbind]; [|discriminate]. intros E.
      destruct (join_insert_rank nick s x s1 ch0 co n rr Hco Hr) as [c1 [H1 S1]]; [| |exact E1|].
      { intros j ->. apply (Hnc j). left. }
      { intros ->. apply Hnm. left. }
      eapply (IH (fun j Hin => Hnc j (elem_of_list_further _ _ _ Hin)) (fun Hin => Hnm (elem_of_list_further _ _ _ Hin))); eauto. }
  congruence.
Qed.

Lemma part_rshrink i s c chs0 reason r : process_part cfg i s c chs0 reason = Ok r -> rshrink s (h_sh r).
Proof.
  unfold process_part. destruct (own_nick c) as [nick|]; cbn [rbind]; [|discriminate].
  match goal with |- context [rfold ?F chs0 (s, [])] => set (F0 := F) end.
  assert (forall l s0 o0 s1 o1, rfold F0 l (s0, o0) = Ok (s1, o1) -> rshrink s0 s1) as G.
  { induction l as [|ch l IH]; intros s0 o0 s1 o1; cbn [rfold]; [intros [= <- _]; apply rshrink_refl|].
    unfold F0 at 1. destruct (chans s0 !! ch) as [co|]; [|cbn [rbind]; apply IH].
    destruct (bool_decide _); [|cbn [rbind]; apply IH].
    destruct (send_all _ _ _); cbn [rbind]; [|discriminate].
    destruct (st_remove_user_from_channel ch nick s0) as [s2|] eqn:E; cbn [rbind]; [|discriminate].
    intros H. eapply rshrink_trans; [eapply remove_from_channel_rshrink; eauto|eapply IH; eauto]. }
  destruct (rfold F0 chs0 (s, [])) as [[s' o]|] eqn:E; cbn [rbind]; [|discriminate].
  destruct (get_user s' nick); cbn [rbind]; [|discriminate]. intros [= <-]. cbn [h_sh]. eapply G; eauto.
Qed.

Lemma kick_rshrink i s c ch victims comment r : process_kick cfg i s c ch victims comment = Ok r -> rshrink s (h_sh r).
Proof.
  unfold process_kick. destruct (own_nick c) as [nick|]; cbn [rbind]; [|discriminate].
  destruct (kick_decide s nick (client_name c) ch victims) as [kicked o1].
  destruct (rfold (fun s v => st_remove_user_from_channel ch v s) kicked s) as [s'|] eqn:E; cbn [rbind]; [|discriminate].
  match goal with |- context [rfold ?G kicked []] => destruct (rfold G kicked []) end; cbn [rbind]; [|discriminate]. intros [= <-]. cbn [h_sh].
  eapply rfold_rshrink; [|exact E]. intros s0 x s1 H; cbn beta in H. eapply remove_from_channel_rshrink; exact H.
Qed.

(* TOPIC leaves every rank alone *)
Lemma topic_rkeeps i s c ch topic msg r : process_topic cfg i s c ch topic msg = Ok r -> rkeeps s (h_sh r).
Proof.
  assert (forall o, Ok {| h_sh := s; h_conn := c; h_out := o; h_quit := false |} = Ok r -> rkeeps s (h_sh r)) as Same.
  { intros o [= <-]. apply rkeeps_chans_eq. reflexivity. }
  unfold process_topic. destruct (own_nick c) as [nick|]; cbn [rbind]; [|discriminate].
  destruct topic as [t|].
  - destruct (chans s !! ch) as [co|] eqn:Hco; [|apply Same].
    destruct (ch_users co !! nick) as [rk0|]; [|apply Same].
    destruct (topic_allowed co rk0); [|apply Same].
    destruct (send_all _ _ _); cbn [rbind]; [|discriminate]. intros [= <-]. cbn [h_sh].
    intros c0 c1 c2 n r1 r2 H1 H2 R1 R2. cbn in H2. destruct (decide (c0 = ch)) as [->|N1].
    + rewrite lookup_insert in H2. injection H2 as <-. assert (c1 = co) as -> by congruence. unfold rk in *. cbn in R2. congruence.
    + rewrite lookup_insert_ne in H2 by congruence. congruence.
  - destruct (chans s !! ch) as [co|]; [|apply Same].
    destruct (bool_decide _); [|apply Same]. destruct (ch_topic co) as [[t w]|]; apply Same.
Qed.

(* MODE touches the ranks of the named channel only *)
Lemma mode_rkeeps_others i s c target modes r nick : own_nick c = Ok nick ->
  process_mode cfg i s c target modes = Ok r ->
  forall ch co co', ch <> target -> chans s !! ch = Some co -> chans (h_sh r) !! ch = Some co' -> co' = co.
Proof.
  intros Ho H ch co co' Hne H1 H2.
  assert (forall o, Ok {| h_sh := s; h_conn := c; h_out := o; h_quit := false |} = Ok r -> co' = co) as S3.
  { intros o [= <-]. cbn in H2. congruence. }
  unfold process_mode in H. rewrite Ho in H. cbn [rbind] in H. destruct (validate_channel target).
  - destruct (chans s !! target) as [ct|]; [|eapply S3; exact H].
    destruct (ch_users ct !! nick) as [rk0|]; [|eapply S3; exact H].
    destruct modes as [|m ms].
    + destruct (process_mode_channel_query cfg i s c target nick ct rk0 r H) as [E _]. rewrite E in H2. congruence.
    + destruct (process_mode_channel_effect cfg i s c target nick ct rk0 (m :: ms) r) as [_ [_ [ct' [E _]]]]; [discriminate|exact H|].
      rewrite E in H2. cbn in H2. rewrite lookup_insert_ne in H2 by congruence. congruence.
  - destruct (bool_decide (nick = target)).
    + unfold process_mode_user in H. destruct (get_user s nick) as [u|] eqn:Hg; cbn [rbind] in H; [|discriminate].
      unfold get_user in Hg. destruct (users s !! nick) as [u0|] eqn:Hu; [|discriminate]. injection Hg as ->.
      assert (process_mode_user cfg i s c nick modes = Ok r) as H'.
      { unfold process_mode_user, get_user. rewrite Hu. cbn [rbind]. exact H. }
      destruct (mode_user_no_grant cfg i s c nick modes r u Hu H') as [m' [_ [Hch _]]]. rewrite Hch in H2. congruence.
    + destruct (users s !! target); eapply S3; exact H.
Qed.

Lemma chans_same_invite i s c nickname ch msg r : process_invite cfg i s c nickname ch msg = Ok r -> chans (h_sh r) = chans s.
Proof.
  unfold process_invite. destruct (own_nick c) as [nick|]; cbn [rbind]; [|discriminate].
  destruct (chans s !! ch) as [co|]; [|intros [= <-]; reflexivity].
  destruct (ch_users co !! nick) as [rk|]; [|intros [= <-]; reflexivity].
  destruct (_ && _); [intros [= <-]; reflexivity|]. destruct (bool_decide _); [intros [= <-]; reflexivity|].
  destruct (users s !! nickname) as [inv|]; intros [= <-]; reflexivity.
Qed.

Lemma chans_same_kill i s c nickname comment r : process_kill cfg i s c nickname comment = Ok r -> chans (h_sh r) = chans s.
Proof.
  unfold process_kill. destruct (own_nick c) as [nick|]; cbn [rbind]; [|discriminate].
  destruct (get_user s nick) as [u|]; cbn [rbind]; [|discriminate].
  destruct (um_oper (u_modes u)); [|intros [= <-]; reflexivity].
  destruct (users s !! nickname) as [v|]; [|intros [= <-]; reflexivity].
  destruct (u_kill v); intros [= <-]; reflexivity.
Qed.

Lemma chans_same_die i s c message r : process_die cfg i s c message = Ok r -> chans (h_sh r) = chans s.
Proof.
  unfold process_die. destruct (own_nick c) as [nick|]; cbn [rbind]; [|discriminate].
  destruct (get_user s nick) as [u|]; cbn [rbind]; [|discriminate].
  destruct (um_oper (u_modes u)); intros [= <-]; reflexivity.
Qed.

Lemma chans_same_away i s c text r : process_away cfg i s c text = Ok r -> chans (h_sh r) = chans s.
Proof.
  unfold process_away. destruct (own_nick c) as [nick|]; cbn [rbind]; [|discriminate].
  unfold get_user. destruct (users s !! nick) as [u|]; cbn [rbind]; [|discriminate]. intros [= <-]. reflexivity.
Qed.

(* every command of a registered connection other than MODE: a channel present before and after keeps its settings *)
Theorem dispatch_ranks i s c cmd msg r :
  InvS s -> conn_ok i s c -> c_auth c = true ->
  dispatch cfg verify i s c cmd msg = Ok r -> (forall target modes, cmd <> MODE target modes) -> rkeeps s (h_sh r).
Proof.
  intros I C A H Hnm.
  assert (forall r0, same_result s c r0 -> rkeeps s (h_sh r0)) as Same.
  { intros r0 [E _]. rewrite E. apply rkeeps_chans_eq. reflexivity. }
  assert (forall (P : res hres), (exists r0, P = Ok r0 /\ same_result s c r0) -> P = Ok r -> rkeeps s (h_sh r)) as S2.
  { intros P [r0 [-> Hs]] [= <-]. now apply Same. }
  assert (forall o, Ok {| h_sh := s; h_conn := c; h_out := o; h_quit := false |} = Ok r -> rkeeps s (h_sh r)) as S3.
  { intros o [= <-]. apply rkeeps_chans_eq. reflexivity. }
  assert (forall s1, chans s1 = chans s -> rkeeps s s1) as SC by (intros s1 E; now apply rkeeps_chans_eq).
  destruct (own_user i s c C A) as [nick [u [Hn [Hu [Hc [Ho Hg]]]]]].
  destruct cmd; cbn [dispatch] in H.
  - (* CAP *) unfold process_cap in H. destruct sub.
    + injection H as <-. apply SC. reflexivity.
    + injection H as <-. apply SC. reflexivity.
    + destruct caps as [cs|]; [destruct (forallb _ cs)|]; injection H as <-; apply SC; reflexivity.
    + rewrite A in H. injection H as <-. apply SC. reflexivity.
  - injection H as <-. apply SC. reflexivity.
  - unfold process_pass in H. rewrite A in H. injection H as <-. apply SC. reflexivity.
  - (* NICK: channels are renamed in place *)
    destruct (decide (nickname = nick)) as [->|Hne].
    { rewrite (process_nick_same cfg verify i s c msg nick A Hn) in H. injection H as <-. apply SC. reflexivity. }
    destruct (users s !! nickname) as [x|] eqn:Hx.
    { rewrite (process_nick_refused cfg verify i s c nickname msg nick x A Hn Hne Hx) in H. injection H as <-. apply SC. reflexivity. }
    destruct (process_nick_effect cfg verify i s c nickname msg nick u I A Hn Hu Hne Hx) as [r0 [Hr [_ [_ [_ [Hch _]]]]]].
    rewrite Hr in H. injection H as <-. intros ch co co' n r1 r2 H1 H2 R1 R2. rewrite Hch, H1 in H2.
    destruct (bool_decide (ch ∈ u_chans u)); cbn in H2; injection H2 as <-; [|congruence].
    unfold rk, chan_renamed in R2. cbn in R2.
    destruct (decide (n = nickname)) as [->|N1].
    { (* the new nick was nobody's: it was on no channel *)
      exfalso. destruct (is_cu s I ch co nickname H1) as [ux [Hux _]]; [apply elem_of_dom; unfold rk in R1; eauto|]. congruence. }
    rewrite lookup_insert_ne in R2 by congruence.
    destruct (decide (n = nick)) as [->|N2]; [now rewrite lookup_delete in R2|].
    rewrite lookup_delete_ne in R2 by congruence. unfold rk in R1. congruence.
  - unfold process_user in H. rewrite A in H. injection H as <-. apply SC. reflexivity.
  - injection H as <-. apply SC. reflexivity.
  - injection H as <-. apply SC. reflexivity.
  - (* OPER *)
    destruct (oper_spec cfg verify i s c name password nick u Hn Hu) as [r0 [Hr [_ [_ Hacc]]]].
    rewrite Hr in H. injection H as <-. destruct (oper_accepted cfg verify c name password).
    + destruct Hacc as [_ [Hch _]]. now apply SC.
    + destruct Hacc as [E _]. rewrite E. apply SC. reflexivity.
  - (* QUIT *) injection H as <-. apply SC. reflexivity.
  - eapply join_rkeeps; eauto.
  - apply rshrink_rkeeps. eapply part_rshrink; eauto.
  - eapply topic_rkeeps; eauto.
  - eapply S2; [|exact H]. now apply process_names_ok.
  - unfold process_list in H. destruct server; eapply S3; exact H.
  - apply SC. eapply chans_same_invite; eauto.
  - apply rshrink_rkeeps. eapply kick_rshrink; eauto.
  - unfold process_motd in H. destruct target; eapply S3; exact H.
  - unfold process_version in H. destruct target; eapply S3; exact H.
  - unfold process_admin in H. destruct target; eapply S3; exact H.
  - eapply S3; exact H.
  - unfold process_lusers in H. destruct (lusers_lines s (client_name c)); cbn [rbind] in H; [|discriminate]. eapply S3; exact H.
  - unfold process_time in H. destruct server; eapply S3; exact H.
  - unfold process_stats in H. destruct server; [eapply S3; exact H|].
    rewrite Ho in H. cbn [rbind] in H. rewrite Hg in H. cbn [rbind] in H. destruct (is_local_oper _); eapply S3; exact H.
  - unfold process_links in H. destruct remote_server, server_mask; eapply S3; exact H.
  - unfold process_help in H. destruct (help_topic _); eapply S3; exact H.
  - eapply S3; exact H.
  - exfalso. eapply Hnm. reflexivity.
  - eapply S2; [|exact H]. now apply process_privmsg_ok.
  - eapply S2; [|exact H]. now apply process_privmsg_ok.
  - eapply S2; [|exact H]. now apply process_who_ok.
  - eapply S2; [|exact H]. now apply process_whois_ok.
  - unfold process_whowas in H. destruct server; eapply S3; exact H.
  - apply SC. eapply chans_same_kill; eauto.
  - eapply S3; exact H.
  - eapply S3; exact H.
  - unfold process_squit in H. destruct (bool_decide _); [apply SC; eapply chans_same_die; eauto|eapply S3; exact H].
  - apply SC. eapply chans_same_away; eauto.
  - eapply S3; exact H.
  - eapply S2; [|exact H]. now apply process_wallops_ok.
  - eapply S3; exact H.
  - apply SC. eapply chans_same_die; eauto.
Qed.

End frame.
