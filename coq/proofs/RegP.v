(* RegP.v - registration gate and registration conditions (C03). *)
From stdpp Require Import gmap.
From IRC Require Import Str Wild Mask Parse Reply State Handlers Step.
Open Scope N_scope.

Lemma st_add_user_users n u s : users (st_add_user n u s) = <[n := u]> (users s).
Proof.
  unfold st_add_user.
  repeat match goal with |- context [if ?b then _ else _] => destruct b end; reflexivity.
Qed.
Lemma st_add_user_chans n u s : chans (st_add_user n u s) = chans s.
Proof.
  unfold st_add_user.
  repeat match goal with |- context [if ?b then _ else _] => destruct b end; reflexivity.
Qed.

Section reg.
Context (cfg : config) (verify : str -> str -> bool) (i : nat).

(* a line that is not one of CAP, AUTHENTICATE, PASS, NICK, USER, QUIT (or does not parse at all) *)
Definition gated (l : str) : bool :=
  match tokenize l with
  | inl msg => match command_of_message msg with
               | inl cmd => needs_registration cmd
               | inr _ => true
               end
  | inr _ => true
  end.

(* the reply to a gated line, computed without looking at the shared state *)
Definition gated_reply (c : conn) (l : str) : outl :=
  match tokenize l with
  | inr MEmpty => []
  | inr MWrongSource => [(i, srv cfg (lit "ERROR :Wrong source"))]
  | inr MNoCommand => [(i, srv cfg (lit "ERROR :No command supplied"))]
  | inl msg => match command_of_message msg with
               | inr e => [(i, srv cfg (cmd_error_reply (client_name c) e))]
               | inl _ => [(i, srv cfg (err_notregistered (client_name c)))]
               end
  end.

Lemma gate_451 s c l msg cmd :
  c_auth c = false -> tokenize l = inl msg -> command_of_message msg = inl cmd ->
  needs_registration cmd = true ->
  process_line cfg verify i s c l =
  Ok {| h_sh := s; h_conn := c; h_out := [(i, srv cfg (err_notregistered (client_name c)))];
        h_quit := false |}.
Proof.
  intros Ha Ht Hc Hn. unfold process_line. rewrite Ht, Hc, Hn, Ha. reflexivity.
Qed.

Lemma gated_no_reveal s c l :
  c_auth c = false -> gated l = true ->
  process_line cfg verify i s c l =
  Ok {| h_sh := s; h_conn := c; h_out := gated_reply c l; h_quit := false |}.
Proof.
  intros Ha Hg. unfold process_line, gated, gated_reply in *.
  destruct (tokenize l) as [msg|[]]; try reflexivity.
  destruct (command_of_message msg) as [cmd|e]; [|reflexivity].
  rewrite Hg, Ha. reflexivity.
Qed.

(* ---------------------------------------------------------------- registration conditions *)
Definition mask_ok (c : conn) (name : str) : bool :=
  match find_usercfg cfg name with
  | Some uc => match uc_mask uc with Some m => wild_match m (c_source c) | None => true end
  | None => true
  end.

(* the password that applies: the configured user's, else the server's *)
Definition applicable_password (name : str) : option str :=
  match (match find_usercfg cfg name with Some uc => uc_password uc | None => None end) with
  | Some p => Some p
  | None => cfg_password cfg
  end.

Definition password_ok (c : conn) (name : str) : bool :=
  match applicable_password name with
  | Some hash => match c_pass c with Some p => verify p hash | None => false end
  | None => true
  end.

Lemma authenticate_spec s c r :
  c_auth c = false ->
  authenticate cfg verify i s c = Ok r ->
  match c_nick c, c_name c with
  | Some nick, Some name =>
      if c_capneg c then h_sh r = s /\ c_auth (h_conn r) = false /\ h_out r = [] /\ h_quit r = false
      else if negb (mask_ok c name)
      then h_sh r = s /\ h_conn r = c /\ h_quit r = false
      else if negb (password_ok c name)
      then h_sh r = s /\ c_auth (h_conn r) = false /\ h_quit r = true /\
           h_out r = [(i, srv cfg (err_passwdmismatch (client_name c)))]
      else match users s !! nick with
           | Some _ => h_sh r = s /\ c_auth (h_conn r) = false /\ h_quit r = false /\
                       h_out r = [(i, srv cfg (err_nicknameinuse (client_name c) nick))]
           | None => c_auth (h_conn r) = true /\ h_quit r = false /\
                     exists u, users (h_sh r) = <[nick := u]> (users s) /\ u_conn u = i /\
                               u_name u = name /\ u_source u = c_source c /\
                               chans (h_sh r) = chans s
           end
  | _, _ => h_sh r = s /\ c_auth (h_conn r) = false /\ h_out r = [] /\ h_quit r = false
  end.
Proof.
  intros Ha. unfold authenticate, mask_ok, password_ok, applicable_password.
  destruct (c_capneg c) eqn:Hcap.
  { intros [= <-]. cbn. destruct (c_nick c), (c_name c); auto. }
  destruct (c_nick c) as [nick|] eqn:Hn; [|intros [= <-]; cbn; auto].
  destruct (c_name c) as [name|] eqn:Hm; [|intros [= <-]; cbn; auto].
  set (mo := match find_usercfg cfg name with
             | Some uc => match uc_mask uc with Some m => wild_match m (c_source c) | None => true end
             | None => true end).
  destruct mo eqn:Hmo; cbn [negb].
  2: { intros [= <-]. cbn. auto. }
  set (pw := match (match find_usercfg cfg name with Some uc => uc_password uc | None => None end) with
             | Some p => Some p | None => cfg_password cfg end).
  set (good := match pw with
               | Some hash => match c_pass c with Some p => verify p hash | None => false end
               | None => true end).
  destruct good eqn:Hg; cbn [negb].
  2: { intros [= <-]. cbn. auto. }
  destruct (users s !! nick) as [u0|] eqn:Hu.
  { intros [= <-]. cbn. auto. }
  destruct (c_sender_taken c); [discriminate|].
  destruct (lusers_lines _ _) as [lus|]; cbn [rbind]; [|discriminate].
  intros [= <-]. cbn. repeat split; try reflexivity.
  eexists. rewrite st_add_user_users, st_add_user_chans. repeat split; reflexivity.
Qed.

(* registration completes only inside [authenticate], run on the connection's own data as
   updated by one of PASS / NICK / USER / CAP END *)
Lemma process_line_registers s c l r :
  c_auth c = false -> process_line cfg verify i s c l = Ok r -> c_auth (h_conn r) = true ->
  exists c', authenticate cfg verify i s c' = Ok r /\ c_auth c' = false /\ c_host c' = c_host c.
Proof.
  intros Ha. unfold process_line.
  destruct (tokenize l) as [msg|[]]; try (intros [= <-]; cbn; congruence).
  destruct (command_of_message msg) as [cmd|e]; [|intros [= <-]; cbn; congruence].
  rewrite Ha. cbn [negb]. rewrite andb_true_r.
  destruct (needs_registration cmd) eqn:Hn; [intros [= <-]; cbn; congruence|].
  destruct cmd; try discriminate Hn; cbn [dispatch].
  - (* CAP *)
    unfold process_cap. destruct sub.
    + intros [= <-]; cbn; congruence.
    + intros [= <-]; cbn; congruence.
    + destruct caps as [cs|]; [destruct (forallb _ cs)|]; intros [= <-]; cbn; congruence.
    + rewrite Ha. intros H _. eexists. split; [exact H|]. cbn. auto.
  - intros [= <-]; cbn; congruence.
  - unfold process_pass. rewrite Ha. intros H _. eexists. split; [exact H|]. cbn. auto.
  - unfold process_nick. rewrite Ha. cbn [negb].
    destruct (users s !! nickname); [intros [= <-]; cbn; congruence|].
    intros H _. eexists. split; [exact H|]. cbn. auto.
  - unfold process_user. rewrite Ha. intros H _. eexists. split; [exact H|]. cbn. auto.
  - intros [= <-]; cbn; congruence.
Qed.

(* nothing but a completed registration changes the shared state from an unregistered
   connection: refused or incomplete attempts are inert *)
Lemma process_line_unauth_inert s c l r :
  c_auth c = false -> process_line cfg verify i s c l = Ok r -> c_auth (h_conn r) = false ->
  h_sh r = s /\ Forall (fun x => x.1 = i) (h_out r).
Proof.
  intros Ha. unfold process_line.
  assert (forall o, Forall (fun x : nat * str => x.1 = i) (mine cfg i o)) as Hmine.
  { intros o. unfold mine. apply Forall_forall. intros x Hx. apply in_map_iff in Hx as [y [<- _]].
    reflexivity. }
  destruct (tokenize l) as [msg|[]]; try (intros [= <-]; cbn; split; [reflexivity|repeat constructor]).
  destruct (command_of_message msg) as [cmd|e];
    [|intros [= <-]; cbn; split; [reflexivity|repeat constructor]].
  rewrite Ha. cbn [negb]. rewrite andb_true_r.
  destruct (needs_registration cmd) eqn:Hn;
    [intros [= <-]; cbn; split; [reflexivity|repeat constructor]|].
  assert (forall c', c_auth c' = false -> authenticate cfg verify i s c' = Ok r ->
                     c_auth (h_conn r) = false -> h_sh r = s /\ Forall (fun x => x.1 = i) (h_out r))
    as Hauth.
  { intros c' Ha' H Hf. unfold authenticate in H.
    destruct (c_capneg c'); [injection H as <-; cbn; split; [reflexivity|constructor]|].
    destruct (c_nick c') as [nick|]; [|injection H as <-; cbn; split; [reflexivity|constructor]].
    destruct (c_name c') as [name|]; [|injection H as <-; cbn; split; [reflexivity|constructor]].
    destruct (negb _) in H; [injection H as <-; cbn; split; [reflexivity|repeat constructor]|].
    match type of H with (if ?g then _ else _) = _ => destruct g end.
    2: { injection H as <-; cbn; split; [reflexivity|repeat constructor]. }
    destruct (users s !! nick);
      [injection H as <-; cbn; split; [reflexivity|repeat constructor]|].
    destruct (c_sender_taken c'); [discriminate|].
    destruct (lusers_lines _ _); cbn [rbind] in H; [|discriminate].
    injection H as <-. cbn in Hf. discriminate. }
  destruct cmd; try discriminate Hn; cbn [dispatch].
  - unfold process_cap. destruct sub.
    + intros [= <-]; cbn; split; [reflexivity|repeat constructor].
    + intros [= <-]; cbn; split; [reflexivity|repeat constructor].
    + destruct caps as [cs|]; [destruct (forallb _ cs)|]; intros [= <-]; cbn;
        (split; [reflexivity|repeat constructor]).
    + rewrite Ha. apply Hauth. cbn. exact Ha.
  - intros [= <-]; cbn; split; [reflexivity|repeat constructor].
  - unfold process_pass. rewrite Ha. apply Hauth. cbn. exact Ha.
  - unfold process_nick. rewrite Ha. cbn [negb].
    destruct (users s !! nickname); [intros [= <-]; cbn; split; [reflexivity|repeat constructor]|].
    apply Hauth. cbn. exact Ha.
  - unfold process_user. rewrite Ha. apply Hauth. cbn. exact Ha.
  - intros [= <-]; cbn; split; [reflexivity|repeat constructor].
Qed.

End reg.
