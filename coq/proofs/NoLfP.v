(* NoLfP.v - a relayed line contains no line feed.  Every character of every part of a tokenised message (source, command,
   parameters) is a character of the received line; the received line has no LF (FrameP.framed_lines_nolf); so the line the
   relay serialiser builds from the message and an LF-free source has no LF either - the receiver's codec frames it as ONE
   line (FrameP.decode_encode). *)
From IRC Require Import Str Parse Frame.
From IRCP Require Import FrameP.
From Coq Require Import List NArith Bool Lia.
Import ListNotations.
Open Scope N_scope.

Local Arguments lit : simpl never.

Definition okc (c : N) : Prop := N.eqb c LF = false.
Definition clean (s : list N) : Prop := Forall okc s.

Lemma clean_nolf s : clean s <-> nolf s.
Proof.
  unfold clean, nolf, okc. rewrite forallb_forall, Forall_forall. split; intros H x Hx; specialize (H x Hx).
  - now rewrite H. - now apply negb_true_iff in H.
Qed.

Lemma clean_app a b : clean (a ++ b) <-> clean a /\ clean b.
Proof. unfold clean. apply Forall_app. Qed.
Lemma clean_cons c s : clean (c :: s) <-> okc c /\ clean s.
Proof. unfold clean. split; [intros H; inversion H; auto|intros [A B]; constructor; auto]. Qed.
Lemma clean_incl a b : incl a b -> clean b -> clean a.
Proof. unfold clean. intros I H. eapply incl_Forall; eauto. Qed.
Lemma clean_rev s : clean (rev s) <-> clean s.
Proof.
  unfold clean. rewrite !Forall_forall. split; intros H x Hx; apply H; [now apply in_rev in Hx|now apply in_rev].
Qed.

Lemma trim_start_incl s : incl (trim_start s) s.
Proof. induction s as [|c s IH]; cbn; [apply incl_refl|]. destruct (is_unicode_ws c); [now apply incl_tl|apply incl_refl]. Qed.

Lemma find_trailing_clean s : forall prev acc rest last, find_trailing prev s acc = (rest, last) ->
  clean acc -> clean s -> clean rest /\ (forall l, last = Some l -> clean l).
Proof.
  induction s as [|c s IH]; intros prev acc rest last; cbn [find_trailing].
  - intros [= <- <-] Ha _. split; [now apply clean_rev|discriminate].
  - destruct (N.eqb c c_colon && is_ascii_ws prev).
    + intros [= <- <-] Ha Hs. apply clean_cons in Hs as [_ Hs]. split; [now apply clean_rev|]. intros l [= <-]. exact Hs.
    + intros H Ha Hs. apply clean_cons in Hs as [Hc Hs]. eapply IH; eauto. apply clean_cons. auto.
Qed.

Lemma words_aux_clean s : forall cur, clean s -> clean cur -> Forall clean (words_aux s cur).
Proof.
  induction s as [|c s IH]; intros cur Hs Hc; cbn [words_aux].
  - destruct (is_empty cur); [constructor|]. constructor; [now apply clean_rev|constructor].
  - apply clean_cons in Hs as [Hx Hs]. destruct (is_ascii_ws c).
    + destruct (is_empty cur); [apply IH; [exact Hs|constructor]|]. constructor; [now apply clean_rev|]. apply IH; [exact Hs|constructor].
    + apply IH; [exact Hs|]. apply clean_cons. auto.
Qed.

(* every part of a tokenised message is made of characters of the line *)
Theorem tokenize_clean l m : tokenize l = inl m -> clean l ->
  (forall s, m_source m = Some s -> clean s) /\ clean (m_command m) /\ Forall clean (m_params m).
Proof.
  unfold tokenize. intros H Hl. pose proof (clean_incl _ _ (trim_start_incl l) Hl) as Ht.
  destruct (trim_start l) as [|c0 s1]; [discriminate|]. apply clean_cons in Ht as [Hc0 Hs1].
  destruct (find_trailing c0 s1 [c0]) as [rest last] eqn:Ef.
  destruct (find_trailing_clean s1 c0 [c0] rest last Ef) as [Hrest Hlast]; [apply clean_cons; split; [exact Hc0|constructor]|exact Hs1|].
  pose proof (words_aux_clean rest [] Hrest ltac:(constructor)) as Hw. fold (words rest) in Hw.
  assert (Forall clean (match last with Some lp => [lp] | None => [] end)) as Hlp.
  { destruct last as [lp|]; [constructor; [now apply Hlast|constructor]|constructor]. }
  assert (forall src ws, Forall clean ws -> (forall s, src = Some s -> clean s) ->
            match ws with
            | [] => inr MNoCommand
            | cmd :: ps => inl {| m_source := src; m_command := cmd; m_params := ps ++ match last with Some lp => [lp] | None => [] end |}
            end = inl m -> (forall s, m_source m = Some s -> clean s) /\ clean (m_command m) /\ Forall clean (m_params m)) as K.
  { intros src ws Hws Hsrc. destruct ws as [|cmd ps]; [discriminate|]. intros [= <-]. cbn. inversion Hws; subst.
    split; [exact Hsrc|]. split; [assumption|]. apply Forall_app. auto. }
  destruct (N.eqb c0 c_colon).
  - destruct (words rest) as [|w ws'] eqn:Ew; [discriminate|]. inversion Hw; subst.
    destruct (validate_source (tl w)); [|discriminate]. eapply K; [eassumption| |exact H].
    intros s [= <-]. destruct w; [constructor|]. cbn. match goal with Hx : clean (_ :: _) |- _ => apply clean_cons in Hx as [_ Hx]; exact Hx end.
  - eapply K; [exact Hw| |exact H]. discriminate.
Qed.

Lemma clean_lit_sp : clean (lit " :"). Proof. repeat constructor. Qed.

Lemma join_middle_clean ps : Forall clean ps -> clean (fst (join_middle ps)) /\ (forall l, snd (join_middle ps) = Some l -> clean l).
Proof.
  induction ps as [|p ps IH]; intros H; cbn [join_middle]; [split; [constructor|discriminate]|].
  inversion H as [|? ? Hp Hps]; subst. destruct ps as [|q ps'].
  - cbn. split; [constructor|]. intros l [= <-]. exact Hp.
  - destruct (IH Hps) as [A B]. destruct (join_middle (q :: ps')) as [a l0]. cbn [fst snd] in *.
    split; [|exact B]. apply clean_app. split; [|exact A]. apply clean_cons. split; [reflexivity|exact Hp].
Qed.

(* the relay serialiser writes no LF when message and source have none *)
Theorem relay_clean m src : clean src -> clean (m_command m) -> Forall clean (m_params m) -> clean (to_string_with_source m src).
Proof.
  intros Hs Hc Hp. unfold to_string_with_source. destruct (join_middle_clean (m_params m) Hp) as [A B].
  apply clean_app. split; [apply clean_cons; split; [reflexivity|exact Hs]|].
  apply clean_app. split; [apply clean_cons; split; [reflexivity|exact Hc]|].
  destruct (join_middle (m_params m)) as [mid [last|]]; cbn [fst snd] in *; [|exact A].
  apply clean_app. split; [exact A|]. apply clean_app. split; [destruct (needs_trailing last); [exact clean_lit_sp|repeat constructor]|now apply B].
Qed.

(* together: a line received through the codec, re-serialised for relay with an LF-free source, is one LF-free line *)
Theorem relayed_line_nolf pending seg l m src : In (FLine l) (fst (feed pending seg)) -> tokenize l = inl m -> nolf src ->
  nolf (to_string_with_source m src).
Proof.
  intros Hin Ht Hs. apply clean_nolf. pose proof (framed_lines_nolf pending seg l Hin) as Hl. apply clean_nolf in Hl. apply clean_nolf in Hs.
  destruct (tokenize_clean l m Ht Hl) as [_ [Hc Hp]]. now apply relay_clean.
Qed.
