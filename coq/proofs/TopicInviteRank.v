(* TopicInviteRank.v - TOPIC and INVITE obey rank, as whole steps.  A topic that differs after a step was set by a TOPIC
   line of a member who - in the state before the line - was allowed to (no +t, or half-operator and above); a pending
   invitation that is new after a step was written by an INVITE line of a member who - on an invite-only channel - held the
   operator flag, for a user not on the channel. *)
From IRC Require Import Str Wild Glob Mask Parse Reply State Handlers Step.
From IRCP Require Import StrP ChanP InvDefs InvPrims InvNick InvHandlers InvStep Reach NickP OperP ModesFrame RankP
  MembersFrame MembersGlobal TopicFrame TopicGlobal InvitedFrame InvitedGlobal ConnFrame KickGlobal.
From stdpp Require Import gmap.
Open Scope N_scope.

Local Arguments lit : simpl never.

Section global.
Context (cfg : config) (verify : str -> str -> bool).

Theorem topic_changed_only_by_rank w i e w' o cl ch co co' : Inv w -> step cfg verify w i e = Ok (w', o, cl) ->
  chans (sh w) !! ch = Some co -> chans (sh w') !! ch = Some co' -> ch_topic co' <> ch_topic co ->
  exists c l msg t nick rk, conns w !! i = Some c /\ c_auth c = true /\ e = EvLine l /\ tokenize l = inl msg /\
    command_of_message msg = inl (TOPIC ch (Some t)) /\ c_nick c = Some nick /\ ch_users co !! nick = Some rk /\
    topic_allowed co rk = true /\ ch_topic co' = (if is_empty t then None else Some (t, nick)).
Proof.
  intros I H Hco Hco' Hne. pose proof (InvK_of_Inv w I) as K.
  destruct (topic_changes_only_by_topic cfg verify w i e w' o cl I H ch co co' Hco Hco') as [E|[c [l [Hc [-> [A [msg [t [Ht Hcmd]]]]]]]]]; [contradiction|].
  destruct (own_user i (sh w) c (ik_cu w K i c Hc) A) as [nick [uk [Hn [Huk [Hcu [Hon Hg]]]]]].
  assert (process_line cfg verify i (sh w) c l = process_topic cfg i (sh w) c ch t msg) as El.
  { unfold process_line. rewrite Ht, Hcmd, A. reflexivity. }
  destruct (process_line cfg verify i (sh w) c l) as [r|] eqn:Hr.
  2:{ exfalso. unfold step in H. cbn [step_raw] in H. rewrite Hc, Hr in H. discriminate H. }
  symmetry in El. pose proof (topic_keeps cfg i (sh w) c ch t msg r El) as Kp.
  assert (h_quit r = false /\
          (h_sh r = sh w \/ exists t0 rk, t = Some t0 /\ ch_users co !! nick = Some rk /\ topic_allowed co rk = true /\
                                          h_sh r = set_chans (fun cs => <[ch := ch_set_topic (if is_empty t0 then None else Some (t0, nick)) co]> cs) (sh w))) as [Q Cases].
  { assert (forall o0, Ok {| h_sh := sh w; h_conn := c; h_out := o0; h_quit := false |} = Ok r -> h_quit r = false /\ (h_sh r = sh w \/
              exists t0 rk, t = Some t0 /\ ch_users co !! nick = Some rk /\ topic_allowed co rk = true /\
                            h_sh r = set_chans (fun cs => <[ch := ch_set_topic (if is_empty t0 then None else Some (t0, nick)) co]> cs) (sh w))) as Same.
    { intros o0 [= <-]. split; [reflexivity|left; reflexivity]. }
    unfold process_topic in El. rewrite Hon in El. cbn [rbind] in El. destruct t as [t0|].
    - rewrite Hco in El. destruct (ch_users co !! nick) as [rk|] eqn:Hrk; [|eapply Same; exact El].
      destruct (topic_allowed co rk) eqn:Hal; [|eapply Same; exact El].
      destruct (send_all _ _ _); cbn [rbind] in El; [|discriminate]. injection El as <-. cbn. split; [reflexivity|]. right.
      exists t0, rk. auto.
    - rewrite Hco in El. destruct (bool_decide _); [|eapply Same; exact El]. destruct (ch_topic co) as [[t1 w1]|]; eapply Same; exact El. }
  destruct (plain_line_step cfg verify w i l c r w' o cl I H Hc Hr Q Kp) as [Es _].
  rewrite Es in Hco'. destruct Cases as [E|[t0 [rk [-> [Hrk [Hal E]]]]]].
  - exfalso. rewrite E, Hco in Hco'. injection Hco' as <-. contradiction.
  - rewrite E in Hco'. cbn in Hco'. rewrite lookup_insert in Hco'. injection Hco' as <-.
    exists c, l, msg, t0, nick, rk. repeat (split; [assumption || reflexivity|]). reflexivity.
Qed.

Theorem invited_only_by_rank w i e w' o cl n u' n0 u ch : Inv w -> step cfg verify w i e = Ok (w', o, cl) ->
  users (sh w') !! n = Some u' -> users (sh w) !! n0 = Some u -> u_conn u = u_conn u' ->
  ch ∈ u_invited u' -> ch ∉ u_invited u ->
  exists c l msg nick co rk, conns w !! i = Some c /\ c_auth c = true /\ e = EvLine l /\ tokenize l = inl msg /\
    command_of_message msg = inl (INVITE n ch) /\ c_nick c = Some nick /\ chans (sh w) !! ch = Some co /\
    ch_users co !! nick = Some rk /\ (cm_invite_only (ch_modes co) = true -> r_operator rk = true) /\ n ∉ dom (ch_users co).
Proof.
  intros I H Hu' Hu Ho Hin Hnin. pose proof (InvK_of_Inv w I) as K.
  destruct (invitation_gained_only_by_invite cfg verify w i e w' o cl n u' n0 u ch I H Hu' Hu Ho Hin Hnin) as [c [l [msg [Hc [A [-> [Ht Hcmd]]]]]]].
  destruct (own_user i (sh w) c (ik_cu w K i c Hc) A) as [nick [uk [Hn [Huk [Hcu [Hon Hg]]]]]].
  assert (process_line cfg verify i (sh w) c l = process_invite cfg i (sh w) c n ch msg) as El.
  { unfold process_line. rewrite Ht, Hcmd, A. reflexivity. }
  destruct (process_line cfg verify i (sh w) c l) as [r|] eqn:Hr.
  2:{ exfalso. unfold step in H. cbn [step_raw] in H. rewrite Hc, Hr in H. discriminate H. }
  symmetry in El. pose proof (invite_keeps cfg i (sh w) c n ch msg r El) as Kp.
  destruct (process_invite_spec cfg i (sh w) c n ch msg r nick Hn El) as [_ [Q Sp]].
  destruct (plain_line_step cfg verify w i l c r w' o cl I H Hc Hr Q Kp) as [Es _].
  rewrite Es in Hu'.
  (* if the handler left the state alone the invitation would have been there before *)
  assert (h_sh r = sh w -> False) as Same.
  { intros E. rewrite E in Hu'. assert (n = n0) as -> by (eapply (owner_inj w n u' n0 u K); eauto; congruence).
    assert (u' = u) as -> by congruence. contradiction. }
  destruct (chans (sh w) !! ch) as [co|] eqn:Hco; [|exfalso; apply Same; apply Sp].
  destruct (ch_users co !! nick) as [rk|] eqn:Hrk; [|exfalso; apply Same; apply Sp].
  destruct (cm_invite_only (ch_modes co) && negb (r_operator rk)) eqn:Hio; [exfalso; apply Same; apply Sp|].
  destruct (bool_decide (n ∈ dom (ch_users co))) eqn:Hmem; [exfalso; apply Same; apply Sp|].
  apply bool_decide_eq_false in Hmem.
  exists c, l, msg, nick, co, rk. repeat (split; [assumption || reflexivity|]). split; [|exact Hmem].
  intros Hi. rewrite Hi in Hio. cbn in Hio. now apply negb_false_iff in Hio.
Qed.

End global.
