(* InvDefs.v - the global invariant of the server model and counting lemmas. *)
From IRC Require Import Str Wild Glob Mask Parse Reply State Handlers Step.
From IRCP Require Import StrP ChanP.
From stdpp Require Import gmap.
Open Scope N_scope.

(* ---------------------------------------------------------------- counting users with a flag *)
Definition cnt (P : user -> bool) (m : gmap str user) : nat :=
  size (filter (fun kv => P kv.2 = true) m).

Lemma cnt_empty P : cnt P ∅ = 0%nat.
Proof. unfold cnt. now rewrite map_filter_empty, map_size_empty. Qed.

Lemma cnt_insert_new P m k u :
  m !! k = None -> cnt P (<[k := u]> m) = (cnt P m + (if P u then 1 else 0))%nat.
Proof.
  intros Hk. unfold cnt. destruct (P u) eqn:Hp.
  - rewrite map_filter_insert_True by exact Hp.
    rewrite map_size_insert_None; [lia|]. now rewrite map_filter_lookup_None; left.
  - rewrite map_filter_insert_not' ; [lia| cbn; congruence |].
    intros y Hy. congruence.
Qed.

Lemma cnt_delete P m k u :
  m !! k = Some u -> (cnt P (delete k m) + (if P u then 1 else 0))%nat = cnt P m.
Proof.
  intros Hk. unfold cnt. rewrite map_filter_delete. destruct (P u) eqn:Hp.
  - rewrite map_size_delete_Some; [|exists u; now apply map_filter_lookup_Some].
    assert (size (filter (fun kv : str * user => P kv.2 = true) m) <> 0%nat); [|lia].
    intros Hz. apply map_size_empty_inv in Hz.
    assert (filter (fun kv : str * user => P kv.2 = true) m !! k = Some u) as E by now apply map_filter_lookup_Some.
    rewrite Hz in E. now rewrite lookup_empty in E.
  - rewrite map_size_delete_None; [lia|]. apply map_filter_lookup_None. right. intros y Hy.
    rewrite Hk in Hy. injection Hy as <-. cbn. congruence.
Qed.

Lemma cnt_update P m k u u' :
  m !! k = Some u ->
  (cnt P (<[k := u']> m) + (if P u then 1 else 0))%nat = (cnt P m + (if P u' then 1 else 0))%nat.
Proof.
  intros Hk. rewrite <- (insert_delete_insert m k u').
  rewrite cnt_insert_new by apply lookup_delete.
  pose proof (cnt_delete P m k u Hk). lia.
Qed.

Lemma cnt_update_same P m k u u' :
  m !! k = Some u -> P u' = P u -> cnt P (<[k := u']> m) = cnt P m.
Proof. intros Hk Hp. pose proof (cnt_update P m k u u' Hk). rewrite Hp in H. lia. Qed.

Lemma cnt_le_size P m : (cnt P m <= size m)%nat.
Proof.
  induction m as [|k u m Hk IH] using map_ind.
  - rewrite cnt_empty. lia.
  - rewrite cnt_insert_new by exact Hk. rewrite map_size_insert_None by exact Hk.
    destruct (P u); lia.
Qed.

Lemma cnt_pos P m k u : m !! k = Some u -> P u = true -> (1 <= cnt P m)%nat.
Proof. intros Hk Hp. pose proof (cnt_delete P m k u Hk). rewrite Hp in H. lia. Qed.

(* ---------------------------------------------------------------- the invariant on the shared state *)
Definition ranks_ok (co : chan) : Prop :=
  forall l n, n ∈ cm_get_rankset l (ch_modes co) <-> exists r, ch_users co !! n = Some r /\ rank_get l r = true.

Record InvS (s : shared) : Prop := {
  (* one membership relation, stored twice *)
  is_uc : forall n u ch, users s !! n = Some u -> ch ∈ u_chans u ->
            exists co, chans s !! ch = Some co /\ n ∈ dom (ch_users co);
  is_cu : forall ch co n, chans s !! ch = Some co -> n ∈ dom (ch_users co) ->
            exists u, users s !! n = Some u /\ ch ∈ u_chans u;
  (* the five rank lists mirror the member flags *)
  is_rk : forall ch co, chans s !! ch = Some co -> ranks_ok co;
  (* the WALLOPS audience is the set of users with +w *)
  is_wl : forall n, n ∈ wallops s <-> exists u, users s !! n = Some u /\ um_wallops (u_modes u) = true;
  (* the counters *)
  is_ci : inv_count s = N.of_nat (cnt (fun u => um_invisible (u_modes u)) (users s));
  is_co : op_count s = N.of_nat (cnt (fun u => is_local_oper (u_modes u)) (users s));
  (* channels that are not preconfigured have a member *)
  is_ne : forall ch co, chans s !! ch = Some co -> ch_preconf co = false -> ch_users co <> ∅;
}.

(* the acting connection, if registered, owns the user under its nick *)
Definition conn_ok (i : nat) (s : shared) (c : conn) : Prop :=
  c_auth c = true -> exists nick u, c_nick c = Some nick /\ users s !! nick = Some u /\ u_conn u = i.

(* the invariant on the world *)
Record Inv (w : world) : Prop := {
  iw_s : InvS (sh w);
  (* every user is owned by a live, registered connection carrying that nick ... *)
  iw_uc : forall n u, users (sh w) !! n = Some u ->
            exists c, conns w !! u_conn u = Some c /\ c_auth c = true /\ c_nick c = Some n;
  (* ... and every registered connection owns the user under its nick *)
  iw_cu : forall i c, conns w !! i = Some c -> conn_ok i (sh w) c;
  (* the sender pair has been moved into a User exactly for the registered connections *)
  iw_st : forall i c, conns w !! i = Some c -> c_sender_taken c = c_auth c;
  iw_nc : nconns w = N.of_nat (size (conns w));
  (* no KILL is pending between two steps *)
  iw_nk : forall n u, users (sh w) !! n = Some u -> u_kill u = None;
}.

Lemma InvS_init cfg : InvS (shared_init cfg).
Proof.
  assert (forall ch co, chans (shared_init cfg) !! ch = Some co -> exists c, co = chan_of_cfg c) as Hc.
  { intros ch co H. rewrite shared_init_chans in H. destruct (find_last _ _) as [c|]; [|discriminate].
    injection H as <-. eauto. }
  split.
  - intros n u ch H. cbn in H. now rewrite lookup_empty in H.
  - intros ch co n H Hn. destruct (Hc _ _ H) as [c ->]. cbn in Hn. rewrite dom_empty_L in Hn. set_solver.
  - intros ch co H. destruct (Hc _ _ H) as [c ->]. intros l n. cbn. split.
    + destruct l; cbn; set_solver.
    + intros [r [Hr _]]. now rewrite lookup_empty in Hr.
  - intros n. cbn. split; [set_solver|]. intros [u [Hu _]]. now rewrite lookup_empty in Hu.
  - cbn. now rewrite cnt_empty.
  - cbn. now rewrite cnt_empty.
  - intros ch co H. destruct (Hc _ _ H) as [c ->]. cbn. discriminate.
Qed.

Lemma Inv_init cfg : Inv (world_init cfg).
Proof.
  split; cbn.
  - apply InvS_init.
  - intros n u H. now rewrite lookup_empty in H.
  - intros i c H. now rewrite lookup_empty in H.
  - intros i c H. now rewrite lookup_empty in H.
  - now rewrite map_size_empty.
  - intros n u H. now rewrite lookup_empty in H.
Qed.
