(* KillP.v - KILL by an operator disconnects exactly the named user, telling it who did so. *)
From IRC Require Import Str Wild Glob Mask Parse Reply State Handlers Step.
From IRCP Require Import StrP InvDefs InvPrims InvHandlers InvStep Reach OperP.
From stdpp Require Import gmap.
Open Scope N_scope.

Local Arguments lit : simpl never.

Section kill.
Context (cfg : config) (verify : str -> str -> bool).

(* exactly one marked user: exactly one pending KILL *)
Lemma pending_single s t v k cm :
  users s !! t = Some v -> u_kill v = Some (k, cm) ->
  (forall n u, users s !! n = Some u -> n <> t -> u_kill u = None) ->
  pending_kills s = [(u_conn v, k, cm)].
Proof.
  intros Hv Hk Hothers. unfold pending_kills.
  set (g := fun '((_, u) : str * user) => match u_kill u with Some (killer, comment) => Some (u_conn u, killer, comment) | None => None end).
  assert (omap g (map_to_list (users s)) ≡ₚ omap g ((t, v) :: map_to_list (delete t (users s)))) as P.
  { apply omap_Permutation. symmetry. now apply map_to_list_delete. }
  cbn [omap list_omap] in P. unfold g at 2 in P. rewrite Hk in P.
  assert (omap g (map_to_list (delete t (users s))) = []) as E.
  { assert (forall l : list (str * user), (forall x, x ∈ l -> u_kill x.2 = None) -> omap g l = []) as G.
    { induction l as [|[n u] l IH]; intros H; [reflexivity|]. cbn [omap list_omap]. unfold g at 1.
      pose proof (H (n, u) (elem_of_list_here _ _)) as E0. cbn in E0. rewrite E0. apply IH. intros x Hx. apply H. now right. }
    apply G. intros [n u] Hx. apply elem_of_map_to_list in Hx. cbn.
    destruct (decide (n = t)) as [->|Hne]; [now rewrite lookup_delete in Hx|]. rewrite lookup_delete_ne in Hx by congruence. eauto. }
  rewrite E in P. apply Permutation_singleton_r in P. exact P.
Qed.

Theorem kill_effect w i c l msg target comment nick u v w' o cl :
  Inv w -> conns w !! i = Some c -> c_auth c = true -> c_nick c = Some nick ->
  users (sh w) !! nick = Some u -> um_oper (u_modes u) = true ->
  users (sh w) !! target = Some v ->
  tokenize l = inl msg -> command_of_message msg = inl (KILL target comment) ->
  step cfg verify w i (EvLine l) = Ok (w', o, cl) ->
  cl = [u_conn v] /\
  o = [(u_conn v, srv cfg (lit "ERROR :User killed by " ++ nick ++ lit ": " ++ comment))] /\
  users (sh w') = delete target (users (sh w)) /\
  conns w' = delete (u_conn v) (<[i := c]> (conns w)) /\
  (forall ch, ch ∉ u_chans v -> chans (sh w') !! ch = chans (sh w) !! ch).
Proof.
  intros I Hc A Hn Hu Ho Hv Ht Hcmd H. pose proof (InvK_of_Inv w I) as K. pose proof (iw_nk w I) as N0.
  unfold step in H. destruct (step_raw cfg verify w i (EvLine l)) as [[[w1 o1] c1]|] eqn:H1; [|discriminate]. cbn [rbind] in H.
  destruct (step_raw_frame cfg verify w i (EvLine l) w1 o1 c1 K H1) as [K1 _].
  cbn [step_raw] in H1. rewrite Hc in H1. unfold process_line in H1. rewrite Ht, Hcmd in H1. rewrite A in H1. cbn [needs_registration andb negb dispatch] in H1.
  rewrite (kill_spec cfg i (sh w) c nick u target comment Hn Hu), Ho, Hv, (N0 target v Hv) in H1.
  cbn [hr rbind h_quit h_sh h_conn h_out] in H1. injection H1 as <- <- <-.
  set (v' := u_set_kill (Some (nick, comment)) v) in *.
  set (w1 := {| sh := set_users (fun us => <[target := v']> us) (sh w); conns := <[i := c]> (conns w); nconns := nconns w |}) in *.
  assert (pending_kills (sh w1) = [(u_conn v, nick, comment)]) as Hp.
  { assert (u_conn v' = u_conn v) as <- by (destruct v; reflexivity).
    apply (pending_single (sh w1) target v' nick comment); cbn.
    - apply lookup_insert.
    - destruct v; reflexivity.
    - intros n u0 Hu0 Hne. rewrite lookup_insert_ne in Hu0 by congruence. eapply N0; eauto. }
  unfold deliver_kills in H. rewrite Hp in H. cbn [rfold] in H.
  (* the victim's own connection *)
  destruct (ik_uc w1 K1 target v') as [cv [Hcv [Av Hnv]]]; [cbn; apply lookup_insert|].
  assert (u_conn v' = u_conn v) as Ecv by (destruct v; reflexivity). rewrite Ecv in Hcv.
  destruct (teardown_registered w1 (u_conn v) cv target K1 Hcv Av Hnv) as [v2 [w2 [Hv2 [_ [Htd [_ [Hcs [_ [Hus [_ [_ [_ [Hch _]]]]]]]]]]]]].
  rewrite Htd in H. cbn [rbind app] in H. injection H as <- <- <-.
  split; [reflexivity|]. split; [reflexivity|]. split.
  - rewrite Hus. cbn. apply delete_insert_delete.
  - split; [exact Hcs|]. intros ch Hch'. rewrite (Hch ch).
    + reflexivity.
    + cbn in Hv2. rewrite lookup_insert in Hv2. injection Hv2 as <-. destruct v; exact Hch'.
Qed.

End kill.
