(* AuthGlobal.v - "registration needs the right password", for every history.  World invariant: a connection that
   counts as registered carries a user name and a password that verifies against the hash that applies to that name (the
   configured user's, else the server's; none configured: nothing to verify).  It is established by the one place that
   sets the mark ([authenticate]) and kept by everything else: no command of a registered connection touches name,
   password or mark ([ConnFrame.dispatch_conn_fixed]), no step touches another connection's record. *)
From IRC Require Import Str Wild Glob Mask Parse Reply State Handlers Step.
From IRCP Require Import StrP InvDefs InvPrims InvNick InvHandlers InvStep Reach RegP NickP OperP ModesFrame ConnFrame IdentP.
From stdpp Require Import gmap.

Local Arguments lit : simpl never.

Section frame.
Context (cfg : config) (verify : str -> str -> bool) (i : nat).

Definition passed (c : conn) : Prop :=
  c_auth c = true -> exists name, c_name c = Some name /\ password_ok cfg verify c name = true.

Lemma authenticate_passed s c r : c_auth c = false -> authenticate cfg verify i s c = Ok r -> passed (h_conn r).
Proof.
  intros A. unfold authenticate, passed.
  assert (forall o q, Ok {| h_sh := s; h_conn := c; h_out := o; h_quit := q |} = Ok r ->
                      c_auth (h_conn r) = true -> exists name, c_name (h_conn r) = Some name /\ password_ok cfg verify (h_conn r) name = true) as Same.
  { intros o q [= <-]. cbn. congruence. }
  destruct (c_capneg c); [apply Same|].
  destruct (c_nick c) as [nick|]; [|apply Same].
  destruct (c_name c) as [name|] eqn:Hname; [|apply Same].
  destruct (negb _); [apply Same|].
  match goal with |- (if ?g then _ else _) = _ -> _ => destruct g eqn:G end; [|intros [= <-]; cbn; congruence].
  destruct (users s !! nick); [intros [= <-]; cbn; congruence|].
  destruct (c_sender_taken c); [discriminate|].
  destruct (lusers_lines _ _); cbn [rbind]; [|discriminate]. intros [= <-] _. cbn.
  exists name. split; [exact Hname|]. unfold password_ok, applicable_password. cbn. exact G.
Qed.

Lemma line_passed s c l r : InvS s -> conn_ok i s c -> passed c -> process_line cfg verify i s c l = Ok r -> passed (h_conn r).
Proof.
  intros I C P H. destruct (c_auth c) eqn:A.
  - (* registered: name, password and mark are out of reach of every command *)
    assert (forall o, Ok {| h_sh := s; h_conn := c; h_out := o; h_quit := false |} = Ok r -> passed (h_conn r)) as Same.
    { intros o [= <-]. exact P. }
    unfold process_line in H. destruct (tokenize l) as [msg|[| |]] eqn:Ht; try (eapply Same; exact H).
    destruct (command_of_message msg) as [cmd|e] eqn:Hcmd; [|eapply Same; exact H].
    destruct (needs_registration cmd && negb (c_auth c)) eqn:G; [eapply Same; exact H|].
    pose proof (dispatch_conn_fixed cfg verify i s c cmd msg r I C A H) as F. unfold cfixed in F.
    injection F as _ Hn _ Hp _ _ _ _. intros _. destruct (P A) as [name [N1 N2]]. exists name. split; [congruence|].
    unfold password_ok in *. rewrite Hp. exact N2.
  - intros A'. destruct (process_line_registers cfg verify i s c l r A H A') as [c' [Hau [Ha' _]]].
    exact (authenticate_passed s c' r Ha' Hau A').
Qed.

End frame.

Section global.
Context (cfg : config) (verify : str -> str -> bool).

Definition AuthW (w : world) : Prop := forall j c, conns w !! j = Some c -> passed cfg verify c.

Lemma AuthW_init : AuthW (world_init cfg).
Proof. intros j c H. cbn in H. now rewrite lookup_empty in H. Qed.

Theorem step_auth w i e w' o cl : Inv w -> AuthW w -> step cfg verify w i e = Ok (w', o, cl) -> AuthW w'.
Proof.
  intros I W H j c' Hc'. pose proof (InvK_of_Inv w I) as K. unfold step in H.
  destruct (step_raw cfg verify w i e) as [[[w1 o1] c1]|] eqn:H1; [|discriminate]. cbn [rbind] in H.
  destruct (step_raw_frame cfg verify w i e w1 o1 c1 K H1) as [K1 [_ [Hoth [_ [Hcl _]]]]].
  destruct (deliver_kills_ok cfg w1 K1) as [w2 [o2 [c2 [H2 [_ [_ [_ [_ [Hkeep Hgone]]]]]]]]].
  rewrite H2 in H. cbn [rbind] in H. injection H as <- _ _.
  destruct (decide (j ∈ c2)) as [Hin|Hnin]; [rewrite (Hgone j Hin) in Hc'; discriminate|].
  rewrite (Hkeep j Hnin) in Hc'.
  destruct (decide (j = i)) as [->|Hne]; [|rewrite (Hoth j Hne) in Hc'; exact (W j c' Hc')].
  destruct (conns w !! i) as [c|] eqn:Hc.
  - destruct e; cbn [step_raw] in H1; rewrite Hc in H1.
    + injection H1 as <- _ _. rewrite Hc in Hc'. injection Hc' as <-. exact (W i c Hc).
    + destruct (process_line cfg verify i (sh w) c l) as [r|] eqn:Hr; cbn [rbind] in H1; [|discriminate].
      destruct (h_quit r).
      * assert (i ∈ c1) as Hi1.
        { destruct (teardown i _) as [wx|]; cbn [rbind] in H1; [|discriminate]. injection H1 as _ _ <-. left. }
        rewrite (Hcl Hi1) in Hc'. discriminate.
      * injection H1 as <- _ _. cbn in Hc'. rewrite lookup_insert in Hc'. injection Hc' as <-.
        exact (line_passed cfg verify i (sh w) c l r (ik_s w K) (ik_cu w K i c Hc) (W i c Hc) Hr).
    + assert (i ∈ c1) as Hi1 by (destruct (teardown i w) as [wx|]; cbn [rbind] in H1; [|discriminate]; injection H1 as _ _ <-; left).
      rewrite (Hcl Hi1) in Hc'. discriminate.
    + assert (i ∈ c1) as Hi1 by (destruct (teardown i w) as [wx|]; cbn [rbind] in H1; [|discriminate]; injection H1 as _ _ <-; left).
      rewrite (Hcl Hi1) in Hc'. discriminate.
    + assert (i ∈ c1) as Hi1 by (destruct (teardown i w) as [wx|]; cbn [rbind] in H1; [|discriminate]; injection H1 as _ _ <-; left).
      rewrite (Hcl Hi1) in Hc'. discriminate.
    + injection H1 as <- _ _. rewrite Hc in Hc'. injection Hc' as <-. exact (W i c Hc).
    + assert (i ∈ c1) as Hi1 by (destruct (teardown i w) as [wx|]; cbn [rbind] in H1; [|discriminate]; injection H1 as _ _ <-; left).
      rewrite (Hcl Hi1) in Hc'. discriminate.
  - (* no record before the step: only an accepted connection gets one, and it is not registered *)
    destruct e; cbn [step_raw] in H1; rewrite Hc in H1; try (injection H1 as <- _ _; rewrite Hc in Hc'; discriminate).
    destruct (server_quit (sh w)); [injection H1 as <- _ _; rewrite Hc in Hc'; discriminate|].
    match type of H1 with (if ?g then _ else _) = _ => destruct g end; [|injection H1 as <- _ _; rewrite Hc in Hc'; discriminate].
    injection H1 as <- _ _. cbn in Hc'. rewrite lookup_insert in Hc'. injection Hc' as <-. intros F. discriminate F.
Qed.

Theorem reachable_auth w : reachable cfg verify w -> AuthW w.
Proof.
  intros [evs [outs H]]. revert H. generalize (Inv_init cfg) AuthW_init. generalize (world_init cfg). revert outs.
  induction evs as [|[i e] evs IH]; intros outs w0 I0 H0 H; cbn [run] in H.
  - injection H as <- _. exact H0.
  - destruct (step cfg verify w0 i e) as [[[w1 o] cl]|] eqn:Hs; [|discriminate]. cbn [rbind] in H.
    destruct (run cfg verify w1 evs) as [[w2 rest]|] eqn:Hr; [|discriminate]. cbn [rbind] in H. injection H as <- _.
    pose proof (step_auth w0 i e w1 o cl I0 H0 Hs) as H1.
    destruct (step_frame cfg verify w0 i e w1 o cl I0 Hs) as [I1 _]. eapply IH; eauto.
Qed.

(* in every reachable world: whoever is registered holds a password that verifies against the hash that applies to the
   user name it registered under; stated on the user table, which is what every other command consults *)
Theorem registered_users_passed w n u : reachable cfg verify w -> users (sh w) !! n = Some u ->
  exists c, conns w !! u_conn u = Some c /\ c_auth c = true /\ c_nick c = Some n /\ c_name c = Some (u_name u) /\
    match applicable_password cfg (u_name u) with
    | Some hash => exists p, c_pass c = Some p /\ verify p hash = true
    | None => True
    end.
Proof.
  intros R Hu. destruct (reachable_inv cfg verify w R) as [I _].
  destruct (iw_uc w I n u Hu) as [c [Hc [A Hn]]]. exists c. repeat split; try assumption.
  - destruct (reachable_src cfg verify w R) as [_ B]. destruct (B n u Hu) as [c0 [Hc0 [N _]]]. congruence.
  - destruct (reachable_src cfg verify w R) as [_ B]. destruct (B n u Hu) as [c0 [Hc0 [N _]]].
    rewrite Hc in Hc0. injection Hc0 as <-.
    destruct (reachable_auth w R _ c Hc A) as [name [N1 N2]]. rewrite N in N1. injection N1 as <-.
    unfold password_ok in N2. destruct (applicable_password cfg (u_name u)) as [hash|]; [|exact Logic.I].
    destruct (c_pass c) as [p|]; [|discriminate]. exists p. auto.
Qed.

End global.
