(* InvHandlers.v - every command handler returns Ok (no abort site is reached) and preserves the
   invariant, given the invariant, the ownership of the acting connection and - for MODE and
   JOIN - the facts the command parser has checked. *)
From IRC Require Import Str Wild Glob Mask Parse Reply State Handlers Step.
From IRCP Require Import StrP ChanP ClassP ModeP MsgP RankP InvDefs InvPrims InvNick.
From stdpp Require Import gmap.
Open Scope N_scope.

Local Arguments lit : simpl never.

(* what a handler may do to the rest of the world, seen from the ownership relation *)
Definition same_owners (s s' : shared) : Prop :=
  forall n, option_map u_conn (users s' !! n) = option_map u_conn (users s !! n).

Definition conn_same (c c' : conn) : Prop :=
  c_auth c' = c_auth c /\ c_nick c' = c_nick c /\ c_sender_taken c' = c_sender_taken c.

Lemma same_owners_refl s : same_owners s s.
Proof. intros n. reflexivity. Qed.

Lemma same_owners_trans s1 s2 s3 : same_owners s1 s2 -> same_owners s2 s3 -> same_owners s1 s3.
Proof. intros H1 H2 n. now rewrite H2, H1. Qed.

Lemma conn_same_refl c : conn_same c c.
Proof. repeat split. Qed.

Lemma same_owners_upd s n u u' :
  users s !! n = Some u -> u_conn u' = u_conn u ->
  same_owners s (set_users (fun us => <[n := u']> us) s).
Proof.
  intros Hu Hc n0. cbn. destruct (decide (n0 = n)) as [->|Hne].
  - rewrite lookup_insert, Hu. cbn. now rewrite Hc.
  - now rewrite lookup_insert_ne by congruence.
Qed.

Lemma same_owners_some s s' (n : str) : same_owners s s' -> is_Some (users s !! n) -> is_Some (users s' !! n).
Proof.
  intros O [u Hu]. specialize (O n). rewrite Hu in O. destruct (users s' !! n) eqn:E; [eauto|discriminate O].
Qed.

Lemma same_owners_chans s f : same_owners s (set_chans f s).
Proof. intros n. reflexivity. Qed.

Record handled (i : nat) (s : shared) (c : conn) (r : hres) : Prop := {
  hd_inv : InvS (h_sh r);
  hd_own : same_owners s (h_sh r);
  hd_conn : conn_same c (h_conn r);
  hd_ok : conn_ok i (h_sh r) (h_conn r);
}.

Lemma handled_same i s c o : InvS s -> conn_ok i s c -> handled i s c {| h_sh := s; h_conn := c; h_out := o; h_quit := false |}.
Proof. intros I C. split; cbn; [exact I|apply same_owners_refl|apply conn_same_refl|exact C]. Qed.

Lemma conn_ok_own i s s' c :
  conn_ok i s c -> same_owners s s' -> conn_ok i s' c.
Proof.
  intros C O A. destruct (C A) as [nick [u [Hn [Hu Hc]]]]. specialize (O nick). rewrite Hu in O. cbn in O.
  destruct (users s' !! nick) as [u'|] eqn:E; [|discriminate]. injection O as O. exists nick, u'. repeat split; congruence.
Qed.

Section handlers.
Context (cfg : config) (verify : str -> str -> bool) (i : nat).

(* ---------------------------------------------------------------- sending *)
Lemma send_all_ok s ns line :
  (forall n, n ∈ ns -> is_Some (users s !! n)) -> exists o, send_all s ns line = Ok o.
Proof.
  intros H. unfold send_all.
  assert (forall acc, exists o, rfold (fun acc n => let! x := send_to s n line in Ok (acc ++ [x])) ns acc = Ok o) as G; [|apply G].
  induction ns as [|n ns IH]; intros acc; cbn [rfold]; [eauto|].
  unfold send_to at 1, get_user at 1. destruct (H n (elem_of_list_here _ _)) as [u ->]. cbn [rbind].
  apply IH. intros n' Hn'. apply H. now right.
Qed.

Lemma members_are_users s ch co :
  InvS s -> chans s !! ch = Some co -> forall n, n ∈ member_names co -> is_Some (users s !! n).
Proof.
  intros I Hco n Hn. unfold member_names in Hn. apply elem_of_list_fmap in Hn as [[k v] [-> Hkv]].
  apply elem_of_map_to_list in Hkv. destruct (is_cu s I ch co k Hco) as [u [Hu _]]; [now apply elem_of_dom_2 in Hkv|].
  cbn. rewrite Hu. eauto.
Qed.

Lemma filter_members_users s ch co (f : str -> bool) :
  InvS s -> chans s !! ch = Some co -> forall n, n ∈ List.filter f (member_names co) -> is_Some (users s !! n).
Proof.
  intros I Hco n Hn. apply elem_of_list_In, filter_In in Hn as [Hn _]. apply elem_of_list_In in Hn.
  eapply members_are_users; eauto.
Qed.

Lemma lusers_ok s client : InvS s -> exists l, lusers_lines s client = Ok l.
Proof.
  intros I. unfold lusers_lines. rewrite (is_ci s I).
  pose proof (cnt_le_size (fun u => um_invisible (u_modes u)) (users s)).
  destruct (N.ltb_spec (N.of_nat (size (users s))) (N.of_nat (cnt (fun u => um_invisible (u_modes u)) (users s)))); [lia|eauto].
Qed.

Lemma own_user s c : conn_ok i s c -> c_auth c = true ->
  exists nick u, c_nick c = Some nick /\ users s !! nick = Some u /\ u_conn u = i /\ own_nick c = Ok nick /\ get_user s nick = Ok u.
Proof.
  intros C A. destruct (C A) as [nick [u [Hn [Hu Hc]]]]. exists nick, u. unfold own_nick, get_user. rewrite Hn, Hu. auto.
Qed.

(* ---------------------------------------------------------------- NAMES lines *)
Lemma names_lines_ok s c client nick chname co with_end :
  InvS s -> chans s !! chname = Some co -> exists l, names_lines s c client nick chname co with_end = Ok l.
Proof.
  intros I Hco. unfold names_lines. destruct (negb _ || _); [|eauto].
  assert (forall l acc, (forall kv, kv ∈ l -> is_Some (users s !! kv.1)) ->
            exists names, rfold (fun acc '(unick, r) =>
                           let! u := get_user s unick in
                           if negb (um_invisible (u_modes u)) || bool_decide (nick ∈ dom (ch_users co))
                           then Ok (acc ++ [rank_prefix (c_multi c) r ++ unick]) else Ok acc) l acc = Ok names) as Hgen.
  { induction l as [|[k v] l IH]; intros acc H; cbn [rfold]; [eauto|].
    unfold get_user at 1. destruct (H (k, v) (elem_of_list_here _ _)) as [u Hu]. cbn in Hu. rewrite Hu. cbn [rbind].
    destruct (negb _ || _); apply IH; intros kv Hkv; apply H; now right. }
  destruct (Hgen (map_to_list (ch_users co)) []) as [names ->]; [|cbn [rbind]; eauto].
  intros [k v] Hkv. apply elem_of_map_to_list in Hkv. cbn.
  destruct (is_cu s I chname co k Hco) as [u [Hu _]]; [now apply elem_of_dom_2 in Hkv|]. rewrite Hu. eauto.
Qed.

(* ---------------------------------------------------------------- read-only handlers *)
Definition same_result (s : shared) (c : conn) (r : hres) : Prop := h_sh r = s /\ h_conn r = c /\ h_quit r = false.

Lemma handled_of_same s c r : InvS s -> conn_ok i s c -> same_result s c r -> handled i s c r.
Proof.
  intros I C [E1 [E2 _]]. destruct r as [s' c' o q]. cbn in *. subst. split; cbn; [exact I|apply same_owners_refl|apply conn_same_refl|exact C].
Qed.

Lemma process_names_ok s c chs : InvS s -> conn_ok i s c -> c_auth c = true ->
  exists r, process_names cfg i s c chs = Ok r /\ same_result s c r.
Proof.
  intros I C A. destruct (own_user s c C A) as [nick [u [Hn [Hu [_ [Ho _]]]]]].
  unfold process_names. rewrite Ho. cbn [rbind]. destruct (is_empty chs).
  - assert (forall l acc, (forall kv, kv ∈ l -> chans s !! kv.1 = Some kv.2) ->
              exists ls, rfold (fun acc '(cn, co) => let! l := names_lines s c (client_name c) nick cn co false in Ok (acc ++ l)) l acc = Ok ls) as G.
    { induction l as [|[k v] l IH]; intros acc H; cbn [rfold]; [eauto|].
      destruct (names_lines_ok s c (client_name c) nick k v false I (H (k, v) (elem_of_list_here _ _))) as [l0 ->]. cbn [rbind].
      apply IH. intros kv Hkv. apply H. now right. }
    destruct (G (map_to_list (chans s)) []) as [ls ->]; [|cbn [rbind]; eexists; split; [reflexivity|repeat split]].
    intros [k v] Hkv. now apply elem_of_map_to_list in Hkv.
  - assert (forall l acc, exists ls, rfold (fun acc cn => match chans s !! cn with
                        | Some co => let! l := names_lines s c (client_name c) nick cn co true in Ok (acc ++ l)
                        | None => Ok (acc ++ [rpl_endofnames (client_name c) cn]) end) l acc = Ok ls) as G.
    { induction l as [|k l IH]; intros acc; cbn [rfold]; [eauto|].
      destruct (chans s !! k) as [co|] eqn:Hco; cbn [rbind]; [|apply IH].
      destruct (names_lines_ok s c (client_name c) nick k co true I Hco) as [l0 ->]. cbn [rbind]. apply IH. }
    destruct (G chs []) as [ls ->]. cbn [rbind]. eexists. split; [reflexivity|repeat split].
Qed.

Lemma process_who_ok s c mask : InvS s -> conn_ok i s c -> c_auth c = true ->
  exists r, process_who cfg i s c mask = Ok r /\ same_result s c r.
Proof.
  intros I C A. destruct (own_user s c C A) as [nick [u [Hn [Hu [_ [Ho Hg]]]]]].
  unfold process_who. rewrite Ho. cbn [rbind]. rewrite Hg. cbn [rbind].
  destruct (contains c_star mask || contains c_qmark mask); [cbn [rbind]; eexists; split; [reflexivity|repeat split]|].
  destruct (validate_channel mask).
  - destruct (chans s !! mask) as [co|] eqn:Hco; [|cbn [rbind]; eexists; split; [reflexivity|repeat split]].
    destruct (negb _ || _); [|cbn [rbind]; eexists; split; [reflexivity|repeat split]].
    assert (forall l acc, (forall kv, kv ∈ l -> is_Some (users s !! kv.1)) ->
              exists ls, rfold (fun acc '(un, r) => let! u0 := get_user s un in
                                 Ok (acc ++ who_line cfg c (client_name c) (Some (mask, r)) un u0 u)) l acc = Ok ls) as G.
    { induction l as [|[k v] l IH]; intros acc H; cbn [rfold]; [eauto|].
      unfold get_user at 1. destruct (H (k, v) (elem_of_list_here _ _)) as [u0 Hu0]. cbn in Hu0. rewrite Hu0. cbn [rbind].
      apply IH. intros kv Hkv. apply H. now right. }
    destruct (G (map_to_list (ch_users co)) []) as [ls ->]; [|cbn [rbind]; eexists; split; [reflexivity|repeat split]].
    intros [k v] Hkv. apply elem_of_map_to_list in Hkv. cbn.
    destruct (is_cu s I mask co k Hco) as [u0 [Hu0 _]]; [now apply elem_of_dom_2 in Hkv|]. rewrite Hu0. eauto.
  - destruct (validate_username mask); cbn [rbind]; eexists; (split; [reflexivity|repeat split]).
Qed.

Lemma whois_one_ok s c client viewer n : InvS s -> is_Some (users s !! n) ->
  exists l, whois_one cfg s c client viewer n = Ok l.
Proof.
  intros I [u Hu]. unfold whois_one, get_user. rewrite Hu. cbn [rbind].
  destruct (_ && _); [eauto|].
  assert (forall l acc, (forall ch, ch ∈ l -> ch ∈ u_chans u) ->
            exists chs, rfold (fun acc chname => let! co := get_chan s chname in
                       if cm_secret (ch_modes co) then Ok acc else
                       match ch_users co !! n with
                       | Some r => Ok (acc ++ [rank_prefix (c_multi c) r ++ chname])
                       | None => Panic P_unwrap_member end) l acc = Ok chs) as G.
  { induction l as [|k l IH]; intros acc H; cbn [rfold]; [eauto|].
    destruct (is_uc s I n u k Hu (H k (elem_of_list_here _ _))) as [co [Hco Hin]].
    unfold get_chan at 1. rewrite Hco. cbn [rbind].
    destruct (cm_secret (ch_modes co)); cbn [rbind]; [apply IH; intros ch Hch; apply H; now right|].
    apply elem_of_dom in Hin as [r ->]. cbn [rbind]. apply IH. intros ch Hch. apply H. now right. }
  destruct (G (elements (u_chans u)) []) as [chs ->]; [|cbn [rbind]; eauto].
  intros ch Hch. now apply elem_of_elements.
Qed.

Lemma process_whois_ok s c target masks : InvS s -> conn_ok i s c -> c_auth c = true ->
  exists r, process_whois cfg i s c target masks = Ok r /\ same_result s c r.
Proof.
  intros I C A. destruct (own_user s c C A) as [nick [u [Hn [Hu [_ [Ho Hg]]]]]].
  unfold process_whois. destruct target; [eexists; split; [reflexivity|repeat split]|].
  rewrite Ho. cbn [rbind]. rewrite Hg. cbn [rbind].
  match goal with |- context [rfold ?f (elements ?X) []] => set (F := f); set (S := X) end.
  assert (forall l acc, (forall n, n ∈ l -> is_Some (users s !! n)) -> exists body, rfold F l acc = Ok body) as G.
  { induction l as [|k l IH]; intros acc H; cbn [rfold]; [eauto|]. unfold F at 1.
    destruct (whois_one_ok s c (client_name c) u k I (H k (elem_of_list_here _ _))) as [l0 ->]. cbn [rbind].
    apply IH. intros n Hn'. apply H. now right. }
  destruct (G (elements S) []) as [body ->]; [|cbn [rbind]; eexists; split; [reflexivity|repeat split]].
  intros n Hn'. apply elem_of_elements in Hn'. unfold S in Hn'. apply elem_of_union in Hn' as [H|H].
  - apply elem_of_list_to_set, elem_of_list_In, filter_In in H as [_ H]. apply andb_true_iff in H as [_ H].
    destruct (users s !! n); [eauto|discriminate].
  - destruct (is_empty _); [set_solver|]. apply elem_of_list_to_set, elem_of_list_In, filter_In in H as [H _].
    apply elem_of_list_In, elem_of_list_fmap in H as [[k v] [-> Hkv]]. apply elem_of_map_to_list in Hkv. cbn. rewrite Hkv. eauto.
Qed.

Lemma process_wallops_ok s c msg : InvS s -> conn_ok i s c -> c_auth c = true ->
  exists r, process_wallops cfg i s c msg = Ok r /\ same_result s c r.
Proof.
  intros I C A. destruct (own_user s c C A) as [nick [u [Hn [Hu [_ [Ho Hg]]]]]].
  unfold process_wallops. rewrite Ho. cbn [rbind]. rewrite Hg. cbn [rbind].
  destruct (is_local_oper (u_modes u)); [|eexists; split; [reflexivity|repeat split]].
  destruct (send_all_ok s (elements (wallops s)) (to_string_with_source msg (c_source c))) as [o ->].
  { intros n Hn'. apply elem_of_elements, (is_wl s I) in Hn' as [x [Hx _]]. rewrite Hx. eauto. }
  cbn [rbind]. eexists. split; [reflexivity|repeat split].
Qed.

Lemma audience_users s ch co ty : InvS s -> chans s !! ch = Some co ->
  forall n, n ∈ audience ty co -> is_Some (users s !! n).
Proof.
  intros I Hco n Hn. apply audience_elem in Hn. destruct (tt_special ty).
  - assert (exists l, n ∈ cm_get_rankset l (ch_modes co)) as [l Hl].
    { destruct Hn as [[_ H]|[[_ H]|[[_ H]|[[_ H]|[_ H]]]]]; [exists RQ|exists RA|exists RO|exists RH|exists RV]; exact H. }
    apply (is_rk s I ch co Hco) in Hl as [r [Hr _]].
    destruct (is_cu s I ch co n Hco) as [x [Hx _]]; [now apply elem_of_dom_2 in Hr|]. rewrite Hx. eauto.
  - destruct (is_cu s I ch co n Hco Hn) as [x [Hx _]]. rewrite Hx. eauto.
Qed.

Lemma privmsg_one_ok s c nick text notice target : InvS s ->
  exists od, privmsg_one cfg i s c nick text notice target = Ok od.
Proof.
  intros I. unfold privmsg_one. destruct (target_type target) as [ty chs]. destruct (tt_channel ty).
  - destruct (chans s !! chs) as [co|] eqn:Hco; [|eauto]. destruct (can_send co nick (c_source c)); [|eauto].
    match goal with |- context [send_all s ?l ?x] => destruct (send_all_ok s l x) as [o ->] end; [|cbn [rbind]; eauto].
    intros n Hn. apply elem_of_list_In, filter_In in Hn as [Hn _]. apply elem_of_list_In in Hn.
    eapply audience_users; eauto.
  - destruct (users s !! target); eauto.
Qed.

Lemma process_privmsg_ok s c targets text notice : InvS s -> conn_ok i s c -> c_auth c = true ->
  exists r, process_privmsg_notice cfg i s c targets text notice = Ok r /\ same_result s c r.
Proof.
  intros I C A. destruct (own_user s c C A) as [nick [u [Hn [Hu [_ [Ho Hg]]]]]].
  unfold process_privmsg_notice. rewrite Ho. cbn [rbind].
  assert (forall l o d, exists od, rfold (fun '(o, done) target =>
             let! (o1, d1) := privmsg_one cfg i s c nick text notice target in Ok (o ++ o1, done || d1)) l (o, d) = Ok od) as G.
  { induction l as [|t l IH]; intros o d; cbn [rfold]; [eauto|].
    destruct (privmsg_one_ok s c nick text notice t I) as [[o1 d1] ->]. cbn [rbind]. apply IH. }
  destruct (G (dedup_str targets) [] false) as [[o d] ->]. cbn [rbind].
  destruct d; [rewrite Hg; cbn [rbind]|cbn [rbind]]; eexists; (split; [reflexivity|repeat split]).
Qed.

(* ---------------------------------------------------------------- single-record mutators *)
Lemma handled_upd_user s c n u u' o :
  InvS s -> conn_ok i s c -> users s !! n = Some u ->
  u_chans u' = u_chans u -> u_modes u' = u_modes u -> u_conn u' = u_conn u ->
  handled i s c {| h_sh := set_users (fun us => <[n := u']> us) s; h_conn := c; h_out := o; h_quit := false |}.
Proof.
  intros I C Hu Hc Hm Hk. split; cbn.
  - eapply InvS_upd_user; eauto.
  - eapply same_owners_upd; eauto.
  - apply conn_same_refl.
  - eapply conn_ok_own; [exact C|]. eapply same_owners_upd; eauto.
Qed.

Lemma process_away_ok s c text : InvS s -> conn_ok i s c -> c_auth c = true ->
  exists r, process_away cfg i s c text = Ok r /\ handled i s c r.
Proof.
  intros I C A. destruct (own_user s c C A) as [nick [u [Hn [Hu [_ [Ho Hg]]]]]].
  unfold process_away. rewrite Ho. cbn [rbind]. rewrite Hg. cbn [rbind].
  eexists. split; [reflexivity|]. apply (handled_upd_user s c nick u); auto; destruct u; reflexivity.
Qed.

Lemma process_invite_ok s c nickname ch msg : InvS s -> conn_ok i s c -> c_auth c = true ->
  exists r, process_invite cfg i s c nickname ch msg = Ok r /\ handled i s c r.
Proof.
  intros I C A. destruct (own_user s c C A) as [nick [u [Hn [Hu [_ [Ho Hg]]]]]].
  unfold process_invite. rewrite Ho. cbn [rbind].
  destruct (chans s !! ch) as [co|]; [|eexists; split; [reflexivity|apply handled_same; assumption]].
  destruct (ch_users co !! nick); [|eexists; split; [reflexivity|apply handled_same; assumption]].
  destruct (_ && _); [eexists; split; [reflexivity|apply handled_same; assumption]|].
  destruct (bool_decide _); [eexists; split; [reflexivity|apply handled_same; assumption]|].
  destruct (users s !! nickname) as [inv|] eqn:Hi; [|eexists; split; [reflexivity|apply handled_same; assumption]].
  eexists. split; [reflexivity|]. apply (handled_upd_user s c nickname inv); auto; destruct inv; reflexivity.
Qed.

Lemma process_kill_ok s c nickname comment : InvS s -> conn_ok i s c -> c_auth c = true ->
  exists r, process_kill cfg i s c nickname comment = Ok r /\ handled i s c r.
Proof.
  intros I C A. destruct (own_user s c C A) as [nick [u [Hn [Hu [_ [Ho Hg]]]]]].
  unfold process_kill. rewrite Ho. cbn [rbind]. rewrite Hg. cbn [rbind].
  destruct (um_oper (u_modes u)); [|eexists; split; [reflexivity|apply handled_same; assumption]].
  destruct (users s !! nickname) as [v|] eqn:Hv; [|eexists; split; [reflexivity|apply handled_same; assumption]].
  destruct (u_kill v); [eexists; split; [reflexivity|apply handled_same; assumption]|].
  eexists. split; [reflexivity|]. apply (handled_upd_user s c nickname v); auto; destruct v; reflexivity.
Qed.

Lemma cnt_fmap P (f : user -> user) m : (forall u, P (f u) = P u) -> cnt P (f <$> m) = cnt P m.
Proof.
  intros Hf. induction m as [|k u m Hk IH] using map_ind.
  - now rewrite fmap_empty.
  - rewrite fmap_insert. rewrite !cnt_insert_new; [|exact Hk|now rewrite lookup_fmap, Hk]. now rewrite IH, Hf.
Qed.

Lemma InvS_fmap_users s (f : user -> user) :
  InvS s -> (forall u, u_chans (f u) = u_chans u) -> (forall u, u_modes (f u) = u_modes u) ->
  InvS (set_users (fmap f) s).
Proof.
  intros I Hc Hm. destruct I as [Iuc Icu Irk Iwl Ici Ico Ine]. split; cbn; try assumption.
  - intros n u ch H Hch. rewrite lookup_fmap in H. destruct (users s !! n) as [u0|] eqn:E; [|discriminate].
    cbn in H. injection H as <-. rewrite Hc in Hch. eauto.
  - intros ch co n H Hn. destruct (Icu _ _ _ H Hn) as [u [Hu Hch]]. exists (f u). rewrite lookup_fmap, Hu, Hc. auto.
  - intros n. rewrite Iwl, lookup_fmap. split.
    + intros [u [Hu Hw]]. exists (f u). rewrite Hu, Hm. auto.
    + intros [u' [Hu' Hw]]. destruct (users s !! n) as [u|]; [|discriminate]. cbn in Hu'. injection Hu' as <-.
      rewrite Hm in Hw. eauto.
  - rewrite Ici. f_equal. symmetry. apply cnt_fmap. intros u. now rewrite Hm.
  - rewrite Ico. f_equal. symmetry. apply cnt_fmap. intros u. now rewrite Hm.
Qed.

Lemma InvS_server_quit s b : InvS s -> InvS (set_server_quit b s).
Proof. intros [Iuc Icu Irk Iwl Ici Ico Ine]. split; cbn; assumption. Qed.

Lemma process_die_ok s c message : InvS s -> conn_ok i s c -> c_auth c = true ->
  exists r, process_die cfg i s c message = Ok r /\ handled i s c r.
Proof.
  intros I C A. destruct (own_user s c C A) as [nick [u [Hn [Hu [_ [Ho Hg]]]]]].
  unfold process_die. rewrite Ho. cbn [rbind]. rewrite Hg. cbn [rbind].
  destruct (um_oper (u_modes u)); [|eexists; split; [reflexivity|apply handled_same; assumption]].
  eexists. split; [reflexivity|].
  set (f := fun v : user => match u_kill v with None => u_set_kill (Some (nick, default (lit "Quitting from DIE") message)) v | Some _ => v end).
  assert (forall v, u_chans (f v) = u_chans v /\ u_modes (f v) = u_modes v /\ u_conn (f v) = u_conn v) as Hf.
  { intros v. unfold f. destruct v as [a b c0 d e g h ch k [kk|] m]; cbn; auto. }
  assert (same_owners s (set_server_quit true (set_users (fmap f) s))) as Hso.
  { intros n. cbn. rewrite lookup_fmap. destruct (users s !! n) as [v|]; cbn; [|reflexivity]. f_equal. apply Hf. }
  split; cbn.
  - apply InvS_server_quit, InvS_fmap_users; [exact I| |]; intros v; apply Hf.
  - exact Hso.
  - apply conn_same_refl.
  - eapply conn_ok_own; eauto.
Qed.

Lemma process_squit_ok s c server comment : InvS s -> conn_ok i s c -> c_auth c = true ->
  exists r, process_squit cfg i s c server comment = Ok r /\ handled i s c r.
Proof.
  intros I C A. unfold process_squit. destruct (bool_decide _); [now apply process_die_ok|].
  eexists; split; [reflexivity|apply handled_same; assumption].
Qed.

Lemma process_oper_ok s c name password : InvS s -> conn_ok i s c -> c_auth c = true ->
  exists r, process_oper cfg verify i s c name password = Ok r /\ handled i s c r.
Proof.
  intros I C A. destruct (own_user s c C A) as [nick [u [Hn [Hu [Hci [Ho Hg]]]]]].
  unfold process_oper. rewrite Ho. cbn [rbind].
  destruct (find_opercfg cfg name) as [oc|]; [|eexists; split; [reflexivity|apply handled_same; assumption]].
  rewrite Hg. cbn [rbind].
  destruct (negb (verify password (oc_password oc))); [eexists; split; [reflexivity|apply handled_same; assumption]|].
  destruct (negb _); [eexists; split; [reflexivity|apply handled_same; assumption]|].
  eexists. split; [reflexivity|].
  set (m' := {| um_invisible := um_invisible (u_modes u); um_oper := true; um_local_oper := um_local_oper (u_modes u);
                um_registered := um_registered (u_modes u); um_wallops := um_wallops (u_modes u) |}).
  assert (same_owners s (set_users (fun us => <[nick := u_set_modes m' u]> us) s)) as Hso.
  { eapply same_owners_upd; [exact Hu|]. destruct u; reflexivity. }
  split; cbn.
  - eapply (InvS_set_modes s nick u m'); [exact I|exact Hu| | | | |].
    + destruct (is_local_oper (u_modes u)); reflexivity.
    + destruct (is_local_oper (u_modes u)); reflexivity.
    + assert (wallops s = (if um_wallops m' then {[nick]} ∪ wallops s else wallops s ∖ {[nick]})) as E.
      { cbn. destruct (um_wallops (u_modes u)) eqn:W.
        - assert (nick ∈ wallops s) by (apply (is_wl s I); eauto). set_solver.
        - assert (nick ∉ wallops s). { intros H. apply (is_wl s I) in H as [x [Hx Hw]]. rewrite Hu in Hx. injection Hx as <-. congruence. }
          set_solver. }
      destruct (is_local_oper (u_modes u)); exact E.
    + destruct (is_local_oper (u_modes u)); cbn; reflexivity.
    + assert (is_local_oper m' = true) as -> by (unfold is_local_oper; cbn; apply orb_true_r).
      destruct (is_local_oper (u_modes u)) eqn:E; cbn; lia.
  - destruct (is_local_oper (u_modes u)); exact Hso.
  - apply conn_same_refl.
  - eapply conn_ok_own; [exact C|]. destruct (is_local_oper (u_modes u)); exact Hso.
Qed.

(* ---------------------------------------------------------------- a channel record is replaced, same members *)
Lemma InvS_replace_chan s ch co co' :
  InvS s -> chans s !! ch = Some co -> dom (ch_users co') = dom (ch_users co) -> ranks_ok co' ->
  ch_preconf co' = ch_preconf co ->
  InvS (set_chans (fun cs => <[ch := co']> cs) s).
Proof.
  intros I Hco Hd Hrk Hpc. destruct I as [Iuc Icu Irk Iwl Ici Ico Ine]. split; cbn; try assumption.
  - intros n u c0 H Hc0. destruct (Iuc _ _ _ H Hc0) as [co0 [H0 Hn]].
    destruct (decide (c0 = ch)) as [->|Hne].
    + rewrite Hco in H0. injection H0 as <-. exists co'. rewrite lookup_insert, Hd. auto.
    + exists co0. rewrite lookup_insert_ne by congruence. auto.
  - intros c0 co0 n H Hn. destruct (decide (c0 = ch)) as [->|Hne].
    + rewrite lookup_insert in H. injection H as <-. rewrite Hd in Hn. eauto.
    + rewrite lookup_insert_ne in H by congruence. eauto.
  - intros c0 co0 H. destruct (decide (c0 = ch)) as [->|Hne].
    + rewrite lookup_insert in H. injection H as <-. exact Hrk.
    + rewrite lookup_insert_ne in H by congruence. eauto.
  - intros c0 co0 H Hp. destruct (decide (c0 = ch)) as [->|Hne].
    + rewrite lookup_insert in H. injection H as <-. rewrite Hpc in Hp. intros E.
      apply (Ine _ _ Hco Hp). apply map_eq. intros k. rewrite lookup_empty.
      apply not_elem_of_dom. rewrite <- Hd, E, dom_empty_L. set_solver.
    + rewrite lookup_insert_ne in H by congruence. eauto.
Qed.

Lemma process_topic_ok s c ch topic msg : InvS s -> conn_ok i s c -> c_auth c = true ->
  exists r, process_topic cfg i s c ch topic msg = Ok r /\ handled i s c r.
Proof.
  intros I C A. destruct (own_user s c C A) as [nick [u [Hn [Hu [_ [Ho Hg]]]]]].
  unfold process_topic. rewrite Ho. cbn [rbind]. destruct topic as [t|].
  - destruct (chans s !! ch) as [co|] eqn:Hco; [|eexists; split; [reflexivity|apply handled_same; assumption]].
    destruct (ch_users co !! nick) as [rk|]; [|eexists; split; [reflexivity|apply handled_same; assumption]].
    destruct (topic_allowed co rk); [|eexists; split; [reflexivity|apply handled_same; assumption]].
    set (co' := ch_set_topic (if is_empty t then None else Some (t, nick)) co).
    set (s' := set_chans (fun cs => <[ch := co']> cs) s).
    assert (InvS s') as I'.
    { apply (InvS_upd_chan s ch co co'); auto. }
    destruct (send_all_ok s' (member_names co') (to_string_with_source msg (c_source c))) as [o ->].
    { apply (members_are_users s' ch co' I'). cbn. apply lookup_insert. }
    cbn [rbind]. eexists. split; [reflexivity|]. split; cbn.
    + exact I'.
    + apply same_owners_chans.
    + apply conn_same_refl.
    + eapply conn_ok_own; [exact C|apply same_owners_chans].
  - destruct (chans s !! ch) as [co|]; [|eexists; split; [reflexivity|apply handled_same; assumption]].
    destruct (bool_decide _); [|eexists; split; [reflexivity|apply handled_same; assumption]].
    destruct (ch_topic co) as [[t who]|]; eexists; (split; [reflexivity|apply handled_same; assumption]).
Qed.

(* ---------------------------------------------------------------- PART *)
Lemma same_owners_remove s ch nick u s' :
  users s !! nick = Some u -> users s' = <[nick := u_set_chans (fun cs => cs ∖ {[ch]}) u]> (users s) -> same_owners s s'.
Proof.
  intros Hu Hus n. rewrite Hus. destruct (decide (n = nick)) as [->|Hne].
  - rewrite lookup_insert, Hu. destruct u; reflexivity.
  - now rewrite lookup_insert_ne by congruence.
Qed.

Lemma process_part_ok s c chs reason : InvS s -> conn_ok i s c -> c_auth c = true ->
  exists r, process_part cfg i s c chs reason = Ok r /\ handled i s c r.
Proof.
  intros I C A. destruct (own_user s c C A) as [nick [u [Hn [Hu [_ [Ho Hg]]]]]].
  unfold process_part. rewrite Ho. cbn [rbind].
  match goal with |- context [rfold ?f chs (s, [])] => set (F := f) end.
  assert (forall l s0 o0, InvS s0 -> same_owners s s0 ->
            exists s1 o1, rfold F l (s0, o0) = Ok (s1, o1) /\ InvS s1 /\ same_owners s s1) as G.
  { induction l as [|ch l IH]; intros s0 o0 I0 O0; cbn [rfold]; [eauto|]. unfold F at 1.
    destruct (chans s0 !! ch) as [co|] eqn:Hco; [|cbn [rbind]; apply IH; assumption].
    destruct (bool_decide (nick ∈ dom (ch_users co))) eqn:Hb; [|cbn [rbind]; apply IH; assumption].
    apply bool_decide_eq_true in Hb.
    match goal with |- context [send_all s0 ?l ?x] => destruct (send_all_ok s0 l x) as [sent ->] end.
    { eapply members_are_users; eauto. }
    cbn [rbind]. destruct (is_cu s0 I0 ch co nick Hco Hb) as [u0 [Hu0 Hch]].
    destruct (remove_from_channel_ok s0 ch nick u0 I0 Hu0 Hch) as [s1 Hs1]. rewrite Hs1. cbn [rbind].
    destruct (InvS_remove_from_channel s0 ch nick u0 s1 I0 Hu0 Hch Hs1) as [I1 [Hus1 _]].
    apply IH; [exact I1|]. eapply same_owners_trans; [exact O0|]. eapply same_owners_remove; eauto. }
  destruct (G chs s [] I (same_owners_refl s)) as [s1 [o1 [-> [I1 O1]]]]. cbn [rbind].
  pose proof (O1 nick) as On. rewrite Hu in On. cbn in On. unfold get_user.
  destruct (users s1 !! nick) as [u1|]; [|discriminate]. cbn [rbind].
  eexists. split; [reflexivity|]. split; cbn; [exact I1|exact O1|apply conn_same_refl|eapply conn_ok_own; eauto].
Qed.

(* ---------------------------------------------------------------- KICK *)
Lemma kick_removal ch : forall l s0,
  InvS s0 -> NoDup l ->
  (forall v, v ∈ l -> exists co0, chans s0 !! ch = Some co0 /\ v ∈ dom (ch_users co0)) ->
  exists s1, rfold (fun s v => st_remove_user_from_channel ch v s) l s0 = Ok s1 /\ InvS s1 /\ same_owners s0 s1.
Proof.
  induction l as [|v l IH]; intros s0 I0 Hnd Hm; cbn [rfold].
  - exists s0. split; [reflexivity|]. split; [exact I0|apply same_owners_refl].
  - apply NoDup_cons in Hnd as [Hvl Hnd]. destruct (Hm v (elem_of_list_here _ _)) as [co0 [Hco0 Hv]].
    destruct (is_cu s0 I0 ch co0 v Hco0 Hv) as [uv [Huv Hch]].
    destruct (remove_from_channel_ok s0 ch v uv I0 Huv Hch) as [s1 Hs1]. rewrite Hs1. cbn [rbind].
    destruct (InvS_remove_from_channel s0 ch v uv s1 I0 Huv Hch Hs1) as [I1 [Hus1 _]].
    destruct (IH s1 I1 Hnd) as [s2 [Hf [I2 O2]]].
    { intros v' Hv'. destruct (Hm v' (elem_of_list_further _ _ _ Hv')) as [co0' [Hco0' Hv'in]].
      rewrite Hco0 in Hco0'. injection Hco0' as <-.
      assert (v' <> v) by (intros ->; contradiction).
      destruct (other_member_stays ch v s0 s1 co0 v' Hs1 Hco0 Hv'in H) as [co1 [Hco1 Hus]].
      exists co1. split; [exact Hco1|]. rewrite Hus, dom_delete_L. set_solver. }
    exists s2. split; [exact Hf|]. split; [exact I2|].
    eapply same_owners_trans; [|exact O2]. eapply same_owners_remove; eauto.
Qed.

Lemma process_kick_ok s c ch victims comment : InvS s -> conn_ok i s c -> c_auth c = true ->
  exists r, process_kick cfg i s c ch victims comment = Ok r /\ handled i s c r.
Proof.
  intros I C A. destruct (own_user s c C A) as [nick [u [Hn [Hu [_ [Ho Hg]]]]]].
  unfold process_kick. rewrite Ho. cbn [rbind].
  pose proof (kick_decide_spec s nick (client_name c) ch victims) as Sp. cbn zeta in Sp.
  destruct (kick_decide s nick (client_name c) ch victims) as [kicked o1] eqn:Hk.
  assert (NoDup kicked /\ forall v, v ∈ kicked -> exists co0, chans s !! ch = Some co0 /\ v ∈ dom (ch_users co0)) as [Hnd Hm].
  { destruct (chans s !! ch) as [co|] eqn:Hco; [|injection Sp as -> _; split; [apply NoDup_nil_2|intros v Hv; inversion Hv]].
    destruct (ch_users co !! nick) as [rk|]; [|injection Sp as -> _; split; [apply NoDup_nil_2|intros v Hv; inversion Hv]].
    destruct (rk_is_half_operator rk); [|injection Sp as -> _; split; [apply NoDup_nil_2|intros v Hv; inversion Hv]].
    cbn in Sp. destruct Sp as [N E]. split; [exact N|]. intros v Hv. apply E in Hv as [_ [vr [Hvr _]]].
    exists co. split; [reflexivity|]. now apply elem_of_dom_2 in Hvr. }
  destruct (kick_removal ch kicked s I Hnd Hm) as [s' [-> [I' O']]]. cbn [rbind].
  match goal with |- context [rfold ?f kicked []] => set (F := f) end.
  assert (forall l acc, (forall v, v ∈ l -> is_Some (users s' !! v)) -> exists o2, rfold F l acc = Ok o2) as G.
  { induction l as [|v l IH]; intros acc H; cbn [rfold]; [eauto|]. unfold F at 1.
    destruct (chans s' !! ch) as [co|] eqn:Hco.
    - match goal with |- context [send_all s' ?l0 ?x] => destruct (send_all_ok s' l0 x) as [rest ->] end.
      { eapply members_are_users; eauto. }
      cbn [rbind]. unfold send_to, get_user. destruct (H v (elem_of_list_here _ _)) as [uv Huv]. unfold str in *. rewrite Huv. cbn [rbind].
      apply IH. intros v' Hv'. apply H. now right.
    - cbn [rbind]. unfold send_to, get_user. destruct (H v (elem_of_list_here _ _)) as [uv Huv]. unfold str in *. rewrite Huv. cbn [rbind].
      apply IH. intros v' Hv'. apply H. now right. }
  destruct (G kicked []) as [o2 ->].
  { intros v Hv. destruct (Hm v Hv) as [co0 [Hco0 Hvin]]. destruct (is_cu s I ch co0 v Hco0 Hvin) as [uv [Huv _]].
    eapply same_owners_some; [exact O'|]. rewrite Huv. eauto. }
  cbn [rbind]. eexists. split; [reflexivity|].
  split; cbn; [exact I'|exact O'|apply conn_same_refl|eapply conn_ok_own; eauto].
Qed.

(* ---------------------------------------------------------------- JOIN *)
Definition accepted (plan : list (str * (bool * bool))) : list str :=
  omap (fun x : str * (bool * bool) => if x.2.1 then Some x.1 else None) plan.

Definition entry_ok (s : shared) (nick : str) (x : str * (bool * bool)) : Prop :=
  x.2.1 = true ->
  if x.2.2 then chans s !! x.1 = None
  else exists co, chans s !! x.1 = Some co /\ nick ∉ dom (ch_users co).

Lemma join_check_entry s c u nick client ch key j cr o :
  join_check s c u nick client ch key = ((j, cr), o) -> entry_ok s nick (ch, (j, cr)).
Proof.
  unfold join_check, entry_ok. cbn. destruct (chans s !! ch) as [co|] eqn:Hco.
  - repeat match goal with |- context [let '(_, _) := ?x in _] => destruct x as [? ?] eqn:? end.
    intros [= <- <- _] Hj. apply andb_true_iff in Hj as [_ Hj]. apply negb_true_iff, bool_decide_eq_false in Hj. eauto.
  - intros [= <- <- _] _. reflexivity.
Qed.

Lemma join_phase1_ok s c u nick client : forall chs keys idx seen jc,
  (forall ks, keys = Some ks -> length ks = (idx + length chs)%nat) ->
  exists plan o jc', join_phase1 cfg s c u nick client chs keys idx seen jc = Ok (plan, o, jc') /\
    Forall (entry_ok s nick) plan /\ NoDup (accepted plan) /\
    (forall ch, ch ∈ accepted plan -> ~ (existsb (fun '(c0, j) => str_eqb c0 ch && j) seen = true)).
Proof.
  induction chs as [|ch chs IH]; intros keys idx seen jc Hk; cbn [join_phase1].
  - exists [], [], jc. repeat split; [constructor|apply NoDup_nil_2|intros ch H; inversion H].
  - destruct (existsb (fun '(c0, j) => str_eqb c0 ch && j) seen) eqn:Hseen.
    + destruct (IH keys (S idx) (seen ++ [(ch, false)]) jc) as [plan [o [jc' [-> [Hf [Hnd Hs]]]]]].
      { intros ks E. rewrite (Hk ks E). cbn. lia. }
      cbn [rbind]. eexists _, _, _. split; [reflexivity|]. split; [|split].
      * constructor; [intros F; discriminate F|exact Hf].
      * exact Hnd.
      * intros ch' Hch' Hex. apply (Hs ch' Hch'). rewrite existsb_app, Hex. reflexivity.
    + assert (exists key, match keys with None => Ok None
                          | Some ks => match nth_error ks idx with Some k => Ok (Some (Some k)) | None => Panic P_join_key_index end end = Ok key) as [key ->].
      { destruct keys as [ks|]; [|eauto]. specialize (Hk ks eq_refl). destruct (nth_error ks idx) eqn:E; [eauto|].
        apply nth_error_None in E. cbn in Hk. lia. }
      cbn [rbind].
      destruct (join_check s c u nick client ch key) as [[j cr] o1] eqn:Hjc.
      match goal with |- context [let '(do_join, o2) := ?m in _] => destruct m as [dj o2] eqn:Hdj end.
      destruct (IH keys (S idx) (seen ++ [(ch, dj)]) (if dj then jc + 1 else jc)) as [plan [o [jc' [-> [Hf [Hnd Hs]]]]]].
      { intros ks E. rewrite (Hk ks E). cbn. lia. }
      cbn [rbind]. eexists _, _, _. split; [reflexivity|].
      assert (dj = true -> j = true) as Hdjj.
      { destruct (cfg_max_joins cfg); injection Hdj as <- _; [intros H; now apply andb_true_iff in H as [H _]|auto]. }
      split; [|split].
      * constructor; [|exact Hf]. intros Hd. cbn in Hd. pose proof (join_check_entry _ _ _ _ _ _ _ _ _ _ Hjc) as He.
        unfold entry_ok in *. cbn in *. apply He. now apply Hdjj.
      * unfold accepted. cbn [omap]. cbn. destruct dj; [|exact Hnd]. apply NoDup_cons. split; [|exact Hnd].
        intros Hin. apply (Hs ch Hin). rewrite existsb_app. cbn. rewrite (proj2 (str_eqb_eq ch ch) eq_refl). cbn.
        apply orb_true_r.
      * intros ch' Hch' Hex. unfold accepted in Hch'. cbn [omap] in Hch'. cbn in Hch'. destruct dj.
        -- apply elem_of_cons in Hch' as [->|Hch']; [congruence|]. apply (Hs ch' Hch'). rewrite existsb_app, Hex. reflexivity.
        -- apply (Hs ch' Hch'). rewrite existsb_app, Hex. reflexivity.
Qed.

Lemma join_insert_loop nick : forall plan s0 u0,
  InvS s0 -> users s0 !! nick = Some u0 -> NoDup (accepted plan) -> Forall (entry_ok s0 nick) plan ->
  exists s1, rfold (join_insert nick) plan s0 = Ok s1 /\ InvS s1 /\ same_owners s0 s1 /\
    (forall ch, is_Some (chans s0 !! ch) \/ ch ∈ accepted plan -> is_Some (chans s1 !! ch)).
Proof.
  induction plan as [|[ch [j cr]] plan IH]; intros s0 u0 I0 Hu0 Hnd Hf; cbn [rfold].
  - exists s0. split; [reflexivity|]. split; [exact I0|]. split; [apply same_owners_refl|]. intros ch [H|H]; [exact H|inversion H].
  - apply Forall_cons in Hf as [He Hf]. destruct j.
    + unfold accepted in Hnd. cbn in Hnd. apply NoDup_cons in Hnd as [Hnin Hnd].
      unfold join_insert at 1. cbn [negb]. unfold get_user. rewrite Hu0. cbn [rbind].
      set (u1 := u_set_invited (fun v => v ∖ {[ch]}) (u_set_chans (fun cs => {[ch]} ∪ cs) u0)).
      assert (u_chans u1 = {[ch]} ∪ u_chans u0 /\ u_modes u1 = u_modes u0 /\ u_conn u1 = u_conn u0) as [Hc1 [Hm1 Hk1]]
        by (destruct u0; repeat split).
      specialize (He eq_refl). cbn in He. destruct cr.
      * (* create *)
        set (s1 := set_chans (fun cs => <[ch := chan_new nick]> cs) (set_users (fun us => <[nick := u1]> us) s0)).
        assert (InvS s1) as I1 by (apply (InvS_join_create s0 nick u0 ch u1); auto).
        destruct (IH s1 u1 I1) as [s2 [Hr [I2 [O2 Hex]]]]; [cbn; apply lookup_insert|exact Hnd| |].
        { apply Forall_forall. intros [ch' [j' cr']] Hin Hj'. cbn in Hj'. subst j'. cbn.
          assert (ch' <> ch). { intros ->. apply Hnin. unfold accepted. apply elem_of_list_omap. exists (ch, (true, cr')). auto. }
          pose proof (proj1 (Forall_forall _ _) Hf _ Hin eq_refl) as H'. cbn in H'.
          destruct cr'; rewrite lookup_insert_ne by congruence; exact H'. }
        exists s2. split; [exact Hr|]. split; [exact I2|]. split.
        -- eapply same_owners_trans; [|exact O2]. intros n. cbn. destruct (decide (n = nick)) as [->|Hne].
           ++ rewrite lookup_insert, Hu0. cbn [option_map]. now rewrite Hk1.
           ++ now rewrite lookup_insert_ne by congruence.
        -- intros ch' [H|H]; apply Hex.
           ++ left. cbn. destruct (decide (ch' = ch)) as [->|Hne]; [rewrite lookup_insert; eauto|now rewrite lookup_insert_ne by congruence].
           ++ unfold accepted in H. cbn in H. apply elem_of_cons in H as [->|H]; [left; cbn; rewrite lookup_insert; eauto|right; exact H].
      * (* existing channel *)
        destruct He as [co [Hco Hnm]]. unfold get_chan. cbn [chans set_users]. rewrite Hco. cbn [rbind].
        set (s1 := set_chans (fun cs => <[ch := chan_add_user nick co]> cs) (set_users (fun us => <[nick := u1]> us) s0)).
        assert (InvS s1) as I1 by (apply (InvS_join_existing s0 nick u0 ch co u1); auto).
        destruct (IH s1 u1 I1) as [s2 [Hr [I2 [O2 Hex]]]]; [cbn; apply lookup_insert|exact Hnd| |].
        { apply Forall_forall. intros [ch' [j' cr']] Hin Hj'. cbn in Hj'. subst j'. cbn.
          assert (ch' <> ch). { intros ->. apply Hnin. unfold accepted. apply elem_of_list_omap. exists (ch, (true, cr')). auto. }
          pose proof (proj1 (Forall_forall _ _) Hf _ Hin eq_refl) as H'. cbn in H'.
          destruct cr'; rewrite lookup_insert_ne by congruence; exact H'. }
        exists s2. split; [exact Hr|]. split; [exact I2|]. split.
        -- eapply same_owners_trans; [|exact O2]. intros n. cbn. destruct (decide (n = nick)) as [->|Hne].
           ++ rewrite lookup_insert, Hu0. cbn [option_map]. now rewrite Hk1.
           ++ now rewrite lookup_insert_ne by congruence.
        -- intros ch' [H|H]; apply Hex.
           ++ left. cbn. destruct (decide (ch' = ch)) as [->|Hne]; [rewrite lookup_insert; eauto|now rewrite lookup_insert_ne by congruence].
           ++ unfold accepted in H. cbn in H. apply elem_of_cons in H as [->|H]; [left; cbn; rewrite lookup_insert; eauto|right; exact H].
    + cbn [join_insert negb rbind]. apply (IH s0 u0 I0 Hu0 Hnd Hf).
Qed.

Lemma process_join_ok s c chs keys : InvS s -> conn_ok i s c -> c_auth c = true ->
  (forall ks, keys = Some ks -> length ks = length chs) ->
  exists r, process_join cfg i s c chs keys = Ok r /\ handled i s c r.
Proof.
  intros I C A Hk. destruct (own_user s c C A) as [nick [u [Hn [Hu [_ [Ho Hg]]]]]].
  unfold process_join. rewrite Ho. cbn [rbind]. rewrite Hg. cbn [rbind].
  destruct (join_phase1_ok s c u nick (client_name c) chs keys 0 [] (N.of_nat (size (u_chans u))) Hk)
    as [plan [o1 [jc' [-> [Hf [Hnd _]]]]]]. cbn [rbind].
  destruct (join_insert_loop nick plan s u I Hu Hnd Hf) as [s' [-> [I' [O' Hex]]]]. cbn [rbind].
  match goal with |- context [rfold ?f plan []] => set (F := f) end.
  assert (forall l acc, (forall x, x ∈ l -> x.2.1 = true -> is_Some (chans s' !! x.1)) -> exists o2, rfold F l acc = Ok o2) as G.
  { induction l as [|[ch [j cr]] l IH]; intros acc H; cbn [rfold]; [eauto|]. unfold F at 1, join_announce.
    destruct j; cbn [negb].
    - destruct (H (ch, (true, cr)) (elem_of_list_here _ _) eq_refl) as [co Hco]. cbn in Hco.
      unfold get_chan. rewrite Hco. cbn [rbind].
      destruct (names_lines_ok s' c (client_name c) nick ch co true I' Hco) as [names ->]. cbn [rbind].
      match goal with |- context [send_all s' ?l0 ?x] => destruct (send_all_ok s' l0 x) as [others ->] end.
      { eapply filter_members_users; eauto. }
      cbn [rbind]. apply IH. intros x Hx. apply H. now right.
    - cbn [rbind]. apply IH. intros x Hx. apply H. now right. }
  destruct (G plan []) as [o2 ->].
  { intros [ch [j cr]] Hin Hj. cbn in *. subst j. apply Hex. right. unfold accepted. apply elem_of_list_omap.
    exists (ch, (true, cr)). auto. }
  cbn [rbind]. eexists. split; [reflexivity|].
  split; cbn; [exact I'|exact O'|apply conn_same_refl|eapply conn_ok_own; eauto].
Qed.

(* ---------------------------------------------------------------- MODE (channel) *)
Lemma mode_char_ranks_ok c client target nick r ch mode_set args m m' ms' args' :
  ranks_ok (ms_chan m) -> mode_char c client target nick r ch mode_set args m = Ok (m', ms', args') ->
  ranks_ok (ms_chan m').
Proof.
  intros Hr. unfold mode_char.
  repeat match goal with
         | |- context [match ?x with _ => _ end] => destruct x eqn:?
         | |- context [if ?x then _ else _] => destruct x eqn:?
         | |- context [rbind ?x _] => destruct x eqn:?; cbn [rbind]
         end;
  cbn [rbind]; try discriminate;
  try match goal with
      | H : chan_set_rank _ _ _ _ = Ok _ |- _ => apply (ranks_ok_set_rank _ _ _ _ _ Hr) in H
      end;
  intros [= <- <- <-]; cbn; try assumption;
  intros l' n'; destruct l'; apply Hr.
Qed.

Definition suffix_of (a b : list str) : Prop := exists k, a = skipn k b.

Lemma suffix_of_refl a : suffix_of a a.
Proof. exists O. reflexivity. Qed.

Lemma drop_S_tl {A} k (l : list A) : drop (S k) l = drop k (tl l).
Proof. destruct l; [cbn; now rewrite drop_nil|reflexivity]. Qed.

Lemma tl_drop {A} k : forall l : list A, tl (drop k l) = drop k (tl l).
Proof.
  induction k as [|k IH]; intros l; [reflexivity|].
  rewrite !drop_S_tl. apply IH.
Qed.

Lemma suffix_of_tl a b : suffix_of a b -> suffix_of (tl a) (tl b).
Proof. intros [k ->]. exists k. apply tl_drop. Qed.

Lemma suffix_of_tl_l a b : suffix_of a b -> suffix_of (tl a) b.
Proof. intros [k ->]. exists (S k). rewrite tl_drop. symmetry. apply drop_S_tl. Qed.

Lemma suffix_of_cons x a b : suffix_of (x :: a) b -> exists y b', b = y :: b'.
Proof. intros [k H]. destruct b as [|y b']; [rewrite skipn_nil in H; discriminate|eauto]. Qed.

(* a validated mode string never exhausts the argument list of the handler and never fails to
   parse a limit, whatever the actor's rank (the validator and the handler consume arguments
   under different conditions) *)
Lemma mode_chars_ok c client target nick r idx : forall cs mode_set args_v args_h m,
  vcm_chars target idx cs mode_set args_v = None ->
  suffix_of args_v args_h -> (rk_is_half_operator r = true -> args_v = args_h) ->
  exists m', mode_chars c client target nick r cs mode_set args_h m = Ok m'.
Proof.
  induction cs as [|ch cs IH]; intros mode_set args_v args_h m Hv Hs He; cbn [mode_chars]; [eauto|].
  cbn [vcm_chars] in Hv. unfold mode_char.
  destruct (classify_mode ch) eqn:Hc.
  - cbn [rbind]. eapply IH; eauto.
  - cbn [rbind]. eapply IH; eauto.
  - (* list letters *)
    destruct (classify_list ch Hc) as [ll ->].
    destruct args_h as [|mask args_h'].
    + cbn [rbind]. eapply IH; [exact Hv| |].
      * destruct Hs as [k ->]. rewrite skipn_nil. exists O. reflexivity.
      * intros Hh. specialize (He Hh). now subst.
    + destruct (rk_is_half_operator r) eqn:Hh; cbn [rbind]; (eapply IH; [exact Hv|now apply (suffix_of_tl _ (mask :: args_h'))|]);
        intros Hh'; try discriminate; specialize (He eq_refl); now subst.
  - (* rank letters *)
    destruct args_v as [|a args_v']; [discriminate|]. destruct (validate_username_e a); [discriminate|].
    destruct (suffix_of_cons _ _ _ Hs) as [y [args_h' ->]].
    destruct (classify_rank ch Hc) as [rl ->].
    assert (suffix_of args_v' args_h') as Hs' by (apply (suffix_of_tl (a :: args_v') (y :: args_h')); exact Hs).
    assert (rk_is_half_operator r = true -> args_v' = args_h') as He' by (intros Hh; specialize (He Hh); now injection He).
    destruct (rank_may rl r); cbn zeta.
    + destruct (bool_decide (y ∈ dom (ch_users (ms_chan m)))) eqn:Hb.
      * apply bool_decide_eq_true, elem_of_dom in Hb as [rk Hrk].
        unfold chan_set_rank. rewrite Hrk. cbn [rbind]. eapply IH; eauto.
      * cbn [rbind]. eapply IH; eauto.
    + destruct (bool_decide (y ∈ dom (ch_users (ms_chan (ms_add_out [err_chanoprivsneeded client target] m))))); cbn [rbind]; eapply IH; eauto.
  - (* l *)
    destruct (rk_is_half_operator r) eqn:Hh.
    + specialize (He eq_refl). subst args_h. destruct mode_set.
      * destruct args_v as [|a args_v']; [discriminate|]. destruct (parse_uint usize_max a); [|discriminate].
        cbn [rbind]. eapply IH; [exact Hv|apply suffix_of_refl|auto].
      * destruct args_v; [|discriminate]. cbn [rbind]. eapply IH; [exact Hv|apply suffix_of_refl|auto].
    + cbn [rbind]. destruct mode_set.
      * destruct args_v as [|a args_v']; [discriminate|]. destruct (parse_uint usize_max a); [|discriminate].
        eapply IH; [exact Hv|now apply suffix_of_tl_l in Hs|intros; discriminate].
      * destruct args_v; [|discriminate]. eapply IH; [exact Hv|exact Hs|intros; discriminate].
  - (* k *)
    destruct (rk_is_half_operator r) eqn:Hh.
    + specialize (He eq_refl). subst args_h. destruct mode_set.
      * destruct args_v as [|a args_v']; [discriminate|].
        cbn [rbind]. eapply IH; [exact Hv|apply suffix_of_refl|auto].
      * destruct args_v; [|discriminate]. cbn [rbind]. eapply IH; [exact Hv|apply suffix_of_refl|auto].
    + cbn [rbind]. destruct mode_set.
      * destruct args_v as [|a args_v']; [discriminate|].
        eapply IH; [exact Hv|now apply suffix_of_tl_l in Hs|intros; discriminate].
      * destruct args_v; [|discriminate]. eapply IH; [exact Hv|exact Hs|intros; discriminate].
  - destruct (rk_is_half_operator r); cbn [rbind]; eapply IH; eauto.
  - discriminate.
Qed.

Lemma mode_chars_ranks_ok c client target nick r : forall cs mode_set args m m',
  ranks_ok (ms_chan m) -> mode_chars c client target nick r cs mode_set args m = Ok m' -> ranks_ok (ms_chan m').
Proof.
  induction cs as [|ch cs IH]; intros mode_set args m m' Hr; cbn [mode_chars].
  - intros [= <-]. exact Hr.
  - destruct (mode_char c client target nick r ch mode_set args m) as [[[m1 ms1] a1]|] eqn:H1; cbn [rbind]; [|discriminate].
    apply IH. eapply mode_char_ranks_ok; eauto.
Qed.

Lemma vcm_all target : forall modes idx,
  validate_channelmodes target idx modes = None ->
  Forall (fun x : str * list str => exists idx', vcm_chars target idx' x.1 false x.2 = None) modes.
Proof.
  induction modes as [|[ms margs] modes IH]; intros idx; cbn [validate_channelmodes]; [constructor|].
  destruct (is_empty ms); [discriminate|].
  destruct (vcm_chars target idx ms false margs) eqn:E; [discriminate|].
  intros H. constructor; [exists idx; exact E|eapply IH; exact H].
Qed.

Lemma process_mode_channel_ok s c target nick co rk modes :
  InvS s -> conn_ok i s c -> chans s !! target = Some co ->
  Forall (fun x : str * list str => exists idx', vcm_chars target idx' x.1 false x.2 = None) modes ->
  exists r, process_mode_channel cfg i s c target nick co rk modes = Ok r /\ handled i s c r.
Proof.
  intros I C Hco Hval. unfold process_mode_channel.
  destruct (is_empty modes); [eexists; split; [reflexivity|apply handled_same; assumption]|].
  match goal with |- context [rfold ?f modes ?m0] => set (F := f); set (M0 := m0) end.
  assert (forall l m0, Forall (fun x : str * list str => exists idx', vcm_chars target idx' x.1 false x.2 = None) l ->
            ranks_ok (ms_chan m0) ->
            exists m1, rfold F l m0 = Ok m1 /\ ranks_ok (ms_chan m1) /\
              dom (ch_users (ms_chan m1)) = dom (ch_users (ms_chan m0)) /\ ch_preconf (ms_chan m1) = ch_preconf (ms_chan m0)) as G.
  { induction l as [|[ms margs] l IH]; intros m0 Hf Hr; cbn [rfold].
    - exists m0. auto.
    - apply Forall_cons in Hf as [[idx' Hv] Hf]. cbn in Hv. unfold F at 1.
      destruct (mode_chars_ok c (client_name c) target nick rk idx' ms false margs margs m0 Hv (suffix_of_refl _) (fun _ => eq_refl)) as [m1 Hm1].
      rewrite Hm1. cbn [rbind].
      pose proof (mode_chars_ranks_ok _ _ _ _ _ _ _ _ _ _ Hr Hm1) as Hr1.
      pose proof (mode_chars_frame _ _ _ _ _ _ _ _ _ _ Hm1) as [Hd1 [_ [Hp1 _]]].
      destruct (IH m1 Hf Hr1) as [m2 [Hf2 [Hr2 [Hd2 Hp2]]]]. exists m2. split; [exact Hf2|]. split; [exact Hr2|]. split; congruence. }
  destruct (G modes M0 Hval (is_rk s I _ _ Hco)) as [m [-> [Hr [Hd Hp]]]]. cbn [rbind].
  set (s' := set_chans (fun cs => <[target := ms_chan m]> cs) s).
  assert (InvS s') as I' by (apply (InvS_replace_chan s target co (ms_chan m)); auto).
  assert (exists ann, match mode_announcement target m with
                      | Some body => send_all s' (member_names (ms_chan m)) (from (c_source c) body)
                      | None => Ok [] end = Ok ann) as [ann ->].
  { destruct (mode_announcement target m); [|eauto]. apply send_all_ok.
    apply (members_are_users s' target (ms_chan m) I'). cbn. apply lookup_insert. }
  cbn [rbind]. eexists. split; [reflexivity|].
  split; cbn; [exact I'|apply same_owners_chans|apply conn_same_refl|eapply conn_ok_own; [exact C|apply same_owners_chans]].
Qed.

(* ---------------------------------------------------------------- MODE (user) *)
Definition um_virtual (s0 : shared) (nick : str) (u : user) (m : umstate) : shared :=
  set_users (fun us => <[nick := u_set_modes (us_modes m) u]> us) (us_sh m).

Lemma umode_char_ok c client nick u ch mode_set m :
  users (us_sh m) !! nick = Some u -> InvS (set_users (fun us => <[nick := u_set_modes (us_modes m) u]> us) (us_sh m)) ->
  exists m', umode_char c client nick ch mode_set m = Ok m' /\
    users (us_sh m') = users (us_sh m) /\ chans (us_sh m') = chans (us_sh m) /\
    InvS (set_users (fun us => <[nick := u_set_modes (us_modes m') u]> us) (us_sh m')).
Proof.
  intros Hu I. set (sv := set_users (fun us => <[nick := u_set_modes (us_modes m) u]> us) (us_sh m)) in *.
  assert (users sv !! nick = Some (u_set_modes (us_modes m) u)) as Huv by (cbn; apply lookup_insert).
  assert (u_modes (u_set_modes (us_modes m) u) = us_modes m) as Em by (destruct u; reflexivity).
  (* any new mode record with matching counters and audience keeps the invariant *)
  assert (forall m' s', users s' = users (us_sh m) -> chans s' = chans (us_sh m) ->
            wallops s' = (if um_wallops m' then {[nick]} ∪ wallops (us_sh m) else wallops (us_sh m) ∖ {[nick]}) ->
            (inv_count s' + (if um_invisible (us_modes m) then 1 else 0) = inv_count (us_sh m) + (if um_invisible m' then 1 else 0))%N ->
            (op_count s' + (if is_local_oper (us_modes m) then 1 else 0) = op_count (us_sh m) + (if is_local_oper m' then 1 else 0))%N ->
            InvS (set_users (fun us => <[nick := u_set_modes m' u]> us) s')) as Hgen.
  { intros m' s' Hus Hcs Hw Hi Ho.
    eapply (InvS_set_modes sv nick (u_set_modes (us_modes m) u) m'); [exact I|exact Huv| | | | |]; cbn.
    - rewrite Hus, insert_insert. f_equal; try (destruct u; reflexivity).
    - exact Hcs.
    - exact Hw.
    - rewrite ?Em. exact Hi.
    - rewrite ?Em. exact Ho. }
  pose proof (is_ci sv I) as Hci. pose proof (is_co sv I) as Hcoo. cbn in Hci, Hcoo.
  pose proof (cnt_pos (fun u => um_invisible (u_modes u)) _ _ _ Huv) as Hpi. cbn in Hpi. rewrite ?Em in Hpi.
  pose proof (cnt_pos (fun u => is_local_oper (u_modes u)) _ _ _ Huv) as Hpo. cbn in Hpo. rewrite ?Em in Hpo.
  assert (nick ∈ wallops (us_sh m) <-> um_wallops (us_modes m) = true) as Hwl.
  { pose proof (is_wl sv I nick) as Hw0. cbn in Hw0. rewrite lookup_insert in Hw0. rewrite Hw0. split.
    - intros [x [[= <-] H]]. destruct u; exact H.
    - intros H. eexists. split; [reflexivity|]. destruct u; exact H. }
  unfold umode_char, dec_counter.
  destruct (us_modes m) as [mi mo mlo mr mw] eqn:Hmodes. cbn [um_invisible um_oper um_local_oper um_registered um_wallops] in *.
  assert (forall m0 : umstate, m0 = m ->
            exists m', Ok m0 = Ok m' /\ users (us_sh m') = users (us_sh m) /\ chans (us_sh m') = chans (us_sh m) /\
                       InvS (set_users (fun us => <[nick := u_set_modes (us_modes m') u]> us) (us_sh m'))) as Same.
  { intros m0 ->. exists m. split; [reflexivity|]. split; [reflexivity|]. split; [reflexivity|]. rewrite Hmodes. exact I. }
  assert (forall um' s' st un o, 
            InvS (set_users (fun us => <[nick := u_set_modes um' u]> us) s') -> users s' = users (us_sh m) -> chans s' = chans (us_sh m) ->
            exists m', Ok {| us_modes := um'; us_sh := s'; us_set := st; us_unset := un; us_out := o |} = Ok m' /\
                       users (us_sh m') = users (us_sh m) /\ chans (us_sh m') = chans (us_sh m) /\
                       InvS (set_users (fun us => <[nick := u_set_modes (us_modes m') u]> us) (us_sh m'))) as Upd.
  { intros um' s' st un o H1 H2 H3. eexists. split; [reflexivity|]. cbn. auto. }
  assert (forall A B : gset str, nick ∈ A -> A = {[nick]} ∪ A) as Hin1 by (intros; set_solver).
  destruct (N.eqb ch 105).
  { (* i *) destruct mode_set, mi; cbn [rbind]; try (apply Same; reflexivity).
    - apply Upd; [|reflexivity|reflexivity]. apply Hgen; cbn; try reflexivity; try lia.
      destruct mw; [apply Hin1; [exact ∅|now apply Hwl]|]. apply set_eq. intros x. rewrite elem_of_difference, elem_of_singleton.
      split; [intros H; split; [exact H|]; intros ->; apply Hwl in H; discriminate|tauto].
    - destruct (N.eqb_spec (inv_count (us_sh m)) 0) as [Z|NZ]; [exfalso; specialize (Hpi eq_refl); lia|]. cbn [rbind].
      apply Upd; [|reflexivity|reflexivity]. apply Hgen; cbn; try reflexivity; try lia.
      destruct mw; [apply Hin1; [exact ∅|now apply Hwl]|]. apply set_eq. intros x. rewrite elem_of_difference, elem_of_singleton.
      split; [intros H; split; [exact H|]; intros ->; apply Hwl in H; discriminate|tauto]. }
  destruct (N.eqb ch 114).
  { (* r *) destruct mode_set, mr; cbn [rbind]; try (apply Same; reflexivity).
    - destruct (c_registered c); (apply Upd; [|reflexivity|reflexivity]); [|first [exact I|rewrite <- Hmodes; exact I]].
      apply Hgen; cbn; try reflexivity; try lia.
      destruct mw; [apply Hin1; [exact ∅|now apply Hwl]|]. apply set_eq. intros x. rewrite elem_of_difference, elem_of_singleton.
      split; [intros H; split; [exact H|]; intros ->; apply Hwl in H; discriminate|tauto].
    - apply Upd; [|reflexivity|reflexivity]. apply Hgen; cbn; try reflexivity; try lia.
      destruct mw; [apply Hin1; [exact ∅|now apply Hwl]|]. apply set_eq. intros x. rewrite elem_of_difference, elem_of_singleton.
      split; [intros H; split; [exact H|]; intros ->; apply Hwl in H; discriminate|tauto]. }
  destruct (N.eqb ch 119).
  { (* w *) destruct mode_set, mw; cbn [rbind]; try (apply Same; reflexivity).
    - apply Upd; [|reflexivity|reflexivity]. apply Hgen; cbn; try reflexivity; lia.
    - apply Upd; [|reflexivity|reflexivity]. apply Hgen; cbn; try reflexivity; lia. }
  destruct (N.eqb ch 111).
  { (* o *) destruct mode_set, mo; cbn [rbind]; try (apply Same; reflexivity).
    - apply Upd; [|reflexivity|reflexivity]. first [exact I|rewrite <- Hmodes; exact I].
    - destruct mlo; cbn [rbind].
      + apply Upd; [|reflexivity|reflexivity]. apply Hgen; cbn; try reflexivity; try lia.
        destruct mw; [apply Hin1; [exact ∅|now apply Hwl]|]. apply set_eq. intros x. rewrite elem_of_difference, elem_of_singleton.
        split; [intros H; split; [exact H|]; intros ->; apply Hwl in H; discriminate|tauto].
      + destruct (N.eqb_spec (op_count (us_sh m)) 0) as [Z|NZ]; [exfalso; specialize (Hpo eq_refl); lia|]. cbn [rbind].
        apply Upd; [|reflexivity|reflexivity]. apply Hgen; cbn; try reflexivity; try lia.
        destruct mw; [apply Hin1; [exact ∅|now apply Hwl]|]. apply set_eq. intros x. rewrite elem_of_difference, elem_of_singleton.
        split; [intros H; split; [exact H|]; intros ->; apply Hwl in H; discriminate|tauto]. }
  destruct (N.eqb ch 79).
  { (* O *) destruct mode_set.
    - destruct mlo; cbn [rbind]; [apply Same; reflexivity|]. apply Upd; [|reflexivity|reflexivity]. first [exact I|rewrite <- Hmodes; exact I].
    - unfold is_local_oper in *. cbn [um_local_oper um_oper] in *.
      destruct (mlo || mo) eqn:Hop; cbn [rbind]; [|apply Same; reflexivity].
      destruct (N.eqb_spec (op_count (us_sh m)) 0) as [Z|NZ]; [exfalso; specialize (Hpo eq_refl); lia|]. cbn [rbind].
      apply Upd; [|reflexivity|reflexivity]. apply Hgen; cbn; try reflexivity; try lia.
      destruct mw; [apply Hin1; [exact ∅|now apply Hwl]|]. apply set_eq. intros x. rewrite elem_of_difference, elem_of_singleton.
      split; [intros H; split; [exact H|]; intros ->; apply Hwl in H; discriminate|tauto]. }
  apply Same. reflexivity.
Qed.

Lemma umode_chars_ok c client nick u : forall cs mode_set m,
  users (us_sh m) !! nick = Some u -> InvS (set_users (fun us => <[nick := u_set_modes (us_modes m) u]> us) (us_sh m)) ->
  exists m', umode_chars c client nick cs mode_set m = Ok m' /\
    users (us_sh m') = users (us_sh m) /\ chans (us_sh m') = chans (us_sh m) /\
    InvS (set_users (fun us => <[nick := u_set_modes (us_modes m') u]> us) (us_sh m')).
Proof.
  induction cs as [|ch cs IH]; intros mode_set m Hu I; cbn [umode_chars].
  - exists m. auto.
  - destruct (N.eqb ch c_plus); [apply IH; assumption|]. destruct (N.eqb ch c_minus); [apply IH; assumption|].
    destruct (umode_char_ok c client nick u ch mode_set m Hu I) as [m1 [-> [Hus1 [Hcs1 I1]]]]. cbn [rbind].
    destruct (IH mode_set m1) as [m2 [Hm2 [Hus2 [Hcs2 I2]]]]; [now rewrite Hus1|exact I1|].
    exists m2. split; [exact Hm2|]. split; [congruence|]. split; [congruence|exact I2].
Qed.

Lemma process_mode_user_ok s c nick u modes : InvS s -> conn_ok i s c -> users s !! nick = Some u -> u_conn u = i ->
  exists r, process_mode_user cfg i s c nick modes = Ok r /\ handled i s c r.
Proof.
  intros I C Hu Hc. unfold process_mode_user, get_user. rewrite Hu. cbn [rbind].
  destruct (is_empty modes); [eexists; split; [reflexivity|apply handled_same; assumption]|].
  match goal with |- context [rfold ?f modes ?m0] => set (F := f); set (M0 := m0) end.
  assert (forall l m, users (us_sh m) !! nick = Some u ->
            InvS (set_users (fun us => <[nick := u_set_modes (us_modes m) u]> us) (us_sh m)) ->
            exists m', rfold F l m = Ok m' /\ users (us_sh m') = users (us_sh m) /\
              InvS (set_users (fun us => <[nick := u_set_modes (us_modes m') u]> us) (us_sh m'))) as G.
  { induction l as [|[mc ma] l IH]; intros m Hum Im; cbn [rfold]; [exists m; auto|]. unfold F at 1.
    destruct (umode_chars_ok c (client_name c) nick u mc false m Hum Im) as [m1 [-> [Hus1 [_ I1]]]]. cbn [rbind].
    destruct (IH m1) as [m2 [Hm2 [Hus2 I2]]]; [now rewrite Hus1|exact I1|].
    exists m2. split; [exact Hm2|]. split; [congruence|exact I2]. }
  destruct (G modes M0) as [m [-> [Hus Im]]]; [exact Hu| |].
  { unfold M0. cbn. assert (u_set_modes (u_modes u) u = u) as -> by (destruct u; reflexivity).
    apply (InvS_upd_user s nick u u I Hu eq_refl eq_refl). }
  cbn [rbind]. eexists. split; [reflexivity|].
  assert (same_owners s (set_users (fun us => <[nick := u_set_modes (us_modes m) u]> us) (us_sh m))) as Hso.
  { intros n. cbn. rewrite Hus. cbn. destruct (decide (n = nick)) as [->|Hne].
    - rewrite lookup_insert, Hu. destruct u; reflexivity.
    - now rewrite lookup_insert_ne by congruence. }
  split; cbn; [exact Im|exact Hso|apply conn_same_refl|eapply conn_ok_own; eauto].
Qed.

Lemma process_mode_ok s c target modes : InvS s -> conn_ok i s c -> c_auth c = true ->
  (validate_channel target = true -> validate_channelmodes target 1 modes = None) ->
  exists r, process_mode cfg i s c target modes = Ok r /\ handled i s c r.
Proof.
  intros I C A Hval. destruct (own_user s c C A) as [nick [u [Hn [Hu [Hc [Ho Hg]]]]]].
  unfold process_mode. rewrite Ho. cbn [rbind]. destruct (validate_channel target).
  - destruct (chans s !! target) as [co|] eqn:Hco; [|eexists; split; [reflexivity|apply handled_same; assumption]].
    destruct (ch_users co !! nick) as [rk|]; [|eexists; split; [reflexivity|apply handled_same; assumption]].
    apply process_mode_channel_ok; auto. eapply vcm_all. apply Hval. reflexivity.
  - destruct (bool_decide (nick = target)) eqn:Hb.
    + apply process_mode_user_ok with (u := u); auto.
    + destruct (users s !! target); eexists; (split; [reflexivity|apply handled_same; assumption]).
Qed.

(* ---------------------------------------------------------------- NICK of a registered user *)
Lemma process_nick_reg_ok s c nick msg : InvS s -> conn_ok i s c -> c_auth c = true ->
  exists r, process_nick cfg verify i s c nick msg = Ok r /\ InvS (h_sh r) /\ h_quit r = false /\
    c_auth (h_conn r) = true /\ c_sender_taken (h_conn r) = c_sender_taken c /\ conn_ok i (h_sh r) (h_conn r) /\
    (* ownership: everybody else keeps key and owner, the actor's user is re-keyed *)
    (exists old, c_nick c = Some old /\
       ((h_sh r = s /\ h_conn r = c) \/
        (c_nick (h_conn r) = Some nick /\ nick <> old /\ users s !! nick = None /\
         forall n, option_map u_conn (users (h_sh r) !! n) =
                   if decide (n = nick) then Some i else if decide (n = old) then None else option_map u_conn (users s !! n)))).
Proof.
  intros I C A. destruct (own_user s c C A) as [old [u [Hn [Hu [Hc [Ho Hg]]]]]].
  unfold process_nick. rewrite A. cbn [negb]. rewrite Ho. cbn [rbind].
  destruct (bool_decide (nick = old)) eqn:Hb.
  { eexists. split; [reflexivity|]. cbn [h_sh h_conn h_quit]. split; [exact I|]. split; [reflexivity|]. split; [exact A|]. split; [reflexivity|]. split; [exact C|]. exists old. split; [exact Hn|]. left. split; reflexivity. }
  apply bool_decide_eq_false in Hb.
  destruct (users s !! nick) as [x|] eqn:Hnew.
  { eexists. split; [reflexivity|]. cbn [h_sh h_conn h_quit]. split; [exact I|]. split; [reflexivity|]. split; [exact A|]. split; [reflexivity|]. split; [exact C|]. exists old. split; [exact Hn|]. left. split; reflexivity. }
  rewrite Hg. cbn [rbind].
  set (u' := u_set_source (c_source (c_with_nick nick c)) u).
  assert (u_chans u' = u_chans u /\ u_modes u' = u_modes u /\ u_conn u' = u_conn u) as [Hc' [Hm' Hk']] by (destruct u; repeat split).
  set (s0 := set_users (delete old) s).
  destruct (fold_rename old nick (elements (u_chans u')) s0 (NoDup_elements _)) as [s1 [Hf [Hcs1 [Hus1 [Hw1 [Hi1 [Ho1 [Hm1 [Hh1 Hq1]]]]]]]]].
  { intros ch Hch. apply elem_of_elements in Hch. rewrite Hc' in Hch. destruct (is_uc s I _ _ _ Hu Hch) as [co [Hco Hin]]. eauto. }
  unfold rename_step in Hf. rewrite Hf. cbn [rbind].
  eexists. split; [reflexivity|]. cbn [h_sh h_conn h_quit].
  match goal with |- InvS ?sf /\ _ => set (sfin := sf) end.
  assert (users sfin = <[nick := u']> (delete old (users s))) as Husf.
  { unfold sfin. destruct (bool_decide _); cbn; now rewrite Hus1. }
  assert (InvS sfin) as If.
  { apply (InvS_rename s old nick u u' sfin I Hu Hnew Hb Hc' Hm').
    - intros ch.
      assert (bool_decide (ch ∈ elements (u_chans u')) = bool_decide (ch ∈ u_chans u)) as Eb.
      { apply bool_decide_ext. rewrite elem_of_elements, Hc'. reflexivity. }
      unfold sfin. destruct (bool_decide (old ∈ _)); cbn; rewrite Hcs1, Eb; reflexivity.
    - exact Husf.
    - unfold sfin. cbn. rewrite Hw1. cbn. destruct (bool_decide (old ∈ wallops s)); cbn; now rewrite ?Hw1.
    - unfold sfin. destruct (bool_decide _); cbn; now rewrite Hi1.
    - unfold sfin. destruct (bool_decide _); cbn; now rewrite Ho1. }
  split; [exact If|]. split; [reflexivity|]. split; [exact A|]. split; [reflexivity|].
  split.
  { intros _. exists nick, u'. cbn. split; [reflexivity|]. split; [|congruence]. rewrite Husf. apply lookup_insert. }
  exists old. split; [exact Hn|]. right. split; [reflexivity|]. split; [exact Hb|]. split; [reflexivity|].
  intros n. rewrite Husf. destruct (decide (n = nick)) as [->|Hnn].
  - rewrite lookup_insert. cbn. congruence.
  - rewrite lookup_insert_ne by congruence. destruct (decide (n = old)) as [->|Hno].
    + now rewrite lookup_delete.
    + now rewrite lookup_delete_ne by congruence.
Qed.

(* ---------------------------------------------------------------- registration *)
(* what a step of an unregistered connection can be: nothing but its own record changes, or its
   registration completes and exactly its own user appears *)
Definition unauth_result (s : shared) (r : hres) : Prop :=
  (h_sh r = s /\ c_auth (h_conn r) = false /\ c_sender_taken (h_conn r) = false) \/
  (exists nick u, c_nick (h_conn r) = Some nick /\ c_auth (h_conn r) = true /\ c_sender_taken (h_conn r) = true /\
     users s !! nick = None /\ users (h_sh r) = <[nick := u]> (users s) /\ u_conn u = i /\ u_kill u = None /\
     h_quit r = false /\ InvS (h_sh r)).

Lemma authenticate_ok s c : InvS s -> c_auth c = false -> c_sender_taken c = false ->
  exists r, authenticate cfg verify i s c = Ok r /\ unauth_result s r.
Proof.
  intros I A T. unfold authenticate.
  destruct (c_capneg c); [eexists; split; [reflexivity|left; cbn; auto]|].
  destruct (c_nick c) as [nick|] eqn:Hn; [|eexists; split; [reflexivity|left; cbn; auto]].
  destruct (c_name c) as [name|] eqn:Hm; [|eexists; split; [reflexivity|left; cbn; auto]].
  destruct (negb _); [eexists; split; [reflexivity|left; cbn; auto]|].
  match goal with |- context [if ?g then _ else _] => destruct g end.
  2: { eexists; split; [reflexivity|left; cbn; auto]. }
  destruct (users s !! nick) as [x|] eqn:Hu; [eexists; split; [reflexivity|left; cbn; auto]|].
  rewrite T.
  match goal with |- context [st_add_user nick ?u0 s] => set (u := u0) end.
  assert (InvS (st_add_user nick u s)) as I' by (apply InvS_add_user; auto).
  destruct (lusers_ok (st_add_user nick u s) (client_name (c_with_auth true (match find_usercfg cfg name with Some _ => true | None => false end) true c)) I') as [lus Hl].
  rewrite Hl. cbn [rbind]. eexists. split; [reflexivity|]. right. exists nick, u. cbn.
  destruct (st_add_user_fields nick u s) as [Hus _].
  split; [cbn; exact Hn|]. split; [reflexivity|]. split; [reflexivity|]. split; [exact Hu|]. split; [exact Hus|].
  split; [reflexivity|]. split; [reflexivity|]. split; [reflexivity|exact I'].
Qed.

Lemma unauth_line_ok s c cmd msg : InvS s -> c_auth c = false -> c_sender_taken c = false ->
  needs_registration cmd = false ->
  exists r, dispatch cfg verify i s c cmd msg = Ok r /\ unauth_result s r.
Proof.
  intros I A T Hn. destruct cmd; try discriminate Hn; cbn [dispatch].
  - unfold process_cap. destruct sub.
    + eexists; split; [reflexivity|left; cbn; auto].
    + eexists; split; [reflexivity|left; cbn; auto].
    + destruct caps as [cs|]; [destruct (forallb _ cs)|]; eexists; (split; [reflexivity|left; cbn; auto]).
    + rewrite A. apply authenticate_ok; auto.
  - eexists; split; [reflexivity|left; cbn; auto].
  - unfold process_pass. rewrite A. apply authenticate_ok; auto.
  - unfold process_nick. rewrite A. cbn [negb]. destruct (users s !! nickname); [eexists; split; [reflexivity|left; cbn; auto]|].
    apply authenticate_ok; auto.
  - unfold process_user. rewrite A. apply authenticate_ok; auto.
  - eexists; split; [reflexivity|left; cbn; auto].
Qed.

(* ---------------------------------------------------------------- facts the parser guarantees *)
Lemma parsed_join_keys msg chs ks : command_of_message msg = inl (JOIN chs (Some ks)) -> length ks = length chs.
Proof.
  unfold command_of_message. destruct (parse_command msg) as [c0|e] eqn:Hp; [|discriminate].
  destruct (validate_command c0); [discriminate|]. intros [= ->].
  unfold parse_command in Hp. destruct (verb_of_name _) as [v|]; [|discriminate].
  destruct v; try discriminate; repeat match type of Hp with
    | match ?x with _ => _ end = _ => destruct x eqn:?; try discriminate
    | (if ?x then _ else _) = _ => destruct x eqn:?; try discriminate
    end.
  injection Hp as <- <-. now apply Nat.eqb_eq.
Qed.

Lemma parsed_mode_valid msg t modes : command_of_message msg = inl (MODE t modes) ->
  validate_channel t = true -> validate_channelmodes t 1 modes = None.
Proof.
  unfold command_of_message. destruct (parse_command msg) as [c0|e]; [|discriminate].
  destruct (validate_command c0) eqn:Hv; [discriminate|]. intros [= ->]. intros Hc.
  cbn [validate_command] in Hv. rewrite Hc in Hv. exact Hv.
Qed.

End handlers.
