(* ConfigP.v - the start-up validation accepts exactly the configurations the statement lists. *)
From IRC Require Import Str Parse Config.
From Coq Require Import List Bool Arith NArith Lia.
Import ListNotations.
Open Scope N_scope.

Definition is_true (b : bool) : Prop := b = true.

Theorem accept_iff r c :
  config_accept r c = true <->
  (cl_cert c = cl_key c) /\
  contains c_dot (effective_name r c) = true /\
  (forall h, rw_password r = Some h -> valid_hash h = true) /\
  (forall o, In o (rw_opers r) -> validate_username (ro_name o) = true /\ valid_hash (ro_password o) = true) /\
  (forall u, In u (rw_users r) ->
     validate_username (ru_name u) = true /\ validate_username (ru_nick u) = true /\
     (forall h, ru_password u = Some h -> valid_hash h = true) /\ utf8_len (ru_nick u) <= 200) /\
  (forall ch, In ch (rw_chans r) -> validate_channel ch = true).
Proof.
  unfold config_accept. rewrite !andb_true_iff, !forallb_forall, eqb_true_iff.
  assert (forall (o : option str), opt_ok' valid_hash o = true <-> forall h, o = Some h -> valid_hash h = true) as Ho.
  { intros [h|]; cbn.
    - split; [intros H h' [= <-]; exact H|intros H; now apply H].
    - split; [intros _ h' [=]|reflexivity]. }
  rewrite Ho. split.
  - intros [[[[[H1 H2] H3] H4] H5] H6]. repeat split; auto.
    + now apply H4 in H; apply andb_true_iff in H as [A B].
    + now apply H4 in H; apply andb_true_iff in H as [A B].
    + apply H5 in H. unfold user_ok in H. rewrite !andb_true_iff in H. tauto.
    + apply H5 in H. unfold user_ok in H. rewrite !andb_true_iff in H. tauto.
    + apply H5 in H. unfold user_ok in H. rewrite !andb_true_iff, Ho in H. destruct H as [[[_ _] H] _]. exact H.
    + apply H5 in H. unfold user_ok in H. rewrite !andb_true_iff in H. destruct H as [_ H]. now apply N.leb_le.
  - intros [H1 [H2 [H3 [H4 [H5 H6]]]]]. repeat split; auto.
    + intros o Hin. unfold oper_ok. apply andb_true_iff. now apply H4.
    + intros u Hin. unfold user_ok. rewrite !andb_true_iff, Ho. destruct (H5 u Hin) as [A [B [C D]]]. repeat split; auto. now apply N.leb_le.
Qed.

Theorem valid_hash_shape s : valid_hash s = true ->
  length s = 86%nat /\ Forall (fun c => is_b64 c = true) s /\
  exists v, b64_val (last s 0) = Some v /\ v mod 16 = 0.
Proof.
  unfold valid_hash. rewrite !andb_true_iff. intros [[H1 H2] H3]. split; [now apply Nat.eqb_eq|]. split.
  - apply Forall_forall. now apply forallb_forall.
  - destruct (b64_val (last s 0)) as [v|]; [|discriminate]. exists v. split; [reflexivity|now apply N.eqb_eq].
Qed.

(* the command line wins over the file *)
Theorem cli_name_overrides r c n : cl_name c = Some n -> effective_name r c = n.
Proof. unfold effective_name. now intros ->. Qed.

Theorem file_name_otherwise r c : cl_name c = None -> effective_name r c = rw_name r.
Proof. unfold effective_name. now intros ->. Qed.

(* non-vacuity: a concrete configuration in the style of config-example.toml is accepted, and each
   single defect makes it rejected *)
Definition good_hash : str := lit "VgWezXctjWvsY6V7gzSQPnluUuAwq06m5IxwcIg3OfBIMM+zWCJntk8HEZDgh4ctFei3bqt1r0O1VIyOV7dL+w".
Definition sample : rawcfg :=
  {| rw_name := lit "irc.irc"; rw_password := Some good_hash;
     rw_opers := [{| ro_name := lit "matiszpaki"; ro_password := good_hash |}];
     rw_users := [{| ru_name := lit "lucas"; ru_nick := lit "luckboy"; ru_password := Some good_hash |}];
     rw_chans := [lit "#channel1"; lit "&local"] |}.
Definition nocli : rawcli := {| cl_name := None; cl_cert := false; cl_key := false |}.

Example sample_accepted : config_accept sample nocli = true.
Proof. vm_compute. reflexivity. Qed.
Example sample_no_dot : config_accept sample {| cl_name := Some (lit "localhost"); cl_cert := false; cl_key := false |} = false.
Proof. vm_compute. reflexivity. Qed.
Example sample_cert_only : config_accept sample {| cl_name := None; cl_cert := true; cl_key := false |} = false.
Proof. vm_compute. reflexivity. Qed.
Example sample_bad_hash :
  config_accept {| rw_name := rw_name sample; rw_password := Some (lit "xxxxxxxxx"); rw_opers := []; rw_users := []; rw_chans := [] |} nocli = false.
Proof. vm_compute. reflexivity. Qed.
