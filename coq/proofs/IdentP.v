(* IdentP.v - the source prefix is the true identity.  For every reachable world: the cached source
   of every connection is built from its current nick, user name and host, and every user record
   carries the source, user name and host of the connection that owns it - whatever the order of
   NICK and USER at registration and however many nick changes followed.  [ikeeps s s']: every user
   record present afterwards was present before under the same nick with the same owner, user
   name, host and source (every handler but the accepted NICK and the registration itself). *)
From IRC Require Import Str Wild Glob Mask Parse Reply State Handlers Step.
From IRCP Require Import StrP ChanP InvDefs InvPrims InvNick InvHandlers NickP OperP InvStep Reach.
From stdpp Require Import gmap.
Open Scope N_scope.

Local Arguments lit : simpl never.

Definition src_ok (c : conn) : Prop := c_source c = make_source (c_nick c) (c_name c) (c_host c).
Definition cid_same (c c' : conn) : Prop :=
  c_name c' = c_name c /\ c_host c' = c_host c /\ c_source c' = c_source c /\ c_nick c' = c_nick c.
Definition ukeep (u u' : user) : Prop :=
  u_conn u' = u_conn u /\ u_name u' = u_name u /\ u_host u' = u_host u /\ u_source u' = u_source u.
Definition ikeeps (s s' : shared) : Prop :=
  forall n u', users s' !! n = Some u' -> exists u, users s !! n = Some u /\ ukeep u u'.
(* the connection and the record it owns agree *)
Definition crel (c : conn) (u : user) : Prop :=
  c_name c = Some (u_name u) /\ c_host c = u_host u /\ u_source u = c_source c.

Lemma cid_same_refl c : cid_same c c.
Proof. repeat split. Qed.
Lemma ukeep_refl u : ukeep u u.
Proof. repeat split. Qed.
Lemma ukeep_trans a b c : ukeep a b -> ukeep b c -> ukeep a c.
Proof. intros [A1 [A2 [A3 A4]]] [B1 [B2 [B3 B4]]]. repeat split; congruence. Qed.
Lemma ikeeps_refl s : ikeeps s s.
Proof. intros n u H. exists u. split; [exact H|apply ukeep_refl]. Qed.
Lemma ikeeps_trans s1 s2 s3 : ikeeps s1 s2 -> ikeeps s2 s3 -> ikeeps s1 s3.
Proof.
  intros A B n u3 H. destruct (B n u3 H) as [u2 [H2 K2]]. destruct (A n u2 H2) as [u1 [H1 K1]].
  exists u1. split; [exact H1|eapply ukeep_trans; eauto].
Qed.
Lemma ikeeps_users_eq s s' : users s' = users s -> ikeeps s s'.
Proof. intros E n u H. rewrite E in H. exists u. split; [exact H|apply ukeep_refl]. Qed.
Lemma ikeeps_insert s s' n u u' :
  users s' = <[n := u']> (users s) -> users s !! n = Some u -> ukeep u u' -> ikeeps s s'.
Proof.
  intros E Hu K n0 u0 H. rewrite E in H. destruct (decide (n0 = n)) as [->|Hne].
  - rewrite lookup_insert in H. injection H as <-. eauto.
  - rewrite lookup_insert_ne in H by congruence. exists u0. split; [exact H|apply ukeep_refl].
Qed.

Lemma rfold_ikeeps {A} (f : shared -> A -> res shared) l :
  (forall s x s', f s x = Ok s' -> ikeeps s s') -> forall s s', rfold f l s = Ok s' -> ikeeps s s'.
Proof.
  intros Hf. induction l as [|x l IH]; intros s s'; cbn [rfold].
  - intros [= <-]. apply ikeeps_refl.
  - destruct (f s x) as [s1|] eqn:E; cbn [rbind]; [|discriminate]. intros H.
    eapply ikeeps_trans; [eapply Hf; eauto|eapply IH; eauto].
Qed.

Ltac uk u := unfold ukeep; destruct u; cbn; auto.

Lemma remove_from_channel_ikeeps ch nick s s' : st_remove_user_from_channel ch nick s = Ok s' -> ikeeps s s'.
Proof.
  unfold st_remove_user_from_channel.
  assert (forall s1, users s1 = users s ->
            match users s1 !! nick with
            | Some u => Ok (set_users (fun us => <[nick := u_set_chans (fun cs => cs ∖ {[ch]}) u]> us) s1)
            | None => Ok s1
            end = Ok s' -> ikeeps s s') as K.
  { intros s1 E. destruct (users s1 !! nick) as [u|] eqn:Hu; intros [= <-].
    - eapply (ikeeps_insert s _ nick u); cbn; [now rewrite E|now rewrite <- E|uk u].
    - now apply ikeeps_users_eq. }
  destruct (chans s !! ch) as [co|]; cbn [rbind]; [|now apply K].
  destruct (chan_remove_user nick co) as [co'|]; cbn [rbind]; [|discriminate].
  destruct (_ && _); cbn [rbind]; apply K; reflexivity.
Qed.

Lemma join_insert_ikeeps nick s x s' : join_insert nick s x = Ok s' -> ikeeps s s'.
Proof.
  destruct x as [ch [j cr]]. unfold join_insert. destruct (negb j); [intros [= <-]; apply ikeeps_refl|].
  unfold get_user. destruct (users s !! nick) as [u|] eqn:Hu; cbn [rbind]; [|discriminate].
  destruct cr.
  - intros [= <-]. eapply (ikeeps_insert s _ nick u); cbn; [reflexivity|exact Hu|uk u].
  - unfold get_chan. cbn [chans set_users]. destruct (chans s !! ch); cbn [rbind]; [|discriminate].
    intros [= <-]. eapply (ikeeps_insert s _ nick u); cbn; [reflexivity|exact Hu|uk u].
Qed.

Section frame.
Context (cfg : config) (verify : str -> str -> bool) (i : nat).

(* what a handler that leaves the connection alone establishes *)
Definition quiet (s : shared) (c : conn) (r : hres) : Prop := ikeeps s (h_sh r) /\ cid_same c (h_conn r).

Ltac same H := injection H as <-; cbn [h_sh h_conn]; split; [apply ikeeps_refl|apply cid_same_refl].

Lemma quiet_same s c o q : quiet s c {| h_sh := s; h_conn := c; h_out := o; h_quit := q |}.
Proof. split; [apply ikeeps_refl|apply cid_same_refl]. Qed.

Lemma join_quiet s c chs keys r : process_join cfg i s c chs keys = Ok r -> quiet s c r.
Proof.
  unfold process_join. destruct (own_nick c) as [nick|]; cbn [rbind]; [|discriminate].
  destruct (get_user s nick) as [u|]; cbn [rbind]; [|discriminate].
  destruct (join_phase1 _ _ _ _ _ _ _ _ _ _) as [[[plan o1] q]|]; cbn [rbind]; [|discriminate].
  destruct (rfold (join_insert nick) plan s) as [s'|] eqn:E; cbn [rbind]; [|discriminate].
  match goal with |- context [rfold ?G plan []] => destruct (rfold G plan []) as [o2|] end; cbn [rbind]; [|discriminate].
  intros [= <-]. cbn [h_sh h_conn]. split; [|apply cid_same_refl].
  eapply rfold_ikeeps; [|exact E]. intros; eapply join_insert_ikeeps; eauto.
Qed.

Lemma part_quiet s c chs reason r : process_part cfg i s c chs reason = Ok r -> quiet s c r.
Proof.
  unfold process_part. destruct (own_nick c) as [nick|]; cbn [rbind]; [|discriminate].
  match goal with |- context [rfold ?F chs (s, [])] => set (F0 := F) end.
  assert (forall l s0 o0 s1 o1, rfold F0 l (s0, o0) = Ok (s1, o1) -> ikeeps s0 s1) as G.
  { induction l as [|ch l IH]; intros s0 o0 s1 o1; cbn [rfold]; [intros [= <- _]; apply ikeeps_refl|].
    unfold F0 at 1. destruct (chans s0 !! ch) as [co|]; [|cbn [rbind]; apply IH].
    destruct (bool_decide _); [|cbn [rbind]; apply IH].
    destruct (send_all _ _ _); cbn [rbind]; [|discriminate].
    destruct (st_remove_user_from_channel ch nick s0) as [s2|] eqn:E; cbn [rbind]; [|discriminate].
    intros H. eapply ikeeps_trans; [eapply remove_from_channel_ikeeps; eauto|eapply IH; eauto]. }
  destruct (rfold F0 chs (s, [])) as [[s' o]|] eqn:E; cbn [rbind]; [|discriminate].
  destruct (get_user s' nick); cbn [rbind]; [|discriminate]. intros [= <-]. cbn [h_sh h_conn].
  split; [eapply G; eauto|apply cid_same_refl].
Qed.

Lemma kick_quiet s c ch victims comment r : process_kick cfg i s c ch victims comment = Ok r -> quiet s c r.
Proof.
  unfold process_kick. destruct (own_nick c) as [nick|]; cbn [rbind]; [|discriminate].
  destruct (kick_decide s nick (client_name c) ch victims) as [kicked o1].
  destruct (rfold (fun s v => st_remove_user_from_channel ch v s) kicked s) as [s'|] eqn:E; cbn [rbind]; [|discriminate].
  match goal with |- context [rfold ?G kicked []] => destruct (rfold G kicked []) end; cbn [rbind]; [|discriminate].
  intros [= <-]. cbn [h_sh h_conn]. split; [|apply cid_same_refl].
  eapply rfold_ikeeps; [|exact E]. intros s0 x s1 H; cbn beta in H; eapply remove_from_channel_ikeeps; exact H.
Qed.

Lemma topic_quiet s c ch topic msg r : process_topic cfg i s c ch topic msg = Ok r -> quiet s c r.
Proof.
  unfold process_topic. destruct (own_nick c) as [nick|]; cbn [rbind]; [|discriminate].
  destruct topic as [t|].
  - destruct (chans s !! ch) as [co|]; [|intros H; same H].
    destruct (ch_users co !! nick) as [rk|]; [|intros H; same H].
    destruct (topic_allowed co rk); [|intros H; same H].
    destruct (send_all _ _ _); cbn [rbind]; [|discriminate]. intros [= <-]. cbn [h_sh h_conn].
    split; [now apply ikeeps_users_eq|apply cid_same_refl].
  - destruct (chans s !! ch) as [co|]; [|intros H; same H].
    destruct (bool_decide _); [|intros H; same H]. destruct (ch_topic co) as [[t w]|]; intros H; same H.
Qed.

Lemma invite_quiet s c nickname ch msg r : process_invite cfg i s c nickname ch msg = Ok r -> quiet s c r.
Proof.
  unfold process_invite. destruct (own_nick c) as [nick|]; cbn [rbind]; [|discriminate].
  destruct (chans s !! ch) as [co|]; [|intros H; same H].
  destruct (ch_users co !! nick) as [rk|]; [|intros H; same H].
  destruct (_ && _); [intros H; same H|]. destruct (bool_decide _); [intros H; same H|].
  destruct (users s !! nickname) as [inv|] eqn:Hu; [|intros H; same H].
  intros [= <-]. cbn [h_sh h_conn]. split; [|apply cid_same_refl].
  eapply (ikeeps_insert s _ nickname inv); cbn; [reflexivity|exact Hu|uk inv].
Qed.

Lemma mode_channel_quiet s c target nick co rk modes r :
  process_mode_channel cfg i s c target nick co rk modes = Ok r -> quiet s c r.
Proof.
  unfold process_mode_channel. destruct (is_empty modes); [intros H; same H|].
  match goal with |- context [rfold ?G modes ?m0] => destruct (rfold G modes m0) as [m|] end; cbn [rbind]; [|discriminate].
  destruct (match mode_announcement target m with Some _ => _ | None => _ end); cbn [rbind]; [|discriminate].
  intros [= <-]. cbn [h_sh h_conn]. split; [now apply ikeeps_users_eq|apply cid_same_refl].
Qed.

Lemma kill_quiet s c nickname comment r : process_kill cfg i s c nickname comment = Ok r -> quiet s c r.
Proof.
  unfold process_kill. destruct (own_nick c) as [nick|]; cbn [rbind]; [|discriminate].
  destruct (get_user s nick) as [u|]; cbn [rbind]; [|discriminate].
  destruct (um_oper (u_modes u)); [|intros H; same H].
  destruct (users s !! nickname) as [v|] eqn:Hv; [|intros H; same H].
  destruct (u_kill v); [intros H; same H|].
  intros [= <-]. cbn [h_sh h_conn]. split; [|apply cid_same_refl].
  eapply (ikeeps_insert s _ nickname v); cbn; [reflexivity|exact Hv|uk v].
Qed.

Lemma die_quiet s c message r : process_die cfg i s c message = Ok r -> quiet s c r.
Proof.
  unfold process_die. destruct (own_nick c) as [nick|]; cbn [rbind]; [|discriminate].
  destruct (get_user s nick) as [u|]; cbn [rbind]; [|discriminate].
  destruct (um_oper (u_modes u)); [|intros H; same H].
  intros [= <-]. cbn [h_sh h_conn]. split; [|apply cid_same_refl]. intros n u' H. cbn in H. rewrite lookup_fmap in H.
  destruct (users s !! n) as [v|] eqn:Hv; [|discriminate]. cbn in H. injection H as <-.
  exists v. split; [reflexivity|]. destruct (u_kill v); [apply ukeep_refl|]. uk v.
Qed.

Lemma away_quiet s c text r : process_away cfg i s c text = Ok r -> quiet s c r.
Proof.
  unfold process_away. destruct (own_nick c) as [nick|]; cbn [rbind]; [|discriminate].
  unfold get_user. destruct (users s !! nick) as [u|] eqn:Hu; cbn [rbind]; [|discriminate].
  intros [= <-]. cbn [h_sh h_conn]. split; [|apply cid_same_refl].
  eapply (ikeeps_insert s _ nick u); cbn; [reflexivity|exact Hu|uk u].
Qed.

End frame.

(* ---------------------------------------------------------------- one line *)
Section line.
Context (cfg : config) (verify : str -> str -> bool) (i : nat).

(* the records owned by connection i sit under its nick and agree with it *)
Definition own_rel (s : shared) (c : conn) : Prop :=
  forall n u, users s !! n = Some u -> u_conn u = i -> c_nick c = Some n /\ crel c u.

(* after the line: the connection's source is still built from its nick, name and host; every record
   owned by the connection agrees with it; every other record is the one it was *)
Definition ident_result (s : shared) (r : hres) : Prop :=
  src_ok (h_conn r) /\
  forall n u', users (h_sh r) !! n = Some u' ->
    (u_conn u' = i /\ crel (h_conn r) u') \/
    (u_conn u' <> i /\ exists u, users s !! n = Some u /\ ukeep u u').

Lemma ident_of_quiet s c r : src_ok c -> own_rel s c -> quiet s c r -> ident_result s r.
Proof.
  intros S O [K [C1 [C2 [C3 C4]]]]. split.
  - unfold src_ok in *. now rewrite C1, C2, C3, C4.
  - intros n u' H. destruct (K n u' H) as [u [Hu [K1 [K2 [K3 K4]]]]]. destruct (decide (u_conn u' = i)) as [E|E].
    + left. split; [exact E|]. destruct (O n u Hu) as [_ [R1 [R2 R3]]]; [congruence|]. unfold crel. rewrite C1, C2, C3, K2, K3, K4. auto.
    + right. split; [exact E|]. exists u. split; [exact Hu|]. repeat split; assumption.
Qed.

Lemma src_ok_with_nick n c : src_ok (c_with_nick n c).
Proof. reflexivity. Qed.
Lemma src_ok_with_name n r c : src_ok (c_with_name n r c).
Proof. reflexivity. Qed.
Lemma src_ok_with_pass p c : src_ok c -> src_ok (c_with_pass p c).
Proof. intros H. exact H. Qed.
Lemma src_ok_with_auth a g t c : src_ok c -> src_ok (c_with_auth a g t c).
Proof. intros H. exact H. Qed.
Lemma src_ok_with_caps a b c : src_ok c -> src_ok (c_with_caps a b c).
Proof. intros H. exact H. Qed.

(* a registered connection: every command *)
Theorem dispatch_ident s c cmd msg r :
  InvS s -> conn_ok i s c -> c_auth c = true -> src_ok c -> own_rel s c ->
  dispatch cfg verify i s c cmd msg = Ok r -> ident_result s r.
Proof.
  intros I C A S O H.
  assert (forall r0, quiet s c r0 -> ident_result s r0) as Q by (intros r0; now apply ident_of_quiet).
  assert (forall (P : res hres), (exists r0, P = Ok r0 /\ same_result s c r0) -> P = Ok r -> ident_result s r) as S2.
  { intros P [r0 [-> [E1 [E2 _]]]] [= <-]. apply Q. split; [rewrite E1; apply ikeeps_refl|rewrite E2; apply cid_same_refl]. }
  assert (forall o q, Ok {| h_sh := s; h_conn := c; h_out := o; h_quit := q |} = Ok r -> ident_result s r) as S3.
  { intros o q [= <-]. apply Q, quiet_same. }
  destruct (own_user i s c C A) as [nick [u [Hn [Hu [Hc [Ho Hg]]]]]].
  destruct cmd; cbn [dispatch] in H.
  - (* CAP *) unfold process_cap in H. destruct sub.
    + injection H as <-. apply Q. split; [apply ikeeps_refl|repeat split].
    + eapply S3; exact H.
    + destruct caps as [cs|]; [destruct (forallb _ cs)|]; injection H as <-; apply Q; (split; [apply ikeeps_refl|repeat split]).
    + rewrite A in H. injection H as <-. apply Q. split; [apply ikeeps_refl|repeat split].
  - eapply S3; exact H.
  - unfold process_pass in H. rewrite A in H. eapply S3; exact H.
  - (* NICK *)
    destruct (decide (nickname = nick)) as [->|Hne].
    { rewrite (process_nick_same cfg verify i s c msg nick A Hn) in H. eapply S3; exact H. }
    destruct (users s !! nickname) as [x|] eqn:Hx.
    { rewrite (process_nick_refused cfg verify i s c nickname msg nick x A Hn Hne Hx) in H. eapply S3; exact H. }
    destruct (process_nick_effect cfg verify i s c nickname msg nick u I A Hn Hu Hne Hx) as [r0 [Hr [Hcn [_ [Hus _]]]]].
    rewrite Hr in H. injection H as <-. split; [rewrite Hcn; apply src_ok_with_nick|].
    intros n u' Hu'. rewrite Hus in Hu'. destruct (decide (n = nickname)) as [->|N1].
    + rewrite lookup_insert in Hu'. injection Hu' as <-. left. destruct (O nick u Hu Hc) as [_ [R1 [R2 R3]]].
      split; [destruct u; exact Hc|]. rewrite Hcn. unfold crel. destruct u; cbn in *. auto.
    + rewrite lookup_insert_ne in Hu' by congruence. destruct (decide (n = nick)) as [->|N2]; [now rewrite lookup_delete in Hu'|].
      rewrite lookup_delete_ne in Hu' by congruence. right. split.
      * intros E. destruct (O n u' Hu' E) as [E2 _]. congruence.
      * exists u'. split; [exact Hu'|apply ukeep_refl].
  - unfold process_user in H. rewrite A in H. eapply S3; exact H.
  - eapply S3; exact H.
  - eapply S3; exact H.
  - (* OPER *)
    destruct (oper_spec cfg verify i s c name password nick u Hn Hu) as [r0 [Hr [Hcc [_ Hacc]]]].
    rewrite Hr in H. injection H as <-. apply Q. split; [|rewrite Hcc; apply cid_same_refl].
    destruct (oper_accepted cfg verify c name password).
    + destruct Hacc as [Hus _]. eapply (ikeeps_insert s _ nick u); [exact Hus|exact Hu|uk u].
    + destruct Hacc as [E _]. rewrite E. apply ikeeps_refl.
  - (* QUIT *) eapply S3; exact H.
  - apply Q. eapply join_quiet; eauto.
  - apply Q. eapply part_quiet; eauto.
  - apply Q. eapply topic_quiet; eauto.
  - eapply S2; [|exact H]. now apply process_names_ok.
  - unfold process_list in H. destruct server; eapply S3; exact H.
  - apply Q. eapply invite_quiet; eauto.
  - apply Q. eapply kick_quiet; eauto.
  - unfold process_motd in H. destruct target; eapply S3; exact H.
  - unfold process_version in H. destruct target; eapply S3; exact H.
  - unfold process_admin in H. destruct target; eapply S3; exact H.
  - eapply S3; exact H.
  - unfold process_lusers in H. destruct (lusers_lines s (client_name c)); cbn [rbind] in H; [|discriminate]. eapply S3; exact H.
  - unfold process_time in H. destruct server; eapply S3; exact H.
  - unfold process_stats in H. destruct server; [eapply S3; exact H|].
    rewrite Ho in H. cbn [rbind] in H. rewrite Hg in H. cbn [rbind] in H. destruct (is_local_oper _); eapply S3; exact H.
  - unfold process_links in H. destruct remote_server, server_mask; eapply S3; exact H.
  - unfold process_help in H. destruct (help_topic _); eapply S3; exact H.
  - eapply S3; exact H.
  - (* MODE *)
    unfold process_mode in H. rewrite Ho in H. cbn [rbind] in H. destruct (validate_channel target).
    + destruct (chans s !! target) as [co|]; [|eapply S3; exact H].
      destruct (ch_users co !! nick) as [rk|]; [|eapply S3; exact H].
      apply Q. eapply mode_channel_quiet; eauto.
    + destruct (bool_decide (nick = target)).
      * destruct (mode_user_no_grant cfg i s c nick modes r u Hu H) as [m' [Hus [_ [_ [Hcc _]]]]].
        apply Q. split; [|rewrite Hcc; apply cid_same_refl]. eapply (ikeeps_insert s _ nick u); [exact Hus|exact Hu|uk u].
      * destruct (users s !! target); eapply S3; exact H.
  - eapply S2; [|exact H]. now apply process_privmsg_ok.
  - eapply S2; [|exact H]. now apply process_privmsg_ok.
  - eapply S2; [|exact H]. now apply process_who_ok.
  - eapply S2; [|exact H]. now apply process_whois_ok.
  - unfold process_whowas in H. destruct server; eapply S3; exact H.
  - apply Q. eapply kill_quiet; eauto.
  - eapply S3; exact H.
  - eapply S3; exact H.
  - unfold process_squit in H. destruct (bool_decide _); [apply Q; eapply die_quiet; eauto|eapply S3; exact H].
  - apply Q. eapply away_quiet; eauto.
  - eapply S3; exact H.
  - eapply S2; [|exact H]. now apply process_wallops_ok.
  - eapply S3; exact H.
  - apply Q. eapply die_quiet; eauto.
Qed.

End line.

(* ---------------------------------------------------------------- registration *)
Section reg.
Context (cfg : config) (verify : str -> str -> bool) (i : nat).

Definition no_own (s : shared) : Prop := forall n u, users s !! n = Some u -> u_conn u <> i.

Lemma ident_unchanged s c' o q : src_ok c' -> no_own s ->
  ident_result i s {| h_sh := s; h_conn := c'; h_out := o; h_quit := q |}.
Proof.
  intros S N. split; [exact S|]. intros n u H. cbn in H. right. split; [eapply N; eauto|].
  exists u. split; [exact H|apply ukeep_refl].
Qed.

(* the registration attempt made with the connection as it is now: either nothing is registered, or the
   new record carries this connection's user name, host and source *)
Lemma authenticate_ident s c r : src_ok c -> no_own s ->
  authenticate cfg verify i s c = Ok r -> ident_result i s r.
Proof.
  intros S N. unfold authenticate. destruct (c_capneg c); [intros [= <-]; now apply ident_unchanged|].
  destruct (c_nick c) as [nick|] eqn:Hn; [|intros [= <-]; now apply ident_unchanged].
  destruct (c_name c) as [name|] eqn:Hm; [|intros [= <-]; now apply ident_unchanged].
  destruct (negb _); [intros [= <-]; now apply ident_unchanged|].
  match goal with |- (if ?g then _ else _) = _ -> _ => destruct g end;
    [|intros [= <-]; apply ident_unchanged; [exact S|exact N]].
  destruct (users s !! nick) eqn:Hu; [intros [= <-]; apply ident_unchanged; [exact S|exact N]|].
  destruct (c_sender_taken c); [discriminate|].
  match goal with |- context [st_add_user nick ?u0 s] => set (u := u0) end.
  destruct (lusers_lines _ _); cbn [rbind]; [|discriminate]. intros [= <-]. cbn [h_sh h_conn]. split; [exact S|].
  intros n u' H. cbn [h_sh h_conn] in *. rewrite (proj1 (st_add_user_fields nick u s)) in H. destruct (decide (n = nick)) as [->|N1].
  - rewrite lookup_insert in H. injection H as <-. left. split; [reflexivity|]. unfold crel, u. cbn. auto.
  - rewrite lookup_insert_ne in H by congruence. right. split; [eapply N; eauto|]. exists u'. split; [exact H|apply ukeep_refl].
Qed.

Lemma unauth_dispatch_ident s c cmd msg r : c_auth c = false -> needs_registration cmd = false ->
  src_ok c -> no_own s -> dispatch cfg verify i s c cmd msg = Ok r -> ident_result i s r.
Proof.
  intros A Hn S N. destruct cmd; try discriminate Hn; cbn [dispatch].
  - unfold process_cap. destruct sub.
    + intros [= <-]. now apply ident_unchanged.
    + intros [= <-]. now apply ident_unchanged.
    + destruct caps as [cs|]; [destruct (forallb _ cs)|]; intros [= <-]; now apply ident_unchanged.
    + rewrite A. apply authenticate_ident; [exact S|exact N].
  - intros [= <-]. now apply ident_unchanged.
  - unfold process_pass. rewrite A. apply authenticate_ident; [exact S|exact N].
  - unfold process_nick. rewrite A. cbn [negb].
    destruct (users s !! nickname); [intros [= <-]; now apply ident_unchanged|].
    apply authenticate_ident; [apply src_ok_with_nick|exact N].
  - unfold process_user. rewrite A. apply authenticate_ident; [apply src_ok_with_name|exact N].
  - intros [= <-]. now apply ident_unchanged.
Qed.

(* one line of any connection *)
Theorem line_ident s c l r : InvS s -> conn_ok i s c -> src_ok c -> own_rel i s c ->
  (c_auth c = false -> no_own s) ->
  process_line cfg verify i s c l = Ok r -> ident_result i s r.
Proof.
  intros I C S O NO H.
  assert (forall o, Ok {| h_sh := s; h_conn := c; h_out := o; h_quit := false |} = Ok r -> ident_result i s r) as Same.
  { intros o [= <-]. eapply ident_of_quiet; [exact S|exact O|apply quiet_same]. }
  unfold process_line in H. destruct (tokenize l) as [msg|[| |]] eqn:Ht; try (eapply Same; exact H).
  destruct (command_of_message msg) as [cmd|e] eqn:Hcmd; [|eapply Same; exact H].
  destruct (needs_registration cmd && negb (c_auth c)) eqn:G; [eapply Same; exact H|].
  destruct (c_auth c) eqn:A.
  - eapply dispatch_ident; eauto.
  - cbn in G. rewrite andb_true_r in G. eapply unauth_dispatch_ident; eauto.
Qed.

End reg.

(* ---------------------------------------------------------------- the world *)
Section world.
Context (cfg : config) (verify : str -> str -> bool).

Definition SrcW (w : world) : Prop :=
  (forall i c, conns w !! i = Some c -> src_ok c) /\
  (forall n u, users (sh w) !! n = Some u -> exists c, conns w !! u_conn u = Some c /\ crel c u).

Lemma SrcW_init : SrcW (world_init cfg).
Proof.
  split.
  - intros i c H. cbn in H. now rewrite lookup_empty in H.
  - intros n u H. cbn in H. now rewrite lookup_empty in H.
Qed.

Lemma crel_ukeep c u u' : crel c u -> ukeep u u' -> crel c u'.
Proof. intros [R1 [R2 R3]] [_ [K2 [K3 K4]]]. unfold crel. rewrite K2, K3, K4. auto. Qed.

Lemma teardown_src i w c w' : InvK w -> SrcW w -> conns w !! i = Some c -> teardown i w = Ok w' -> SrcW w'.
Proof.
  intros K [A B] Hc Ht. destruct (teardown_ok i w c K Hc) as [w2 [Ht2 [_ [Hcs [Hsub _]]]]].
  rewrite Ht in Ht2. injection Ht2 as <-. split.
  - intros j cj Hj. rewrite Hcs in Hj. destruct (decide (j = i)) as [->|Hne]; [now rewrite lookup_delete in Hj|].
    rewrite lookup_delete_ne in Hj by congruence. eapply A; eauto.
  - intros n u Hu. destruct (Hsub n u Hu) as [Hu0 Hne]. destruct (B n u Hu0) as [c0 [Hc0 R]].
    exists c0. split; [|exact R]. rewrite Hcs. rewrite lookup_delete_ne by congruence. exact Hc0.
Qed.

Lemma step_raw_src w i e w1 o cl : InvK w -> SrcW w -> step_raw cfg verify w i e = Ok (w1, o, cl) -> SrcW w1.
Proof.
  intros K W H. pose proof W as [A B].
  assert (forall c (o0 : outl) (cl0 : list nat), conns w !! i = Some c ->
            (let! w1 := teardown i w in Ok (w1, o0, cl0)) = Ok (w1, o, cl) -> SrcW w1) as TD.
  { intros c o0 cl0 Hc E. destruct (teardown i w) as [w2|] eqn:Ht; cbn [rbind] in E; [|discriminate].
    injection E as <- _ _. eapply teardown_src; eauto. }
  destruct e; cbn [step_raw] in H.
  - (* open *)
    destruct (conns w !! i) as [c|] eqn:Hc; [injection H as <- _ _; exact W|].
    destruct (server_quit (sh w)); [injection H as <- _ _; exact W|].
    match type of H with (if ?g then _ else _) = _ => destruct g end; [|injection H as <- _ _; exact W].
    injection H as <- _ _. split; cbn.
    + intros j cj Hj. destruct (decide (j = i)) as [->|Hne].
      * rewrite lookup_insert in Hj. injection Hj as <-. reflexivity.
      * rewrite lookup_insert_ne in Hj by congruence. eapply A; eauto.
    + intros n u Hu. destruct (B n u Hu) as [c0 [Hc0 R]]. exists c0. split; [|exact R].
      rewrite lookup_insert_ne; [exact Hc0|]. intros E. rewrite <- E in Hc0. congruence.
  - (* line *)
    destruct (conns w !! i) as [c|] eqn:Hc; [|injection H as <- _ _; exact W].
    destruct (process_line_ok cfg verify i (sh w) c l (ik_s w K) (ik_cu w K i c Hc) (ik_st w K i c Hc)) as [r [Hr R]].
    rewrite Hr in H. cbn [rbind] in H.
    assert (ident_result i (sh w) r) as [S1 U1].
    { eapply (line_ident cfg verify i (sh w) c l r); [exact (ik_s w K)|exact (ik_cu w K i c Hc)|eapply A; eauto| | |exact Hr].
      - intros n u Hu Hi. destruct (ik_uc w K n u Hu) as [c0 [Hc0 [_ Hn0]]]. rewrite Hi, Hc in Hc0. injection Hc0 as <-.
        split; [exact Hn0|]. destruct (B n u Hu) as [c1 [Hc1 R1]]. rewrite Hi, Hc in Hc1. injection Hc1 as <-. exact R1.
      - intros Ha n u Hu Hi. destruct (ik_uc w K n u Hu) as [c0 [Hc0 [Ha0 _]]]. rewrite Hi, Hc in Hc0. injection Hc0 as <-. congruence. }
    cbv zeta in H. set (w1a := {| sh := h_sh r; conns := <[i := h_conn r]> (conns w); nconns := nconns w |}) in *.
    assert (SrcW w1a) as W1.
    { split; cbn.
      - intros j cj Hj. destruct (decide (j = i)) as [->|Hne].
        + rewrite lookup_insert in Hj. injection Hj as <-. exact S1.
        + rewrite lookup_insert_ne in Hj by congruence. eapply A; eauto.
      - intros n u' Hu'. destruct (U1 n u' Hu') as [[Hi R1]|[Hi [u [Hu Ku]]]].
        + exists (h_conn r). split; [rewrite Hi; apply lookup_insert|exact R1].
        + destruct (B n u Hu) as [c0 [Hc0 R0]]. exists c0. destruct Ku as [K1 Krest].
          split; [rewrite lookup_insert_ne by congruence; now rewrite K1|].
          eapply crel_ukeep; [exact R0|]. split; [exact K1|exact Krest]. }
    destruct (h_quit r).
    + destruct (teardown i w1a) as [w2|] eqn:Ht; cbn [rbind] in H; [|discriminate]. injection H as <- _ _.
      eapply (teardown_src i w1a (h_conn r)); [eapply InvK_line; eauto|exact W1|cbn; apply lookup_insert|exact Ht].
    + injection H as <- _ _. exact W1.
  - destruct (conns w !! i) as [c|] eqn:Hc; [eapply TD; eauto|injection H as <- _ _; exact W].
  - destruct (conns w !! i) as [c|] eqn:Hc; [eapply TD; eauto|injection H as <- _ _; exact W].
  - destruct (conns w !! i) as [c|] eqn:Hc; [eapply TD; eauto|injection H as <- _ _; exact W].
  - destruct (conns w !! i) as [c|] eqn:Hc; injection H as <- _ _; exact W.
  - destruct (conns w !! i) as [c|] eqn:Hc; [eapply TD; eauto|injection H as <- _ _; exact W].
Qed.

Lemma deliver_kills_src w w' o cl : InvK w -> SrcW w -> deliver_kills cfg w = Ok (w', o, cl) -> SrcW w'.
Proof.
  intros K [A B] H. destruct (deliver_kills_ok cfg w K) as [w2 [o2 [cl2 [E [I2 [Hsub [_ [_ [Hkeep Hgone]]]]]]]]].
  rewrite H in E. injection E as <- <- <-. split.
  - intros j cj Hj. destruct (decide (j ∈ cl)) as [Hin|Hout]; [rewrite (Hgone j Hin) in Hj; discriminate|].
    rewrite (Hkeep j Hout) in Hj. eapply A; eauto.
  - intros n u Hu. destruct (Hsub n u Hu) as [Hu0 _]. destruct (B n u Hu0) as [c0 [Hc0 R]]. exists c0. split; [|exact R].
    destruct (decide (u_conn u ∈ cl)) as [Hin|Hout].
    + destruct (iw_uc w' I2 n u Hu) as [c1 [Hc1 _]]. rewrite (Hgone _ Hin) in Hc1. discriminate.
    + now rewrite (Hkeep _ Hout).
Qed.

Theorem step_src w i e w' o cl : Inv w -> SrcW w -> step cfg verify w i e = Ok (w', o, cl) -> SrcW w'.
Proof.
  intros I W H. unfold step in H.
  destruct (step_raw_ok cfg verify w i e (InvK_of_Inv w I)) as [w1 [o1 [c1 [E1 K1]]]]. rewrite E1 in H. cbn [rbind] in H.
  destruct (deliver_kills cfg w1) as [[[w2 o2] c2]|] eqn:E2; cbn [rbind] in H; [|discriminate]. injection H as <- _ _.
  eapply deliver_kills_src; [exact K1| |exact E2]. eapply step_raw_src; [exact (InvK_of_Inv w I)|exact W|exact E1].
Qed.

Lemma run_src evs : forall w w' outs, Inv w -> SrcW w -> run cfg verify w evs = Ok (w', outs) -> SrcW w'.
Proof.
  induction evs as [|[i e] evs IH]; intros w w' outs I W H; cbn [run] in H.
  - injection H as <- _. exact W.
  - destruct (step cfg verify w i e) as [[[w1 o] cl]|] eqn:Hs; cbn [rbind] in H; [|discriminate].
    destruct (run cfg verify w1 evs) as [[w2 rest]|] eqn:Hr; cbn [rbind] in H; [|discriminate]. injection H as <- _.
    destruct (step_ok cfg verify w i e I) as [w1' [o' [cl' [Hs' I1]]]]. rewrite Hs in Hs'. injection Hs' as <- _ _.
    eapply IH; [exact I1| |exact Hr]. exact (step_src w i e w1 o cl I W Hs).
Qed.

Theorem reachable_src w : reachable cfg verify w -> SrcW w.
Proof. intros [evs [outs H]]. eapply run_src; [apply Inv_init|apply SrcW_init|exact H]. Qed.

(* the statement: in every reachable world, the source of every registered user - the prefix of every
   line it originates - is nick!~user@host with the nick it is registered under NOW, the user name it gave
   and its host; the owning connection caches the same string *)
Theorem source_is_identity w n u : reachable cfg verify w -> users (sh w) !! n = Some u ->
  u_source u = n ++ [c_excl] ++ (c_tilde :: u_name u) ++ (c_at :: u_host u) /\
  exists c, conns w !! u_conn u = Some c /\ c_auth c = true /\ c_nick c = Some n /\ c_source c = u_source u.
Proof.
  intros R Hu. destruct (reachable_src w R) as [A B]. destruct (reachable_inv cfg verify w R) as [I _].
  destruct (iw_uc w I n u Hu) as [c [Hc [Ha Hn]]]. destruct (B n u Hu) as [c' [Hc' [R1 [R2 R3]]]].
  rewrite Hc in Hc'. injection Hc' as <-. pose proof (A _ c Hc) as S. unfold src_ok in S. rewrite Hn, R1, R2 in S.
  split; [rewrite R3, S; unfold make_source; now rewrite <- app_assoc|]. exists c. auto.
Qed.

End world.
