(* PresenceP.v - ISON and USERHOST list exactly the queried nicknames that are registered, with the
   operator and away flags of the user records. *)
From IRC Require Import Str Wild Glob Mask Parse Reply State Handlers Step.
From IRCP Require Import StrP ViewsP.
From stdpp Require Import gmap.
Open Scope N_scope.

Local Arguments lit : simpl never.

Lemma concat_map_chunks {A B} (f : list A -> list B) n (l : list A) :
  (0 < n)%nat -> (forall a b, f (a ++ b) = f a ++ f b) -> f [] = [] ->
  concat (List.map f (chunks n l)) = f l.
Proof.
  intros Hn Happ Hnil. rewrite <- (concat_chunks n l Hn) at 2.
  induction (chunks n l) as [|x xs IH]; cbn [List.map concat]; [now rewrite Hnil|]. now rewrite Happ, IH.
Qed.

Section presence.
Context (cfg : config) (i : nat).

Definition registered_b (s : shared) (n : str) : bool := is_Some_b (users s !! n).

(* ISON: the nicknames of all 303 replies together are exactly the queried nicknames that are
   registered, in the order asked, with repetitions as asked *)
Theorem ison_exact s c nicks :
  process_ison cfg i s c nicks =
    hr s c (mine cfg i (List.map (fun ch => rpl_ison (client_name c) (List.filter (registered_b s) ch)) (chunks 20 nicks))) /\
  concat (List.map (List.filter (registered_b s)) (chunks 20 nicks)) = List.filter (registered_b s) nicks.
Proof.
  split; [reflexivity|]. apply concat_map_chunks; [lia| |reflexivity]. intros a b. apply List.filter_app.
Qed.

Definition userhost_entry (s : shared) (n : str) : option str :=
  match users s !! n with
  | Some u => Some (n ++ (if is_local_oper (u_modes u) then lit "*" else [])
                      ++ lit "=" ++ (match u_away u with Some _ => lit "-" | None => lit "+" end)
                      ++ lit "~" ++ u_name u ++ lit "@" ++ u_host u)
  | None => None
  end.

(* USERHOST: one entry per queried registered nickname, '*' iff (local) operator, '-' iff away *)
Theorem userhost_exact s c nicks :
  process_userhost cfg i s c nicks =
    hr s c (mine cfg i (List.map (fun ch => rpl_userhost (client_name c) (omap (userhost_entry s) ch)) (chunks 20 nicks))) /\
  concat (List.map (omap (userhost_entry s)) (chunks 20 nicks)) = omap (userhost_entry s) nicks.
Proof.
  split; [reflexivity|]. apply concat_map_chunks; [lia| |reflexivity]. intros a b. apply omap_app.
Qed.

End presence.
