(* ModesGlobal.v - over whole steps (any event of any connection): the user modes of a record
   change only through the user's own MODE and OPER commands; a record appears with the configured
   default modes (registration) or moves with its modes (NICK).  Consequence: operator status,
   once held, is lost only through the user's own MODE command or the end of the session. *)
From IRC Require Import Str Wild Glob Mask Parse Reply State Handlers Step.
From IRCP Require Import StrP InvDefs InvPrims InvHandlers InvStep Reach NickP OperP ModesFrame.
From stdpp Require Import gmap.
Open Scope N_scope.

Local Arguments lit : simpl never.

Definition urel := str -> umodes -> umodes -> Prop.

Definition uchg (P : urel) (s s' : shared) : Prop :=
  forall n u', users s' !! n = Some u' ->
    exists u, users s !! n = Some u /\ u_conn u' = u_conn u /\ P n (u_modes u) (u_modes u').

Definition ueq : urel := fun _ a b => b = a.
(* MODE: only the sender's own record *)
Definition uown (nick : str) : urel := fun n a b => n <> nick -> b = a.
(* OPER: only the sender's own record; the operator flag is not cleared, the local-operator flag not touched *)
Definition uoper (nick : str) : urel := fun n a b =>
  (n <> nick -> b = a) /\ (um_oper a = true -> um_oper b = true) /\ um_local_oper b = um_local_oper a.

Lemma uchg_of_keeps_nk s s' : keeps_nk s s' -> uchg ueq s s'.
Proof. intros [K _] n u' H. destruct (K n u' H) as [u [Hu [Hc Hm]]]. exists u. auto. Qed.

Lemma uchg_refl s : uchg ueq s s.
Proof. intros n u H. exists u. unfold ueq. auto. Qed.

Section frame.
Context (cfg : config) (verify : str -> str -> bool) (i : nat).

Inductive modes_effect (nick : str) : command -> urel -> Prop :=
| ue_oper name pw : modes_effect nick (OPER name pw) (uoper nick)
| ue_mode target modes : modes_effect nick (MODE target modes) (uown nick)
| ue_other cmd : (forall name pw, cmd <> OPER name pw) -> (forall target modes, cmd <> MODE target modes) ->
                 (forall n, cmd <> NICK n) -> modes_effect nick cmd ueq.

(* every command but NICK: records stay under their nicks; the user modes change as [modes_effect] allows *)
Theorem dispatch_modes s c cmd msg r nick :
  InvS s -> conn_ok i s c -> c_auth c = true -> c_nick c = Some nick ->
  dispatch cfg verify i s c cmd msg = Ok r -> (forall n, cmd <> NICK n) ->
  exists P, modes_effect nick cmd P /\ uchg P s (h_sh r).
Proof.
  intros I C A Hnick H Hnn.
  destruct (own_user i s c C A) as [nick0 [u [Hn [Hu [Hc [Ho Hg]]]]]].
  assert (nick0 = nick) as -> by congruence.
  assert (forall cmd0, (forall name pw, cmd0 <> OPER name pw) -> (forall target modes, cmd0 <> MODE target modes) -> (forall n, cmd0 <> NICK n) ->
            uchg ueq s (h_sh r) -> exists P, modes_effect nick cmd0 P /\ uchg P s (h_sh r)) as Other.
  { intros cmd0 N1 N2 N3 M. exists ueq. split; [now apply ue_other|exact M]. }
  assert (forall r0, same_result s c r0 -> uchg ueq s (h_sh r0)) as Same.
  { intros r0 [E _]. rewrite E. apply uchg_refl. }
  assert (forall (P : res hres), (exists r0, P = Ok r0 /\ same_result s c r0) -> P = Ok r -> uchg ueq s (h_sh r)) as S2.
  { intros P [r0 [-> Hs]] [= <-]. now apply Same. }
  assert (forall o, Ok {| h_sh := s; h_conn := c; h_out := o; h_quit := false |} = Ok r -> uchg ueq s (h_sh r)) as S3.
  { intros o [= <-]. apply uchg_refl. }
  destruct cmd; cbn [dispatch] in H;
    try (apply Other; [intros; discriminate|intros; discriminate|intros; discriminate|]).
  - (* CAP *) unfold process_cap in H. destruct sub.
    + injection H as <-. apply uchg_refl.
    + injection H as <-. apply uchg_refl.
    + destruct caps as [cs|]; [destruct (forallb _ cs)|]; injection H as <-; apply uchg_refl.
    + rewrite A in H. injection H as <-. apply uchg_refl.
  - injection H as <-. apply uchg_refl.
  - unfold process_pass in H. rewrite A in H. injection H as <-. apply uchg_refl.
  - exfalso. eapply Hnn. reflexivity.
  - unfold process_user in H. rewrite A in H. injection H as <-. apply uchg_refl.
  - injection H as <-. apply uchg_refl.
  - injection H as <-. apply uchg_refl.
  - (* OPER *)
    exists (uoper nick). split; [constructor|].
    destruct (oper_spec cfg verify i s c name password nick u Hn Hu) as [r0 [Hr [_ [_ Hacc]]]].
    rewrite Hr in H. injection H as <-. destruct (oper_accepted cfg verify c name password).
    + destruct Hacc as [Hus _]. intros n u' Hu'. rewrite Hus in Hu'. destruct (decide (n = nick)) as [->|N1].
      * rewrite lookup_insert in Hu'. injection Hu' as <-. exists u. split; [exact Hu|]. split; [destruct u; reflexivity|].
        unfold uoper. destruct u; cbn. split; [congruence|]. auto.
      * rewrite lookup_insert_ne in Hu' by congruence. exists u'. split; [exact Hu'|]. split; [reflexivity|]. unfold uoper. auto.
    + destruct Hacc as [E _]. rewrite E. intros n u' Hu'. exists u'. unfold uoper. auto.
  - (* QUIT *) injection H as <-. apply uchg_refl.
  - apply uchg_of_keeps_nk, keeps_weaken. eapply join_keeps; eauto.
  - apply uchg_of_keeps_nk, keeps_weaken. eapply part_keeps; eauto.
  - apply uchg_of_keeps_nk, keeps_weaken. eapply topic_keeps; eauto.
  - eapply S2; [|exact H]. now apply process_names_ok.
  - unfold process_list in H. destruct server; eapply S3; exact H.
  - apply uchg_of_keeps_nk, keeps_weaken. eapply invite_keeps; eauto.
  - apply uchg_of_keeps_nk, keeps_weaken. eapply kick_keeps; eauto.
  - unfold process_motd in H. destruct target; eapply S3; exact H.
  - unfold process_version in H. destruct target; eapply S3; exact H.
  - unfold process_admin in H. destruct target; eapply S3; exact H.
  - eapply S3; exact H.
  - unfold process_lusers in H. destruct (lusers_lines s (client_name c)); cbn [rbind] in H; [|discriminate]. eapply S3; exact H.
  - unfold process_time in H. destruct server; eapply S3; exact H.
  - unfold process_stats in H. destruct server; [eapply S3; exact H|].
    rewrite Ho in H. cbn [rbind] in H. rewrite Hg in H. cbn [rbind] in H. destruct (is_local_oper _); eapply S3; exact H.
  - unfold process_links in H. destruct remote_server, server_mask; eapply S3; exact H.
  - unfold process_help in H. destruct (help_topic _); eapply S3; exact H.
  - eapply S3; exact H.
  - (* MODE *)
    exists (uown nick). split; [constructor|].
    assert (uchg ueq s (h_sh r) -> uchg (uown nick) s (h_sh r)) as W.
    { intros M n u' Hu'. destruct (M n u' Hu') as [u0 [H0 [C0 E0]]]. exists u0. unfold uown. auto. }
    unfold process_mode in H. rewrite Ho in H. cbn [rbind] in H. destruct (validate_channel target).
    + destruct (chans s !! target) as [co|]; [|apply W; eapply S3; exact H].
      destruct (ch_users co !! nick) as [rk|]; [|apply W; eapply S3; exact H].
      apply W, uchg_of_keeps_nk, keeps_weaken. eapply mode_channel_keeps; eauto.
    + destruct (bool_decide (nick = target)).
      * destruct (mode_user_no_grant cfg i s c nick modes r u Hu H) as [m' [Hus _]].
        intros n u' Hu'. rewrite Hus in Hu'. destruct (decide (n = nick)) as [->|N1].
        -- rewrite lookup_insert in Hu'. injection Hu' as <-. exists u. split; [exact Hu|]. split; [destruct u; reflexivity|]. unfold uown. congruence.
        -- rewrite lookup_insert_ne in Hu' by congruence. exists u'. unfold uown. auto.
      * apply W. destruct (users s !! target); eapply S3; exact H.
  - eapply S2; [|exact H]. now apply process_privmsg_ok.
  - eapply S2; [|exact H]. now apply process_privmsg_ok.
  - eapply S2; [|exact H]. now apply process_who_ok.
  - eapply S2; [|exact H]. now apply process_whois_ok.
  - unfold process_whowas in H. destruct server; eapply S3; exact H.
  - apply uchg_of_keeps_nk. eapply kill_keeps; eauto.
  - eapply S3; exact H.
  - eapply S3; exact H.
  - unfold process_squit in H. destruct (bool_decide _); [apply uchg_of_keeps_nk; eapply die_keeps; eauto|eapply S3; exact H].
  - apply uchg_of_keeps_nk, keeps_weaken. eapply away_keeps; eauto.
  - eapply S3; exact H.
  - eapply S2; [|exact H]. now apply process_wallops_ok.
  - eapply S3; exact H.
  - apply uchg_of_keeps_nk. eapply die_keeps; eauto.
Qed.

(* where the record [u'] found under [n] after one line of connection [i] comes from *)
Definition modes_source (s : shared) (c : conn) (l : str) (n : str) (u' : user) : Prop :=
  (exists n0 u, users s !! n0 = Some u /\ u_conn u = u_conn u' /\ u_modes u' = u_modes u) \/
  (c_auth c = true /\ exists msg cmd nick P u, tokenize l = inl msg /\ command_of_message msg = inl cmd /\
      c_nick c = Some nick /\ modes_effect nick cmd P /\ users s !! n = Some u /\ u_conn u = u_conn u' /\
      P n (u_modes u) (u_modes u')) \/
  (c_auth c = false /\ users s !! n = None /\ u_conn u' = i /\
   um_oper (u_modes u') = um_oper (cfg_default_umodes cfg) /\ um_local_oper (u_modes u') = um_local_oper (cfg_default_umodes cfg)).

Theorem line_modes_source s c l r : InvS s -> conn_ok i s c ->
  process_line cfg verify i s c l = Ok r ->
  forall n u', users (h_sh r) !! n = Some u' -> modes_source s c l n u'.
Proof.
  intros I C H n u' Hu'.
  assert (forall o, Ok {| h_sh := s; h_conn := c; h_out := o; h_quit := false |} = Ok r -> modes_source s c l n u') as Same.
  { intros o [= <-]. cbn in Hu'. left. eauto. }
  unfold process_line in H. destruct (tokenize l) as [msg|[| |]] eqn:Ht; try (eapply Same; exact H).
  destruct (command_of_message msg) as [cmd|e] eqn:Hcmd; [|eapply Same; exact H].
  destruct (needs_registration cmd && negb (c_auth c)) eqn:G; [eapply Same; exact H|].
  destruct (c_auth c) eqn:A.
  - destruct (own_user i s c C A) as [nick [u [Hn [Hu [Hc [Ho Hg]]]]]].
    destruct (match cmd with NICK _ => true | _ => false end) eqn:En.
    + destruct cmd; try discriminate En. cbn [dispatch] in H.
      destruct (decide (nickname = nick)) as [->|Hne].
      { rewrite (process_nick_same cfg verify i s c msg nick A Hn) in H. injection H as <-. left. eauto. }
      destruct (users s !! nickname) as [x|] eqn:Hx.
      { rewrite (process_nick_refused cfg verify i s c nickname msg nick x A Hn Hne Hx) in H. injection H as <-. left. eauto. }
      destruct (process_nick_effect cfg verify i s c nickname msg nick u I A Hn Hu Hne Hx) as [r0 [Hr [_ [_ [Hus _]]]]].
      rewrite Hr in H. injection H as <-. rewrite Hus in Hu'. left. destruct (decide (n = nickname)) as [->|N1].
      * rewrite lookup_insert in Hu'. injection Hu' as <-. exists nick, u. destruct u; auto.
      * rewrite lookup_insert_ne in Hu' by congruence. destruct (decide (n = nick)) as [->|N2]; [now rewrite lookup_delete in Hu'|].
        rewrite lookup_delete_ne in Hu' by congruence. eauto.
    + destruct (dispatch_modes s c cmd msg r nick I C A Hn H) as [P [Hme M]].
      { intros n1 ->. discriminate En. }
      destruct (M n u' Hu') as [u0 [Hu0 [Hc0 Hp]]]. right. left. split; [exact A|]. exists msg, cmd, nick, P, u0. auto 10.
  - cbn in G. rewrite andb_true_r in G.
    destruct (unauth_dispatch_fresh cfg verify i s c cmd msg r A G H) as [E|[nick [u [Hfree [Hus [Hcu [Hmo Hml]]]]]]].
    + rewrite E in Hu'. left. eauto.
    + rewrite Hus in Hu'. destruct (decide (n = nick)) as [->|N1].
      * rewrite lookup_insert in Hu'. injection Hu' as <-. right. right. auto.
      * rewrite lookup_insert_ne in Hu' by congruence. left. eauto.
Qed.

End frame.

Section global.
Context (cfg : config) (verify : str -> str -> bool).

Definition step_modes_source (w : world) (i : nat) (e : event) (n : str) (u' : user) : Prop :=
  (exists n0 u, users (sh w) !! n0 = Some u /\ u_conn u = u_conn u' /\ u_modes u' = u_modes u) \/
  (exists c l, conns w !! i = Some c /\ e = EvLine l /\
     ((c_auth c = true /\ exists msg cmd nick P u, tokenize l = inl msg /\ command_of_message msg = inl cmd /\
         c_nick c = Some nick /\ modes_effect nick cmd P /\ users (sh w) !! n = Some u /\ u_conn u = u_conn u' /\
         P n (u_modes u) (u_modes u')) \/
      (c_auth c = false /\ users (sh w) !! n = None /\ u_conn u' = i /\
       um_oper (u_modes u') = um_oper (cfg_default_umodes cfg) /\ um_local_oper (u_modes u') = um_local_oper (cfg_default_umodes cfg)))).

Theorem modes_follow_commands w i e w' o cl : Inv w -> step cfg verify w i e = Ok (w', o, cl) ->
  forall n u', users (sh w') !! n = Some u' -> step_modes_source w i e n u'.
Proof.
  intros I H n u' Hu'. pose proof (InvK_of_Inv w I) as K. unfold step in H.
  destruct (step_raw cfg verify w i e) as [[[w1 o1] c1]|] eqn:H1; [|discriminate]. cbn [rbind] in H.
  destruct (step_raw_frame cfg verify w i e w1 o1 c1 K H1) as [K1 _].
  destruct (deliver_kills_ok cfg w1 K1) as [w2 [o2 [c2 [H2 [_ [Hsub _]]]]]].
  rewrite H2 in H. cbn [rbind] in H. injection H as <- _ _.
  destruct (Hsub n u' Hu') as [Hu1 _]. clear Hu' Hsub H2.
  assert (forall c, conns w !! i = Some c -> forall (o0 : outl) (cl0 : list nat),
            (let! wx := teardown i w in Ok (wx, o0, cl0)) = Ok (w1, o1, c1) -> step_modes_source w i e n u') as TD.
  { intros c Hc o0 cl0 E. destruct (teardown_ok i w c K Hc) as [wx [Ht [_ [_ [Hs _]]]]]. rewrite Ht in E. cbn [rbind] in E.
    injection E as <- _ _. destruct (Hs n u' Hu1) as [Hu0 _]. left. eauto. }
  assert (Ok (w, @nil (nat * str), @nil nat) = Ok (w1, o1, c1) -> step_modes_source w i e n u') as Same.
  { intros [= <- _ _]. left. eauto. }
  destruct e; cbn [step_raw] in H1.
  - destruct (conns w !! i); [now apply Same|]. destruct (server_quit (sh w)); [injection H1 as <- _ _; left; eauto|].
    destruct (match cfg_max_connections cfg with Some m => N.ltb (nconns w) m | None => true end); injection H1 as <- _ _; left; eauto.
  - destruct (conns w !! i) as [c|] eqn:Hc; [|now apply Same].
    destruct (process_line cfg verify i (sh w) c l) as [r|] eqn:Hr; cbn [rbind] in H1; [|discriminate].
    assert (users (h_sh r) !! n = Some u') as Hur.
    { destruct (h_quit r).
      - set (wl := {| sh := h_sh r; conns := <[i := h_conn r]> (conns w); nconns := nconns w |}) in *.
        destruct (process_line_ok cfg verify i (sh w) c l (ik_s w K) (ik_cu w K i c Hc) (ik_st w K i c Hc)) as [r' [Hr' R]].
        rewrite Hr in Hr'. injection Hr' as <-. pose proof (InvK_line i w c r K Hc R) as Kl.
        assert (conns wl !! i = Some (h_conn r)) as Hcl by (cbn; now rewrite lookup_insert).
        destruct (teardown_ok i wl _ Kl Hcl) as [wx [Ht [_ [_ [Hs _]]]]]. rewrite Ht in H1. cbn [rbind] in H1.
        injection H1 as <- _ _. destruct (Hs n u' Hu1) as [Hx _]. exact Hx.
      - injection H1 as <- _ _. exact Hu1. }
    destruct (line_modes_source cfg verify i (sh w) c l r (ik_s w K) (ik_cu w K i c Hc) Hr n u' Hur) as [L|[R|R]].
    + left. exact L.
    + right. exists c, l. auto.
    + right. exists c, l. auto.
  - destruct (conns w !! i) as [c|] eqn:Hc; [|now apply Same]. eapply TD; eauto.
  - destruct (conns w !! i) as [c|] eqn:Hc; [|now apply Same]. eapply TD; eauto.
  - destruct (conns w !! i) as [c|] eqn:Hc; [|now apply Same]. eapply TD; eauto.
  - destruct (conns w !! i) as [c|] eqn:Hc; [|now apply Same]. injection H1 as <- _ _. left. eauto.
  - destruct (conns w !! i) as [c|] eqn:Hc; [|now apply Same]. eapply TD; eauto.
Qed.

(* operator status, once held, is lost by a user who stays connected only through its own MODE command;
   nobody else's command and no other command of its own takes it away *)
Theorem oper_lost_only_by_own_mode w i e w' o cl n u' n0 u : Inv w -> step cfg verify w i e = Ok (w', o, cl) ->
  users (sh w') !! n = Some u' -> users (sh w) !! n0 = Some u -> u_conn u = u_conn u' ->
  um_oper (u_modes u) = true -> um_oper (u_modes u') = false ->
  u_conn u' = i /\ exists c l msg target modes, conns w !! i = Some c /\ c_auth c = true /\ e = EvLine l /\ tokenize l = inl msg /\
                                                 command_of_message msg = inl (MODE target modes).
Proof.
  intros I H Hu' Hu Hcc Hop Hno. pose proof (InvK_of_Inv w I) as K.
  destruct (modes_follow_commands w i e w' o cl I H n u' Hu') as [[n1 [u1 [Hu1 [Hc1 Hm1]]]]|[c [l [Hc [-> [R|R]]]]]].
  - assert (n1 = n0) as -> by (eapply (owner_inj w); eauto; congruence). assert (u1 = u) as -> by congruence. congruence.
  - destruct R as [A [msg [cmd [nick [P [u1 [Ht [Hcmd [Hn [Hme [Hu1 [Hc1 Hp]]]]]]]]]]]].
    assert (n = n0) as -> by (eapply (owner_inj w); eauto; congruence). assert (u1 = u) as -> by congruence.
    destruct Hme as [name pw|target modes|cmd N1 N2 N3].
    + destruct Hp as [_ [Hk _]]. rewrite (Hk Hop) in Hno. discriminate.
    + unfold uown in Hp. destruct (decide (n0 = nick)) as [->|Hne]; [|rewrite (Hp Hne) in Hno; congruence].
      destruct (ik_cu w K i c Hc A) as [nick' [u2 [Hn2 [Hu2 Hci]]]]. assert (nick' = nick) as -> by congruence. assert (u2 = u) as -> by congruence.
      split; [congruence|]. exists c, l, msg, target, modes. auto 10.
    + unfold ueq in Hp. rewrite Hp in Hno. congruence.
  - destruct R as [A [_ [Hci _]]]. destruct (ik_uc w K _ _ Hu) as [c0 [Hc0 [A0 _]]]. rewrite Hcc, Hci, Hc in Hc0. injection Hc0 as <-. congruence.
Qed.

End global.
