(* InvNick.v - the registered NICK change preserves the invariant (re-keys all eight containers). *)
From IRC Require Import Str Wild Glob Mask Parse Reply State Handlers Step.
From IRCP Require Import StrP ChanP ModeP InvDefs InvPrims.
From stdpp Require Import gmap.
Open Scope N_scope.

Definition chan_renamed (old new : str) (co : chan) : chan :=
  ch_set_modes (cmodes_rename old new (ch_modes co))
    (ch_set_users (fun us => <[new := default rank_none (ch_users co !! old)]> (delete old us)) co).

Lemma chan_rename_user_ok old new co :
  old ∈ dom (ch_users co) -> chan_rename_user old new co = Ok (chan_renamed old new co).
Proof.
  intros H. apply elem_of_dom in H as [r Hr]. unfold chan_rename_user, chan_renamed. rewrite Hr. reflexivity.
Qed.

Lemma renamed_rankset old new co l :
  cm_get_rankset l (ch_modes (chan_renamed old new co)) = rename_in_set old new (cm_get_rankset l (ch_modes co)).
Proof. destruct l; reflexivity. Qed.

Lemma ranks_ok_renamed old new co :
  ranks_ok co -> old ∈ dom (ch_users co) -> new ∉ dom (ch_users co) -> new <> old -> ranks_ok (chan_renamed old new co).
Proof.
  intros Hr Ho Hn Hne l n. rewrite renamed_rankset. unfold rename_in_set.
  apply elem_of_dom in Ho as [r0 Hr0]. cbn. rewrite Hr0. cbn.
  assert (new ∉ cm_get_rankset l (ch_modes co)) as Hnl.
  { intros H. apply Hr in H as [r [H _]]. apply Hn. now apply elem_of_dom_2 in H. }
  destruct (bool_decide (old ∈ cm_get_rankset l (ch_modes co))) eqn:Hb.
  - apply bool_decide_eq_true in Hb. pose proof Hb as Hb'. apply Hr in Hb' as [r [Hr1 Hg]].
    rewrite Hr0 in Hr1. injection Hr1 as <-.
    destruct (decide (n = new)) as [->|Hnn].
    + rewrite lookup_insert. split; [intros _; eauto|set_solver].
    + rewrite lookup_insert_ne by congruence. destruct (decide (n = old)) as [->|Hno].
      * rewrite lookup_delete. split; [set_solver|intros [r [[=] _]]].
      * rewrite lookup_delete_ne by congruence. rewrite <- (Hr l n). set_solver.
  - apply bool_decide_eq_false in Hb.
    destruct (decide (n = new)) as [->|Hnn].
    + rewrite lookup_insert. split; [intros H; contradiction|].
      intros [r [[= <-] Hg]]. exfalso. apply Hb. apply Hr. eauto.
    + rewrite lookup_insert_ne by congruence. destruct (decide (n = old)) as [->|Hno].
      * rewrite lookup_delete. split; [intros H; contradiction|intros [r [[=] _]]].
      * rewrite lookup_delete_ne by congruence. apply Hr.
Qed.

Definition rename_step (old new : str) (s : shared) (ch : str) : res shared :=
  let! co := get_chan s ch in
  let! co' := chan_rename_user old new co in
  Ok (set_chans (fun cs => <[ch := co']> cs) s).

Lemma fold_rename old new : forall l s0,
  NoDup l -> (forall c, c ∈ l -> exists co, chans s0 !! c = Some co /\ old ∈ dom (ch_users co)) ->
  exists s1, rfold (rename_step old new) l s0 = Ok s1 /\
    (forall c, chans s1 !! c = if bool_decide (c ∈ l) then option_map (chan_renamed old new) (chans s0 !! c) else chans s0 !! c) /\
    users s1 = users s0 /\ wallops s1 = wallops s0 /\ inv_count s1 = inv_count s0 /\ op_count s1 = op_count s0 /\
    max_users s1 = max_users s0 /\ histories s1 = histories s0 /\ server_quit s1 = server_quit s0.
Proof.
  induction l as [|c l IH]; intros s0 Hnd Hm; cbn [rfold].
  - exists s0. repeat split; try reflexivity.
  - apply NoDup_cons in Hnd as [Hcl Hnd]. destruct (Hm c (elem_of_list_here _ _)) as [co [Hco Ho]].
    unfold rename_step at 1, get_chan. rewrite Hco. cbn [rbind]. rewrite (chan_rename_user_ok _ _ _ Ho). cbn [rbind].
    set (s' := set_chans (fun cs => <[c := chan_renamed old new co]> cs) s0).
    destruct (IH s' Hnd) as [s1 [Hf [Hcs Hrest]]].
    { intros c' Hc'. destruct (Hm c' (elem_of_list_further _ _ _ Hc')) as [co' [Hco' Ho']].
      exists co'. split; [|exact Ho']. cbn. rewrite lookup_insert_ne; [exact Hco'|]. intros <-. contradiction. }
    exists s1. split; [exact Hf|]. split; [|exact Hrest].
    intros c'. rewrite Hcs. cbn. destruct (decide (c' = c)) as [->|Hne].
    + rewrite (bool_decide_eq_false_2 (c ∈ l)) by exact Hcl. rewrite bool_decide_eq_true_2 by set_solver.
      rewrite lookup_insert, Hco. reflexivity.
    + rewrite lookup_insert_ne by congruence.
      destruct (bool_decide (c' ∈ l)) eqn:E.
      * rewrite bool_decide_eq_true_2; [reflexivity|]. apply bool_decide_eq_true in E. set_solver.
      * rewrite bool_decide_eq_false_2; [reflexivity|]. apply bool_decide_eq_false in E. set_solver.
Qed.

(* the state after an accepted NICK change *)
Lemma InvS_rename s old new u u' s1 :
  InvS s -> users s !! old = Some u -> users s !! new = None -> new <> old ->
  u_chans u' = u_chans u -> u_modes u' = u_modes u ->
  (forall c, chans s1 !! c = if bool_decide (c ∈ u_chans u) then option_map (chan_renamed old new) (chans s !! c) else chans s !! c) ->
  users s1 = <[new := u']> (delete old (users s)) ->
  wallops s1 = (if bool_decide (old ∈ wallops s) then {[new]} ∪ (wallops s ∖ {[old]}) else wallops s) ->
  inv_count s1 = inv_count s -> op_count s1 = op_count s ->
  InvS s1.
Proof.
  intros I Hu Hnew Hne Hc Hm Hcs Hus Hw Hi Ho. destruct I as [Iuc Icu Irk Iwl Ici Ico Ine].
  assert (forall ch co, chans s !! ch = Some co -> new ∉ dom (ch_users co)) as Hnn.
  { intros ch co Hco Hin. destruct (Icu _ _ _ Hco Hin) as [x [Hx _]]. congruence. }
  assert (forall ch co, chans s !! ch = Some co -> (ch ∈ u_chans u <-> old ∈ dom (ch_users co))) as Hmem.
  { intros ch co Hco. split.
    - intros Hch. destruct (Iuc _ _ _ Hu Hch) as [co' [Hco' Hin]]. congruence.
    - intros Hin. destruct (Icu _ _ _ Hco Hin) as [x [Hx Hch]]. congruence. }
  split.
  - intros n0 u0 ch H Hch. rewrite Hus in H. rewrite Hcs. destruct (decide (n0 = new)) as [->|Hn0].
    + rewrite lookup_insert in H. injection H as <-. rewrite Hc in Hch.
      rewrite bool_decide_eq_true_2 by exact Hch. destruct (Iuc _ _ _ Hu Hch) as [co [Hco Hin]].
      rewrite Hco. cbn. eexists. split; [reflexivity|]. cbn. rewrite dom_insert_L. set_solver.
    + rewrite lookup_insert_ne in H by congruence. destruct (decide (n0 = old)) as [->|Hno]; [now rewrite lookup_delete in H|].
      rewrite lookup_delete_ne in H by congruence. destruct (Iuc _ _ _ H Hch) as [co [Hco Hin]]. rewrite Hco.
      destruct (bool_decide (ch ∈ u_chans u)); cbn; eexists; (split; [reflexivity|]); [|exact Hin].
      cbn. rewrite dom_insert_L, dom_delete_L. set_solver.
  - intros ch co' n0 H Hn0. rewrite Hcs in H. rewrite Hus.
    destruct (chans s !! ch) as [co|] eqn:Hco; [|destruct (bool_decide (ch ∈ u_chans u)); cbn in H; discriminate H].
    destruct (bool_decide (ch ∈ u_chans u)) eqn:Hb.
    + apply bool_decide_eq_true in Hb. cbn in H. injection H as <-. cbn in Hn0.
      rewrite dom_insert_L, dom_delete_L in Hn0. destruct (decide (n0 = new)) as [->|Hnn0].
      * exists u'. rewrite lookup_insert, Hc. auto.
      * assert (n0 ∈ dom (ch_users co) /\ n0 <> old) as [Hin Hno] by set_solver.
        destruct (Icu _ _ _ Hco Hin) as [x [Hx Hch]]. exists x.
        rewrite lookup_insert_ne by congruence. rewrite lookup_delete_ne by congruence. auto.
    + apply bool_decide_eq_false in Hb. injection H as <-. destruct (Icu _ _ _ Hco Hn0) as [x [Hx Hch]].
      assert (n0 <> old) by (intros ->; apply Hb; congruence).
      assert (n0 <> new) by (intros ->; congruence).
      exists x. rewrite lookup_insert_ne by congruence. rewrite lookup_delete_ne by congruence. auto.
  - intros ch co' H. rewrite Hcs in H.
    destruct (chans s !! ch) as [co|] eqn:Hco; [|destruct (bool_decide (ch ∈ u_chans u)); cbn in H; discriminate H].
    destruct (bool_decide (ch ∈ u_chans u)) eqn:Hb.
    + apply bool_decide_eq_true in Hb. cbn in H. injection H as <-.
      apply ranks_ok_renamed; eauto. now apply (Hmem _ _ Hco).
    + injection H as <-. eauto.
  - intros n0. rewrite Hw, Hus. destruct (decide (n0 = new)) as [->|Hn0].
    + rewrite lookup_insert. destruct (bool_decide (old ∈ wallops s)) eqn:Hb.
      * apply bool_decide_eq_true in Hb. apply Iwl in Hb as [x [Hx Hwx]]. rewrite Hu in Hx. injection Hx as <-.
        split; [intros _; exists u'; split; [reflexivity|congruence]|set_solver].
      * apply bool_decide_eq_false in Hb. split.
        -- intros H. apply Iwl in H as [x [Hx _]]. congruence.
        -- intros [x [[= <-] Hwx]]. exfalso. apply Hb. apply Iwl. exists u. split; [exact Hu|congruence].
    + rewrite lookup_insert_ne by congruence. destruct (decide (n0 = old)) as [->|Hno].
      * rewrite lookup_delete. split; [|intros [x [[=] _]]].
        destruct (bool_decide (old ∈ wallops s)) eqn:Hb; [set_solver|]. apply bool_decide_eq_false in Hb. contradiction.
      * rewrite lookup_delete_ne by congruence. rewrite <- Iwl. destruct (bool_decide (old ∈ wallops s)); set_solver.
  - rewrite Hi, Hus, Ici. f_equal. rewrite cnt_insert_new by (rewrite lookup_delete_ne by congruence; exact Hnew).
    pose proof (cnt_delete (fun u => um_invisible (u_modes u)) _ _ _ Hu) as Hd. cbn in Hd. rewrite Hm. lia.
  - rewrite Ho, Hus, Ico. f_equal. rewrite cnt_insert_new by (rewrite lookup_delete_ne by congruence; exact Hnew).
    pose proof (cnt_delete (fun u => is_local_oper (u_modes u)) _ _ _ Hu) as Hd. cbn in Hd. rewrite Hm. lia.
  - intros ch co' H Hp. rewrite Hcs in H.
    destruct (chans s !! ch) as [co|] eqn:Hco; [|destruct (bool_decide (ch ∈ u_chans u)); cbn in H; discriminate H].
    destruct (bool_decide (ch ∈ u_chans u)) eqn:Hb.
    + cbn in H. injection H as <-. cbn. intros E.
      assert (<[new := default rank_none (ch_users co !! old)]> (delete old (ch_users co)) !! new = Some (default rank_none (ch_users co !! old))) as F by apply lookup_insert.
      rewrite E in F. now rewrite lookup_empty in F.
    + injection H as <-. eauto.
Qed.
