(* InviteP.v - an invitation grants ONE admission: INVITE puts the channel into the invitee's pending
   set; any accepted JOIN to that channel - to the existing channel or re-creating it - takes it out
   again, so the next JOIN to the invite-only channel is refused unless a new INVITE or an
   invite-exception mask admits it. *)
From IRC Require Import Str Wild Glob Mask Parse Reply State Handlers Step.
From IRCP Require Import StrP BanP JoinP.
From stdpp Require Import gmap.
Open Scope N_scope.

Local Arguments lit : simpl never.

(* the pending invitation admits: whatever the invite-exception list says *)
Lemma invited_allows co inv ch source :
  invite_allows co (u_set_invited (fun v => {[ch]} ∪ v) inv) ch source.
Proof. right. left. destruct inv; cbn. set_solver. Qed.

(* an accepted JOIN (existing channel or creation) uses the invitation up - and only that one *)
Theorem join_uses_invitation nick s ch create s' u :
  users s !! nick = Some u -> join_insert nick s (ch, (true, create)) = Ok s' ->
  exists u', users s' !! nick = Some u' /\ u_invited u' = u_invited u ∖ {[ch]} /\ ch ∉ u_invited u' /\
    (forall co source, cm_invite_only (ch_modes co) = true -> ~ matches_any (cm_invex (ch_modes co)) source ->
                       ~ invite_allows co u' ch source).
Proof.
  intros Hu. unfold join_insert, get_user. cbn [negb]. rewrite Hu. cbn [rbind].
  set (u1 := u_set_invited (fun v => v ∖ {[ch]}) (u_set_chans (fun cs => {[ch]} ∪ cs) u)).
  assert (u_invited u1 = u_invited u ∖ {[ch]}) as E by (destruct u; reflexivity).
  assert (forall s0, users s0 = <[nick := u1]> (users s) -> exists u', users s0 !! nick = Some u' /\ u_invited u' = u_invited u ∖ {[ch]} /\ ch ∉ u_invited u' /\
            (forall co source, cm_invite_only (ch_modes co) = true -> ~ matches_any (cm_invex (ch_modes co)) source -> ~ invite_allows co u' ch source)) as K.
  { intros s0 Hs. exists u1. split; [rewrite Hs; apply lookup_insert|]. split; [exact E|]. split; [rewrite E; set_solver|].
    intros co source Hi Hx [A|[A|A]]; [congruence|rewrite E in A; set_solver|contradiction]. }
  destruct create.
  - intros [= <-]. apply K. reflexivity.
  - unfold get_chan. cbn [chans set_users]. destruct (chans s !! ch); cbn [rbind]; [|discriminate]. intros [= <-]. apply K. reflexivity.
Qed.

(* a refused entry of a JOIN leaves the pending invitations alone *)
Lemma refused_join_keeps_invitation nick s ch create : join_insert nick s (ch, (false, create)) = Ok s.
Proof. reflexivity. Qed.
