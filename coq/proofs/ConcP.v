(* ConcP.v - every interleaving of whole commands is a run of the model; outputs keep the order of
   the commands; the one handler whose check and update are separate critical sections
   (unregistered NICK: unlocked look-up, then authenticate re-checks under the write lock) is safe
   for every state that other connections may have produced in between. *)
From IRC Require Import Str Wild Glob Mask Parse Reply State Handlers Step.
From IRCP Require Import StrP InvDefs InvHandlers InvStep Reach.
From stdpp Require Import gmap.
Open Scope N_scope.

Local Arguments lit : simpl never.

Section conc.
Context (cfg : config) (verify : str -> str -> bool).

(* running a history in two parts: same final world, outputs concatenated in order *)
Lemma run_app a : forall w b,
  run cfg verify w (a ++ b) =
  (let! (w1, o1) := run cfg verify w a in let! (w2, o2) := run cfg verify w1 b in Ok (w2, o1 ++ o2)).
Proof.
  induction a as [|[i e] a IH]; intros w b; cbn [app run rbind].
  - destruct (run cfg verify w b) as [[w2 o2]|]; reflexivity.
  - destruct (step cfg verify w i e) as [[[w1 o] cl]|]; [|reflexivity]. cbn [rbind]. rewrite IH.
    destruct (run cfg verify w1 a) as [[w2 o2]|]; [|reflexivity]. cbn [rbind].
    destruct (run cfg verify w2 b) as [[w3 o3]|]; reflexivity.
Qed.

(* the lines one step sends to one connection, in order *)
Definition to_conn (j : nat) (o : outl) : list str := List.map snd (List.filter (fun x => Nat.eqb (fst x) j) o).
Definition conn_view (j : nat) (outs : list (outl * list nat)) : list str := concat (List.map (fun x => to_conn j (fst x)) outs).

(* what connection j receives during a history is what it receives during the first part followed
   by what it receives during the rest: nothing is reordered across commands *)
Theorem view_in_command_order a b w w' outs j :
  run cfg verify w (a ++ b) = Ok (w', outs) ->
  exists w1 o1 o2, run cfg verify w a = Ok (w1, o1) /\ run cfg verify w1 b = Ok (w', o2) /\
    conn_view j outs = conn_view j o1 ++ conn_view j o2.
Proof.
  rewrite run_app. destruct (run cfg verify w a) as [[w1 o1]|] eqn:E1; [|discriminate]. cbn [rbind].
  destruct (run cfg verify w1 b) as [[w2 o2]|] eqn:E2; [|discriminate]. cbn [rbind]. intros [= <- <-].
  exists w1, o1, o2. split; [reflexivity|]. split; [exact E2|]. unfold conn_view. now rewrite map_app, concat_app.
Qed.

(* the split NICK handler: the look-up saw s_check, the commit runs on s_commit *)
Definition split_nick (i : nat) (s_check s_commit : shared) (c : conn) (nick : str) : res hres :=
  match users s_check !! nick with
  | Some _ => hr s_commit c [(i, srv cfg (err_nicknameinuse (client_name c) nick))]
  | None => authenticate cfg verify i s_commit (c_with_nick nick c)
  end.

(* whatever the other connections did between the look-up and the commit, the outcome on the
   state at commit time is either inert or the registration of a nick that is free THEN *)
Theorem split_nick_safe i s_check s_commit c nick :
  InvS s_commit -> c_auth c = false -> c_sender_taken c = false ->
  exists r, split_nick i s_check s_commit c nick = Ok r /\ unauth_result i s_commit r.
Proof.
  intros I A T. unfold split_nick. destruct (users s_check !! nick).
  - eexists. split; [reflexivity|]. left. cbn. auto.
  - apply authenticate_ok; auto.
Qed.

(* with both looks at the same state it is the sequential handler *)
Theorem split_nick_sequential i s c nick msg :
  c_auth c = false -> split_nick i s s c nick = process_nick cfg verify i s c nick msg.
Proof. intros A. unfold split_nick, process_nick. rewrite A. reflexivity. Qed.

(* linearisation points of the split handler: if the look-up found the nick free and it is still
   free at commit time, the whole handler is the sequential one executed at commit time; if the
   look-up found it taken, the handler answers 433 and touches nothing - the sequential one executed
   at look-up time *)
Theorem split_nick_linearises_at_commit i s_check s_commit c nick msg :
  c_auth c = false -> users s_check !! nick = None -> users s_commit !! nick = None ->
  split_nick i s_check s_commit c nick = process_nick cfg verify i s_commit c nick msg.
Proof. intros A H1 H2. unfold split_nick, process_nick. rewrite A, H1, H2. reflexivity. Qed.

Theorem split_nick_linearises_at_check i s_check s_commit c nick msg x :
  c_auth c = false -> users s_check !! nick = Some x ->
  (exists r, split_nick i s_check s_commit c nick = Ok r /\ h_sh r = s_commit /\ h_conn r = c) /\
  (exists r, process_nick cfg verify i s_check c nick msg = Ok r /\ h_sh r = s_check /\ h_conn r = c).
Proof.
  intros A H1. unfold split_nick, process_nick. rewrite A, H1. cbn [negb]. split; eexists; (split; [reflexivity|]); cbn; auto.
Qed.

(* the remaining case - free at look-up, taken at commit - is the registration race itself: the
   commit refuses (C18_registration_window_safe), nobody gets a nick twice *)

End conc.
