(* ConcP.v - every interleaving of whole commands is a run of the model; outputs keep the order of
   the commands; the one handler whose check and update are separate critical sections
   (unregistered NICK: unlocked look-up, then authenticate re-checks under the write lock) is safe
   for every state that other connections may have produced in between. *)
From IRC Require Import Str Wild Glob Mask Parse Reply State Handlers Step.
From IRCP Require Import StrP InvDefs InvHandlers InvStep Reach.
From stdpp Require Import gmap.
Open Scope N_scope.

Local Arguments lit : simpl never.

Section conc.
Context (cfg : config) (verify : str -> str -> bool).

(* running a history in two parts: same final world, outputs concatenated in order *)
Lemma run_app a : forall w b,
  run cfg verify w (a ++ b) =
  (let! (w1, o1) := run cfg verify w a in let! (w2, o2) := run cfg verify w1 b in Ok (w2, o1 ++ o2)).
Proof.
  induction a as [|[i e] a IH]; intros w b; cbn [app run rbind].
  - destruct (run cfg verify w b) as [[w2 o2]|]; reflexivity.
  - destruct (step cfg verify w i e) as [[[w1 o] cl]|]; [|reflexivity]. cbn [rbind]. rewrite IH.
    destruct (run cfg verify w1 a) as [[w2 o2]|]; [|reflexivity]. cbn [rbind].
    destruct (run cfg verify w2 b) as [[w3 o3]|]; reflexivity.
Qed.

(* the lines one step sends to one connection, in order *)
Definition to_conn (j : nat) (o : outl) : list str := List.map snd (List.filter (fun x => Nat.eqb (fst x) j) o).
Definition conn_view (j : nat) (outs : list (outl * list nat)) : list str := concat (List.map (fun x => to_conn j (fst x)) outs).

(* what connection j receives during a history is what it receives during the first part followed
   by what it receives during the rest: nothing is reordered across commands *)
Theorem view_in_command_order a b w w' outs j :
  run cfg verify w (a ++ b) = Ok (w', outs) ->
  exists w1 o1 o2, run cfg verify w a = Ok (w1, o1) /\ run cfg verify w1 b = Ok (w', o2) /\
    conn_view j outs = conn_view j o1 ++ conn_view j o2.
Proof.
  rewrite run_app. destruct (run cfg verify w a) as [[w1 o1]|] eqn:E1; [|discriminate]. cbn [rbind].
  destruct (run cfg verify w1 b) as [[w2 o2]|] eqn:E2; [|discriminate]. cbn [rbind]. intros [= <- <-].
  exists w1, o1, o2. split; [reflexivity|]. split; [exact E2|]. unfold conn_view. now rewrite map_app, concat_app.
Qed.

(* the split NICK handler: the look-up saw s_check, the commit runs on s_commit *)
Definition split_nick (i : nat) (s_check s_commit : shared) (c : conn) (nick : str) : res hres :=
  match users s_check !! nick with
  | Some _ => hr s_commit c [(i, srv cfg (err_nicknameinuse (client_name c) nick))]
  | None => authenticate cfg verify i s_commit (c_with_nick nick c)
  end.

(* whatever the other connections did between the look-up and the commit, the outcome on the
   state at commit time is either inert or the registration of a nick that is free THEN *)
Theorem split_nick_safe i s_check s_commit c nick :
  InvS s_commit -> c_auth c = false -> c_sender_taken c = false ->
  exists r, split_nick i s_check s_commit c nick = Ok r /\ unauth_result i s_commit r.
Proof.
  intros I A T. unfold split_nick. destruct (users s_check !! nick).
  - eexists. split; [reflexivity|]. left. cbn. auto.
  - apply authenticate_ok; auto.
Qed.

(* with both looks at the same state it is the sequential handler *)
Theorem split_nick_sequential i s c nick msg :
  c_auth c = false -> split_nick i s s c nick = process_nick cfg verify i s c nick msg.
Proof. intros A. unfold split_nick, process_nick. rewrite A. reflexivity. Qed.

(* linearisation points of the split handler: if the look-up found the nick free and it is still
   free at commit time, the whole handler is the sequential one executed at commit time; if the
   look-up found it taken, the handler answers 433 and touches nothing - the sequential one executed
   at look-up time *)
Theorem split_nick_linearises_at_commit i s_check s_commit c nick msg :
  c_auth c = false -> users s_check !! nick = None -> users s_commit !! nick = None ->
  split_nick i s_check s_commit c nick = process_nick cfg verify i s_commit c nick msg.
Proof. intros A H1 H2. unfold split_nick, process_nick. rewrite A, H1, H2. reflexivity. Qed.

Theorem split_nick_linearises_at_check i s_check s_commit c nick msg x :
  c_auth c = false -> users s_check !! nick = Some x ->
  (exists r, split_nick i s_check s_commit c nick = Ok r /\ h_sh r = s_commit /\ h_conn r = c) /\
  (exists r, process_nick cfg verify i s_check c nick msg = Ok r /\ h_sh r = s_check /\ h_conn r = c).
Proof.
  intros A H1. unfold split_nick, process_nick. rewrite A, H1. cbn [negb]. split; eexists; (split; [reflexivity|]); cbn; auto.
Qed.

(* the remaining case - free at look-up, taken at commit - is the registration race itself: the
   commit refuses (C18_registration_window_safe), nobody gets a nick twice *)

(* ---------------------------------------------------------------- KILL delivered late
   In the server a KILL only marks the victim and signals its task; the victim's own task tears the
   session down when it gets to run - at once in [step], but arbitrarily later when that task is stuck
   (e.g. writing to a client that does not read).  [lazy_step] is the schedule-free version: events are
   processed WITHOUT delivering pending KILLs, and [LDeliver j] is the moment connection j's task
   notices its mark.  Ownership survives every such schedule. *)
Inductive levent := LEvent (i : nat) (e : event) | LDeliver (j : nat).

Definition lazy_step (w : world) (x : levent) : res world :=
  match x with
  | LEvent i e => let! (w1, _, _) := step_raw cfg verify w i e in Ok w1
  | LDeliver j => match conns w !! j with Some _ => teardown j w | None => Ok w end
  end.

Fixpoint lazy_run (w : world) (xs : list levent) : res world :=
  match xs with
  | [] => Ok w
  | x :: xs' => let! w1 := lazy_step w x in lazy_run w1 xs'
  end.

Lemma lazy_step_ok w x : InvK w -> exists w', lazy_step w x = Ok w' /\ InvK w'.
Proof.
  intros K. destruct x as [i e|j]; cbn [lazy_step].
  - destruct (step_raw_ok cfg verify w i e K) as [w1 [o [cl [-> K1]]]]. cbn [rbind]. eauto.
  - destruct (conns w !! j) as [c|] eqn:Hc; [|eauto].
    destruct (teardown_ok j w c K Hc) as [w' [-> [K' _]]]. eauto.
Qed.

Theorem lazy_run_ok xs : forall w, InvK w -> exists w', lazy_run w xs = Ok w' /\ InvK w'.
Proof.
  induction xs as [|x xs IH]; intros w K; cbn [lazy_run]; [eauto|].
  destruct (lazy_step_ok w x K) as [w1 [-> K1]]. cbn [rbind]. apply IH, K1.
Qed.

(* whenever and in whatever order the marked connections notice their KILL - or never -: no abort, and in
   the world reached every nick has exactly one owner, a live registered connection carrying that nick,
   and every registered connection owns the record under its nick.  In particular a killed connection
   that has not yet noticed still holds its nick (a newcomer is refused), and its late teardown removes
   its own record only *)
Theorem deferred_kill_ownership xs :
  exists w, lazy_run (world_init cfg) xs = Ok w /\
    (forall n u, users (sh w) !! n = Some u ->
       exists c, conns w !! u_conn u = Some c /\ c_auth c = true /\ c_nick c = Some n) /\
    (forall i c, conns w !! i = Some c -> c_auth c = true ->
       exists n u, c_nick c = Some n /\ users (sh w) !! n = Some u /\ u_conn u = i).
Proof.
  destruct (lazy_run_ok xs (world_init cfg) (InvK_of_Inv _ (Inv_init cfg))) as [w [H K]].
  exists w. split; [exact H|]. split; [exact (ik_uc w K)|]. intros i c Hc A. exact (ik_cu w K i c Hc A).
Qed.

(* a late teardown removes the record of the connection it ends and nobody else's *)
Theorem late_teardown_own_only w j c w' : InvK w -> conns w !! j = Some c -> lazy_step w (LDeliver j) = Ok w' ->
  (forall n u, users (sh w') !! n = Some u -> users (sh w) !! n = Some u /\ u_conn u <> j) /\
  (forall n u, users (sh w) !! n = Some u -> u_conn u <> j -> users (sh w') !! n = Some u).
Proof.
  intros K Hc H. cbn [lazy_step] in H. rewrite Hc in H.
  destruct (teardown_ok j w c K Hc) as [w2 [E [_ [_ [A B]]]]]. rewrite H in E. injection E as <-. split; assumption.
Qed.

End conc.
