(* SecretP.v - what LIST, NAMES and WHO tell a client about a secret channel. *)
From IRC Require Import Str Wild Glob Mask Parse Reply State Handlers Step.
From IRCP Require Import StrP InvDefs InvHandlers.
From stdpp Require Import gmap.
Open Scope N_scope.

Local Arguments lit : simpl never.

(* the world in which the channel does not exist *)
Definition without (ch : str) (s : shared) : shared := set_chans (delete ch) s.

Section secret.
Context (cfg : config) (verify : str -> str -> bool) (i : nat).

Definition outs (r : res hres) : option outl := match r with Ok x => Some (h_out x) | Panic _ => None end.

(* LIST with explicit names: the same answer as if the secret channel did not exist *)
Theorem list_explicit_hides s c chs ch co :
  chans s !! ch = Some co -> cm_secret (ch_modes co) = true -> is_empty chs = false ->
  outs (process_list cfg i (without ch s) c chs None) = outs (process_list cfg i s c chs None).
Proof.
  intros Hco Hs He. unfold process_list. rewrite He. cbn [outs hr h_out].
  assert (forall cn, chans (without ch s) !! cn = if decide (cn = ch) then None else chans s !! cn) as Hl.
  { intros cn. unfold without. cbn. destruct (decide (cn = ch)) as [->|Hne]; [apply lookup_delete|apply lookup_delete_ne; congruence]. }
  assert (forall l : list str, omap (M:=list) (fun cn => match chans (without ch s) !! cn with
                          | Some co => if cm_secret (ch_modes co) then None
                                       else Some (list_line (client_name c) cn co)
                          | None => None
                          end) l =
                    omap (M:=list) (fun cn => match chans s !! cn with
                          | Some co => if cm_secret (ch_modes co) then None
                                       else Some (list_line (client_name c) cn co)
                          | None => None
                          end) l) as E.
  { induction l as [|cn l IH]; [reflexivity|]. cbn [omap list_omap]. rewrite IH, (Hl cn).
    destruct (decide (cn = ch)) as [->|Hne]; [|reflexivity]. now rewrite Hco, Hs. }
  now rewrite E.
Qed.

(* LIST without arguments: the same lines (the order of LIST lines is the hash-map order in the
   implementation; the statement is up to permutation of the body) *)
Theorem list_all_hides s c ch co :
  chans s !! ch = Some co -> cm_secret (ch_modes co) = true ->
  exists body body', body ≡ₚ body' /\
    outs (process_list cfg i s c [] None) = Some (mine cfg i ([rpl_liststart (client_name c)] ++ body ++ [rpl_listend (client_name c)])) /\
    outs (process_list cfg i (without ch s) c [] None) = Some (mine cfg i ([rpl_liststart (client_name c)] ++ body' ++ [rpl_listend (client_name c)])).
Proof.
  intros Hco Hs. unfold process_list. cbn [is_empty outs hr h_out].
  set (f := fun '(cn, co) => if cm_secret (ch_modes co) then None else Some (list_line (client_name c) cn co)).
  exists (omap f (map_to_list (chans s))), (omap f (map_to_list (delete ch (chans s)))).
  split; [|split; reflexivity].
  rewrite <- (map_to_list_delete (chans s) ch co Hco). cbn [omap list_omap]. unfold f at 1. now rewrite Hs.
Qed.

(* NAMES: a secret channel contributes no line at all for a non-member ... *)
Theorem names_secret_outsider s c client nick ch co with_end :
  cm_secret (ch_modes co) = true -> nick ∉ dom (ch_users co) ->
  names_lines s c client nick ch co with_end = Ok [].
Proof.
  intros Hs Hn. unfold names_lines. rewrite Hs. cbn [negb orb]. now rewrite bool_decide_eq_false_2.
Qed.

(* ... which, for NAMES with an explicit name, is NOT the answer for a channel that does not
   exist (366 End of /NAMES): the outsider can tell the two worlds apart.  This is the recorded
   finding names-explicit-secret-silence (the maintainer's test pins the silence). *)
Theorem names_explicit_refuted s c nick ch co :
  c_nick c = Some nick -> chans s !! ch = Some co -> cm_secret (ch_modes co) = true -> nick ∉ dom (ch_users co) ->
  outs (process_names cfg i s c [ch]) = Some [] /\
  outs (process_names cfg i (without ch s) c [ch]) = Some [(i, srv cfg (rpl_endofnames (client_name c) ch))].
Proof.
  intros Hn Hco Hs Hm. unfold process_names, own_nick. rewrite Hn. cbn [rbind is_empty rfold]. split.
  - rewrite Hco. rewrite (names_secret_outsider s c _ nick ch co true Hs Hm). reflexivity.
  - unfold without. cbn [chans set_chans]. rewrite lookup_delete. reflexivity.
Qed.

(* WHO with the channel's name: an outsider gets the bare 315, as for a channel that does not exist *)
Theorem who_channel_hides s c nick viewer ch co :
  c_nick c = Some nick -> users s !! nick = Some viewer ->
  contains c_star ch || contains c_qmark ch = false -> validate_channel ch = true ->
  chans s !! ch = Some co -> cm_secret (ch_modes co) = true -> nick ∉ dom (ch_users co) ->
  outs (process_who cfg i s c ch) = Some [(i, srv cfg (rpl_endofwho (client_name c) ch))] /\
  outs (process_who cfg i (without ch s) c ch) = Some [(i, srv cfg (rpl_endofwho (client_name c) ch))].
Proof.
  intros Hn Hv Hw Hvc Hco Hs Hm. unfold process_who, own_nick, get_user. rewrite Hn. cbn [rbind].
  unfold without. cbn [users set_chans chans]. rewrite Hv. cbn [rbind]. rewrite Hw, Hvc. split.
  - rewrite Hco, Hs. cbn [negb orb]. rewrite bool_decide_eq_false_2 by exact Hm. reflexivity.
  - rewrite lookup_delete. reflexivity.
Qed.

(* WHO with ANY mask (wildcards, nicknames, other channels' names, the secret channel's own name):
   an outsider gets the same answer as in the world without the secret channel *)
Theorem who_hides s c nick ch co mask :
  c_nick c = Some nick -> chans s !! ch = Some co -> cm_secret (ch_modes co) = true -> nick ∉ dom (ch_users co) ->
  outs (process_who cfg i (without ch s) c mask) = outs (process_who cfg i s c mask).
Proof.
  intros Hn Hco Hs Hm. unfold process_who, own_nick, get_user. rewrite Hn. cbn [rbind].
  unfold without. cbn [users set_chans chans].
  destruct (users s !! nick) as [viewer|]; cbn [rbind]; [|reflexivity].
  destruct (contains c_star mask || contains c_qmark mask); [cbn [rbind hr outs h_out]; reflexivity|].
  destruct (validate_channel mask).
  2:{ destruct (validate_username mask); cbn [rbind hr outs h_out]; reflexivity. }
  destruct (decide (mask = ch)) as [->|Hne].
  - rewrite lookup_delete, Hco, Hs. cbn [negb orb]. rewrite bool_decide_eq_false_2 by exact Hm. cbn [rbind hr outs h_out]. reflexivity.
  - rewrite lookup_delete_ne by congruence. destruct (chans s !! mask) as [co1|]; [|cbn [rbind hr outs h_out]; reflexivity].
    destruct (negb (cm_secret (ch_modes co1)) || bool_decide (nick ∈ dom (ch_users co1))); [|cbn [rbind hr outs h_out]; reflexivity].
    match goal with |- context [rfold ?F ?l ?a] => destruct (rfold F l a) end; cbn [rbind hr outs h_out]; reflexivity.
Qed.

End secret.
