(* MsgGlobal.v - a PRIVMSG / NOTICE line of a registered connection, as a whole step: the world is unchanged, nobody is
   closed, and everything that is sent in the step - to anybody - is the concatenation, over the DISTINCT targets of the line,
   of what the one-target rule prescribes (C01_channel_exactly_once, C01_nick_target, C10): no other copy, no other line. *)
From IRC Require Import Str Wild Glob Mask Parse Reply State Handlers Step.
From IRCP Require Import StrP InvDefs InvPrims InvNick InvHandlers InvStep Reach ModesFrame MsgP OperP KickGlobal.
From stdpp Require Import gmap.
Open Scope N_scope.

Local Arguments lit : simpl never.

Section global.
Context (cfg : config) (verify : str -> str -> bool).

Lemma plain_line_step_out w i l c r w' o cl : Inv w -> step cfg verify w i (EvLine l) = Ok (w', o, cl) ->
  conns w !! i = Some c -> process_line cfg verify i (sh w) c l = Ok r -> h_quit r = false -> keeps (sh w) (h_sh r) ->
  sh w' = h_sh r /\ conns w' = <[i := h_conn r]> (conns w) /\ o = h_out r /\ cl = [].
Proof.
  intros I H Hc Hr Q [Kp _]. unfold step in H. cbn [step_raw] in H. rewrite Hc, Hr in H. cbn [rbind] in H. rewrite Q in H. cbn [rbind] in H.
  rewrite deliver_nil in H.
  - cbn [rbind] in H. injection H as E1 E2 E3. subst w' o cl. rewrite !app_nil_r. auto.
  - cbn [sh]. intros n u0 Hu0. destruct (Kp n u0 Hu0) as [u1 [Hu1 [_ [_ Hk]]]]. rewrite Hk. eapply (iw_nk w I); eauto.
Qed.

Theorem message_step w i l msg targets text (notice : bool) c w' o cl : Inv w -> step cfg verify w i (EvLine l) = Ok (w', o, cl) ->
  conns w !! i = Some c -> c_auth c = true -> tokenize l = inl msg ->
  command_of_message msg = inl (if notice then NOTICE targets text else PRIVMSG targets text) ->
  sh w' = sh w /\ conns w' = conns w /\ cl = [] /\
  exists nick outs, c_nick c = Some nick /\
    Forall2 (fun t x => exists d1, privmsg_one cfg i (sh w) c nick text notice t = Ok (x, d1)) (dedup_str targets) outs /\
    o = concat outs.
Proof.
  intros I H Hc A Ht Hcmd.
  assert (process_line cfg verify i (sh w) c l = process_privmsg_notice cfg i (sh w) c targets text notice) as El.
  { unfold process_line. rewrite Ht, Hcmd, A. destruct notice; reflexivity. }
  destruct (process_line cfg verify i (sh w) c l) as [r|] eqn:Hr.
  2:{ exfalso. unfold step in H. cbn [step_raw] in H. rewrite Hc, Hr in H. discriminate H. }
  symmetry in El. destruct (process_privmsg_notice_spec cfg i (sh w) c targets text notice r El) as [Es [Ec [Q [nick [outs [Hn [F Eo]]]]]]].
  assert (keeps (sh w) (h_sh r)) as Kp by (rewrite Es; apply keeps_refl).
  destruct (plain_line_step_out w i l c r w' o cl I H Hc Hr Q Kp) as [E1 [E2 [E3 E4]]].
  split; [congruence|]. split; [rewrite E2, Ec; apply insert_id; exact Hc|]. split; [exact E4|].
  exists nick, outs. split; [exact Hn|]. split; [exact F|]. congruence.
Qed.

(* a NOTICE line as a whole step: every line sent in the step, to anybody, is the relayed NOTICE itself - no numeric, no error
   reply, no away reply reaches the sender or anybody else; the state is unchanged and nobody is closed *)
Theorem notice_step_silent w i l msg targets text c w' o cl : Inv w -> step cfg verify w i (EvLine l) = Ok (w', o, cl) ->
  conns w !! i = Some c -> c_auth c = true -> tokenize l = inl msg -> command_of_message msg = inl (NOTICE targets text) ->
  sh w' = sh w /\ cl = [] /\ Forall (fun x => exists t, t ∈ targets /\ x.2 = msg_line c true t text) o.
Proof.
  intros I H Hc A Ht Hcmd.
  assert (process_line cfg verify i (sh w) c l = process_privmsg_notice cfg i (sh w) c targets text true) as El.
  { unfold process_line. rewrite Ht, Hcmd, A. reflexivity. }
  destruct (process_line cfg verify i (sh w) c l) as [r|] eqn:Hr.
  2:{ exfalso. unfold step in H. cbn [step_raw] in H. rewrite Hc, Hr in H. discriminate H. }
  symmetry in El. destruct (process_privmsg_notice_spec cfg i (sh w) c targets text true r El) as [Es [Ec [Q _]]].
  assert (keeps (sh w) (h_sh r)) as Kp by (rewrite Es; apply keeps_refl).
  destruct (plain_line_step_out w i l c r w' o cl I H Hc Hr Q Kp) as [E1 [E2 [E3 E4]]].
  split; [congruence|]. split; [exact E4|]. rewrite E3. exact (notice_silent cfg i (sh w) c targets text r El).
Qed.

(* a WALLOPS line as a whole step: from a (local) operator one copy to exactly the users with +w; from anybody else the one
   481 to the sender and NOTHING to anybody else; the state is unchanged and nobody is closed *)
Theorem wallops_step w i l msg text c w' o cl : Inv w -> step cfg verify w i (EvLine l) = Ok (w', o, cl) ->
  conns w !! i = Some c -> c_auth c = true -> tokenize l = inl msg -> command_of_message msg = inl (WALLOPS text) ->
  sh w' = sh w /\ cl = [] /\
  exists nick u, c_nick c = Some nick /\ users (sh w) !! nick = Some u /\
    if is_local_oper (u_modes u)
    then Forall2 (delivered (sh w) (to_string_with_source msg (c_source c))) (elements (wallops (sh w))) o
    else o = [(i, srv cfg (err_noprivileges (client_name c)))].
Proof.
  intros I H Hc A Ht Hcmd. pose proof (InvK_of_Inv w I) as K.
  destruct (own_user i (sh w) c (ik_cu w K i c Hc) A) as [nick [u [Hn [Hu [Hcu [Ho Hg]]]]]].
  assert (process_line cfg verify i (sh w) c l = process_wallops cfg i (sh w) c msg) as El.
  { unfold process_line. rewrite Ht, Hcmd, A. reflexivity. }
  destruct (process_line cfg verify i (sh w) c l) as [r|] eqn:Hr.
  2:{ exfalso. unfold step in H. cbn [step_raw] in H. rewrite Hc, Hr in H. discriminate H. }
  symmetry in El. destruct (wallops_spec cfg i (sh w) c nick u msg r Hn Hu El) as [Es [Ec [Q Sp]]].
  assert (keeps (sh w) (h_sh r)) as Kp by (rewrite Es; apply keeps_refl).
  destruct (plain_line_step_out w i l c r w' o cl I H Hc Hr Q Kp) as [E1 [E2 [E3 E4]]].
  split; [congruence|]. split; [exact E4|]. exists nick, u. split; [exact Hn|]. split; [exact Hu|]. rewrite E3. exact Sp.
Qed.

(* KILL and DIE from a connection without operator status, as whole steps: the one privilege error to the sender, nothing to
   anybody else, nobody closed, the state unchanged *)
Theorem kill_refused_step w i l msg target comment c nick u w' o cl : Inv w -> step cfg verify w i (EvLine l) = Ok (w', o, cl) ->
  conns w !! i = Some c -> c_auth c = true -> c_nick c = Some nick -> users (sh w) !! nick = Some u -> um_oper (u_modes u) = false ->
  tokenize l = inl msg -> command_of_message msg = inl (KILL target comment) ->
  sh w' = sh w /\ conns w' = conns w /\ cl = [] /\ o = [(i, srv cfg (err_noprivileges (client_name c)))].
Proof.
  intros I H Hc A Hn Hu Ho Ht Hcmd.
  assert (process_line cfg verify i (sh w) c l = hr (sh w) c [(i, srv cfg (err_noprivileges (client_name c)))]) as El.
  { unfold process_line. rewrite Ht, Hcmd, A. cbn. rewrite (kill_spec cfg i (sh w) c nick u target comment Hn Hu), Ho. reflexivity. }
  unfold hr in El.
  destruct (plain_line_step_out w i l c _ w' o cl I H Hc El eq_refl (keeps_refl _)) as [E1 [E2 [E3 E4]]]. cbn in *.
  split; [exact E1|]. split; [rewrite E2; apply insert_id; exact Hc|]. split; [exact E4|exact E3].
Qed.

Theorem die_refused_step w i l msg message c nick u w' o cl : Inv w -> step cfg verify w i (EvLine l) = Ok (w', o, cl) ->
  conns w !! i = Some c -> c_auth c = true -> c_nick c = Some nick -> users (sh w) !! nick = Some u -> um_oper (u_modes u) = false ->
  tokenize l = inl msg -> command_of_message msg = inl (DIE message) ->
  sh w' = sh w /\ conns w' = conns w /\ cl = [] /\ o = [(i, srv cfg (err_cantkillserver (client_name c)))].
Proof.
  intros I H Hc A Hn Hu Ho Ht Hcmd.
  assert (process_line cfg verify i (sh w) c l = hr (sh w) c [(i, srv cfg (err_cantkillserver (client_name c)))]) as El.
  { unfold process_line. rewrite Ht, Hcmd, A. cbn. rewrite (die_spec cfg i (sh w) c nick u message Hn Hu), Ho. reflexivity. }
  unfold hr in El.
  destruct (plain_line_step_out w i l c _ w' o cl I H Hc El eq_refl (keeps_refl _)) as [E1 [E2 [E3 E4]]]. cbn in *.
  split; [exact E1|]. split; [rewrite E2; apply insert_id; exact Hc|]. split; [exact E4|exact E3].
Qed.

End global.
