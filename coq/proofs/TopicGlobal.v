(* TopicGlobal.v - over whole steps (any event of any connection): a channel that exists before and after a
   step has the same topic unless the event is a TOPIC line of a registered connection naming that channel. *)
From IRC Require Import Str Wild Glob Mask Parse Reply State Handlers Step.
From IRCP Require Import StrP InvDefs InvPrims InvHandlers InvStep Reach ModesFrame SettingsFrame SettingsGlobal TopicFrame.
From stdpp Require Import gmap.
Open Scope N_scope.

Local Arguments lit : simpl never.

Section global.
Context (cfg : config) (verify : str -> str -> bool).

Definition topic_line_for (c : conn) (l : str) (ch : str) : Prop :=
  c_auth c = true /\ exists msg t, tokenize l = inl msg /\ command_of_message msg = inl (TOPIC ch t).

Theorem line_topic i s c l r : InvS s -> conn_ok i s c ->
  process_line cfg verify i s c l = Ok r ->
  forall ch co co', chans s !! ch = Some co -> chans (h_sh r) !! ch = Some co' -> tpc co' = tpc co \/ topic_line_for c l ch.
Proof.
  intros I C H ch co co' H1 H2.
  assert (forall o, Ok {| h_sh := s; h_conn := c; h_out := o; h_quit := false |} = Ok r -> tpc co' = tpc co \/ topic_line_for c l ch) as Same.
  { intros o [= <-]. cbn in H2. left. congruence. }
  unfold process_line in H. destruct (tokenize l) as [msg|[| |]] eqn:Ht; try (eapply Same; exact H).
  destruct (command_of_message msg) as [cmd|e] eqn:Hcmd; [|eapply Same; exact H].
  destruct (needs_registration cmd && negb (c_auth c)) eqn:G; [eapply Same; exact H|].
  destruct (c_auth c) eqn:A.
  - destruct (match cmd with TOPIC _ _ => true | _ => false end) eqn:Em.
    + destruct cmd; try discriminate Em. cbn [dispatch] in H.
      destruct (decide (ch = channel)) as [->|Hne]; [right; split; [exact A|eauto]|].
      left. eapply (topic_tkeeps_others cfg i s c channel topic msg r H); eauto.
    + left. eapply (dispatch_topic cfg verify i s c cmd msg r I C A H); eauto. intros t m ->. discriminate Em.
  - cbn in G. rewrite andb_true_r in G. left. rewrite (unauth_dispatch_chans cfg verify i s c cmd msg r A G H) in H2. congruence.
Qed.

Theorem topic_changes_only_by_topic w i e w' o cl : Inv w -> step cfg verify w i e = Ok (w', o, cl) ->
  forall ch co co', chans (sh w) !! ch = Some co -> chans (sh w') !! ch = Some co' ->
  tpc co' = tpc co \/
  exists c l, conns w !! i = Some c /\ e = EvLine l /\ topic_line_for c l ch.
Proof.
  intros I H ch co co' H1 H2. pose proof (InvK_of_Inv w I) as K. unfold step in H.
  destruct (step_raw cfg verify w i e) as [[[w1 o1] c1]|] eqn:Hr; [|discriminate]. cbn [rbind] in H.
  destruct (deliver_kills cfg w1) as [[[w2 o2] c2]|] eqn:Hk; [|discriminate]. cbn [rbind] in H. injection H as <- _ _.
  destruct (deliver_kills_tshrink cfg w1 w2 o2 c2 Hk ch co' H2) as [cx [Hx Ex]]. rewrite Ex. clear H2 Ex Hk co'.
  assert (forall c, conns w !! i = Some c -> forall (o0 : outl) (cl0 : list nat),
            (let! wx := teardown i w in Ok (wx, o0, cl0)) = Ok (w1, o1, c1) -> tpc cx = tpc co) as TD.
  { intros c Hc o0 cl0 E. destruct (teardown i w) as [wx|] eqn:Ht; cbn [rbind] in E; [|discriminate]. injection E as <- _ _.
    destruct (teardown_tshrink i w wx Ht ch cx Hx) as [c0 [H0 E0]]. congruence. }
  assert (Ok (w, @nil (nat * str), @nil nat) = Ok (w1, o1, c1) -> tpc cx = tpc co) as Same.
  { intros [= <- _ _]. congruence. }
  destruct e; cbn [step_raw] in Hr.
  - left. destruct (conns w !! i); [now apply Same|]. destruct (server_quit (sh w)); [injection Hr as <- _ _; congruence|].
    destruct (match cfg_max_connections cfg with Some m => N.ltb (nconns w) m | None => true end); injection Hr as <- _ _; cbn in Hx; congruence.
  - destruct (conns w !! i) as [c|] eqn:Hc; [|left; now apply Same].
    destruct (process_line cfg verify i (sh w) c l) as [r|] eqn:Hl; cbn [rbind] in Hr; [|discriminate].
    assert (exists c1', chans (h_sh r) !! ch = Some c1' /\ tpc cx = tpc c1') as [c1' [Hc1 E1]].
    { destruct (h_quit r).
      - destruct (teardown i _) as [wx|] eqn:Ht; cbn [rbind] in Hr; [|discriminate]. injection Hr as <- _ _.
        destruct (teardown_tshrink i _ wx Ht ch cx Hx) as [c0 [H0 E0]]. cbn in H0. eauto.
      - injection Hr as <- _ _. cbn in Hx. eauto. }
    rewrite E1. destruct (line_topic i (sh w) c l r (ik_s w K) (ik_cu w K i c Hc) Hl ch co c1' H1 Hc1) as [L|R]; [now left|].
    right. exists c, l. auto.
  - left. destruct (conns w !! i) as [c|] eqn:Hc; [|now apply Same]. eapply TD; eauto.
  - left. destruct (conns w !! i) as [c|] eqn:Hc; [|now apply Same]. eapply TD; eauto.
  - left. destruct (conns w !! i) as [c|] eqn:Hc; [|now apply Same]. eapply TD; eauto.
  - left. destruct (conns w !! i) as [c|] eqn:Hc; [|now apply Same]. injection Hr as <- _ _. congruence.
  - left. destruct (conns w !! i) as [c|] eqn:Hc; [|now apply Same]. eapply TD; eauto.
Qed.

End global.
