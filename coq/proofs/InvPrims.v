(* InvPrims.v - the state updates the handlers are built from preserve the invariant. *)
From IRC Require Import Str Wild Glob Mask Parse Reply State Handlers Step.
From IRCP Require Import StrP ChanP ModeP InvDefs.
From stdpp Require Import gmap.
Open Scope N_scope.

(* ---------------------------------------------------------------- a user record changes, memberships and modes do not *)
Lemma InvS_upd_user s n u u' :
  InvS s -> users s !! n = Some u -> u_chans u' = u_chans u -> u_modes u' = u_modes u ->
  InvS (set_users (fun us => <[n := u']> us) s).
Proof.
  intros I Hu Hc Hm. destruct I as [Iuc Icu Irk Iwl Ici Ico Ine]. split; cbn.
  - intros n0 u0 ch H Hch. destruct (decide (n0 = n)) as [->|Hn].
    + rewrite lookup_insert in H. injection H as <-. rewrite Hc in Hch. eauto.
    + rewrite lookup_insert_ne in H by congruence. eauto.
  - intros ch co n0 H Hn0. destruct (Icu _ _ _ H Hn0) as [u0 [H0 Hch]].
    destruct (decide (n0 = n)) as [->|Hn].
    + rewrite Hu in H0. injection H0 as <-. exists u'. rewrite lookup_insert, Hc. auto.
    + exists u0. rewrite lookup_insert_ne by congruence. auto.
  - exact Irk.
  - intros n0. rewrite Iwl. destruct (decide (n0 = n)) as [->|Hn].
    + rewrite lookup_insert, Hu. split; intros [x [[= <-] Hw]]; eexists; (split; [reflexivity|]); congruence.
    + now rewrite lookup_insert_ne by congruence.
  - rewrite Ici. f_equal. symmetry. eapply cnt_update_same; [exact Hu|]. now rewrite Hm.
  - rewrite Ico. f_equal. symmetry. eapply cnt_update_same; [exact Hu|]. now rewrite Hm.
  - exact Ine.
Qed.

(* ---------------------------------------------------------------- a channel record changes, members and rank lists do not *)
Lemma InvS_upd_chan s ch co co' :
  InvS s -> chans s !! ch = Some co -> ch_users co' = ch_users co ->
  (forall l, cm_get_rankset l (ch_modes co') = cm_get_rankset l (ch_modes co)) ->
  ch_preconf co' = ch_preconf co ->
  InvS (set_chans (fun cs => <[ch := co']> cs) s).
Proof.
  intros I Hco Hus Hrk Hpc. destruct I as [Iuc Icu Irk Iwl Ici Ico Ine]. split; cbn; try assumption.
  - intros n u c0 H Hc0. destruct (Iuc _ _ _ H Hc0) as [co0 [H0 Hn]].
    destruct (decide (c0 = ch)) as [->|Hne].
    + rewrite Hco in H0. injection H0 as <-. exists co'. rewrite lookup_insert, Hus. auto.
    + exists co0. rewrite lookup_insert_ne by congruence. auto.
  - intros c0 co0 n H Hn. destruct (decide (c0 = ch)) as [->|Hne].
    + rewrite lookup_insert in H. injection H as <-. rewrite Hus in Hn. eauto.
    + rewrite lookup_insert_ne in H by congruence. eauto.
  - intros c0 co0 H. destruct (decide (c0 = ch)) as [->|Hne].
    + rewrite lookup_insert in H. injection H as <-. intros l n. rewrite Hrk, Hus. exact (Irk _ _ Hco l n).
    + rewrite lookup_insert_ne in H by congruence. eauto.
  - intros c0 co0 H Hp. destruct (decide (c0 = ch)) as [->|Hne].
    + rewrite lookup_insert in H. injection H as <-. rewrite Hus. rewrite Hpc in Hp. eauto.
    + rewrite lookup_insert_ne in H by congruence. eauto.
Qed.

(* ---------------------------------------------------------------- a member's rank flag changes together with its list *)
Global Instance rankletter_eq_dec : EqDecision rankletter.
Proof. solve_decision. Defined.

Lemma get_set_rankset l' l f m :
  cm_get_rankset l' (cm_set_rankset l f m) = if decide (l' = l) then f (cm_get_rankset l m) else cm_get_rankset l' m.
Proof. destruct l, l'; reflexivity. Qed.

Lemma rank_get_set l' l b r :
  rank_get l' (rank_set l b r) = if decide (l' = l) then b else rank_get l' r.
Proof. destruct l, l'; reflexivity. Qed.

Lemma ranks_ok_set_rank co co' l b n :
  ranks_ok co -> chan_set_rank l b n co = Ok co' -> ranks_ok co'.
Proof.
  intros Hr. unfold chan_set_rank. destruct (ch_users co !! n) as [r|] eqn:Hn; [|discriminate].
  intros [= <-]. intros l' n'. cbn. rewrite get_set_rankset.
  destruct (decide (l' = l)) as [->|Hl].
  - destruct (decide (n' = n)) as [->|Hne].
    + rewrite lookup_insert. split.
      * intros H. eexists. split; [reflexivity|]. rewrite rank_get_set. rewrite decide_True by reflexivity.
        destruct b; [reflexivity|set_solver].
      * intros [r' [[= <-] Hg]]. rewrite rank_get_set, decide_True in Hg by reflexivity. subst b. set_solver.
    + rewrite lookup_insert_ne by congruence. rewrite <- (Hr l n'). destruct b; set_solver.
  - rewrite (Hr l' n'). destruct (decide (n' = n)) as [->|Hne].
    + rewrite lookup_insert, Hn. split.
      * intros [r' [[= <-] Hg]]. eexists. split; [reflexivity|]. rewrite rank_get_set, decide_False by exact Hl. exact Hg.
      * intros [r' [[= <-] Hg]]. rewrite rank_get_set, decide_False in Hg by exact Hl. eauto.
    + now rewrite lookup_insert_ne by congruence.
Qed.

Lemma InvS_set_rank s ch co co' l b n :
  InvS s -> chans s !! ch = Some co -> chan_set_rank l b n co = Ok co' ->
  InvS (set_chans (fun cs => <[ch := co']> cs) s).
Proof.
  intros I Hco Hsr. pose proof (chan_set_rank_frame l b n co co' Hsr) as [Hd [_ [Hp _]]].
  destruct I as [Iuc Icu Irk Iwl Ici Ico Ine]. split; cbn; try assumption.
  - intros n0 u c0 H Hc0. destruct (Iuc _ _ _ H Hc0) as [co0 [H0 Hn0]].
    destruct (decide (c0 = ch)) as [->|Hne].
    + rewrite Hco in H0. injection H0 as <-. exists co'. rewrite lookup_insert, Hd. auto.
    + exists co0. rewrite lookup_insert_ne by congruence. auto.
  - intros c0 co0 n0 H Hn0. destruct (decide (c0 = ch)) as [->|Hne].
    + rewrite lookup_insert in H. injection H as <-. rewrite Hd in Hn0. eauto.
    + rewrite lookup_insert_ne in H by congruence. eauto.
  - intros c0 co0 H. destruct (decide (c0 = ch)) as [->|Hne].
    + rewrite lookup_insert in H. injection H as <-. eapply ranks_ok_set_rank; [|exact Hsr]. eauto.
    + rewrite lookup_insert_ne in H by congruence. eauto.
  - intros c0 co0 H Hpc. destruct (decide (c0 = ch)) as [->|Hne].
    + rewrite lookup_insert in H. injection H as <-. rewrite Hp in Hpc. intros E.
      apply (Ine _ _ Hco Hpc). apply map_eq. intros k. rewrite lookup_empty.
      apply not_elem_of_dom. rewrite <- Hd, E, dom_empty_L. set_solver.
    + rewrite lookup_insert_ne in H by congruence. eauto.
Qed.

(* ---------------------------------------------------------------- registration: a fresh user without memberships *)
Lemma st_add_user_fields n u s :
  users (st_add_user n u s) = <[n := u]> (users s) /\ chans (st_add_user n u s) = chans s /\
  wallops (st_add_user n u s) = (if um_wallops (u_modes u) then {[n]} ∪ wallops s else wallops s) /\
  inv_count (st_add_user n u s) = (if um_invisible (u_modes u) then inv_count s + 1 else inv_count s) /\
  op_count (st_add_user n u s) = (if is_local_oper (u_modes u) then op_count s + 1 else op_count s) /\
  histories (st_add_user n u s) = histories s /\ server_quit (st_add_user n u s) = server_quit s.
Proof.
  unfold st_add_user.
  destruct (um_invisible (u_modes u)), (um_wallops (u_modes u)), (is_local_oper (u_modes u));
    cbn; match goal with |- context [if ?b then _ else _] => destruct b end; cbn; repeat split.
Qed.

Lemma InvS_add_user s n u :
  InvS s -> users s !! n = None -> u_chans u = ∅ -> InvS (st_add_user n u s).
Proof.
  intros I Hn Hc. destruct (st_add_user_fields n u s) as [Hus [Hcs [Hw [Hi [Ho _]]]]].
  destruct I as [Iuc Icu Irk Iwl Ici Ico Ine]. split.
  - intros n0 u0 ch H Hch. rewrite Hus in H. rewrite Hcs. destruct (decide (n0 = n)) as [->|Hne].
    + rewrite lookup_insert in H. injection H as <-. rewrite Hc in Hch. set_solver.
    + rewrite lookup_insert_ne in H by congruence. eauto.
  - intros ch co n0 H Hn0. rewrite Hcs in H. rewrite Hus. destruct (Icu _ _ _ H Hn0) as [u0 [H0 Hch]].
    exists u0. rewrite lookup_insert_ne; [auto|]. intros <-. congruence.
  - rewrite Hcs. exact Irk.
  - intros n0. rewrite Hw, Hus. destruct (decide (n0 = n)) as [->|Hne].
    + rewrite lookup_insert. destruct (um_wallops (u_modes u)) eqn:E.
      * split; [intros _; eauto|set_solver].
      * rewrite Iwl, Hn. split; [intros [x [[=] _]]|intros [x [[= <-] F]]; congruence].
    + rewrite lookup_insert_ne by congruence. rewrite <- Iwl.
      destruct (um_wallops (u_modes u)); set_solver.
  - rewrite Hi, Hus, Ici, cnt_insert_new by exact Hn. destruct (um_invisible (u_modes u)); lia.
  - rewrite Ho, Hus, Ico, cnt_insert_new by exact Hn. destruct (is_local_oper (u_modes u)); lia.
  - rewrite Hcs. exact Ine.
Qed.

(* ---------------------------------------------------------------- joining *)
Lemma chan_add_user_ranksets nick co l :
  cm_get_rankset l (ch_modes (chan_add_user nick co)) =
  (if bool_decide (nick ∈ d_get l (ch_default co)) then {[nick]} ∪ cm_get_rankset l (ch_modes co)
   else cm_get_rankset l (ch_modes co)).
Proof.
  unfold chan_add_user. cbn [fold_left].
  repeat match goal with |- context [bool_decide (nick ∈ ?P)] => destruct (bool_decide (nick ∈ P)) eqn:? end;
    destruct l; cbn in *; try reflexivity; congruence.
Qed.

Lemma ranks_ok_add_user nick co :
  ranks_ok co -> nick ∉ dom (ch_users co) -> ranks_ok (chan_add_user nick co).
Proof.
  intros Hr Hnm. destruct (chan_add_user_default nick co) as [r [Hus [Hrk _]]].
  intros l n. rewrite chan_add_user_ranksets, Hus. destruct (decide (n = nick)) as [->|Hne].
  - rewrite lookup_insert. specialize (Hrk l).
    destruct (bool_decide (nick ∈ d_get l (ch_default co))).
    + split; [intros _; eauto|set_solver].
    + split.
      * intros H. apply Hr in H as [r' [H' _]]. exfalso. apply Hnm. now apply elem_of_dom_2 in H'.
      * intros [r' [[= <-] F]]. congruence.
  - rewrite lookup_insert_ne by congruence. rewrite <- (Hr l n).
    destruct (bool_decide (nick ∈ d_get l (ch_default co))); set_solver.
Qed.

Lemma InvS_join_existing s nick u ch co u' :
  InvS s -> users s !! nick = Some u -> chans s !! ch = Some co -> nick ∉ dom (ch_users co) ->
  u_chans u' = {[ch]} ∪ u_chans u -> u_modes u' = u_modes u ->
  InvS (set_chans (fun cs => <[ch := chan_add_user nick co]> cs) (set_users (fun us => <[nick := u']> us) s)).
Proof.
  intros I Hu Hco Hnm Hc Hm. destruct (chan_add_user_default nick co) as [r [Hus [_ [_ [Hpc _]]]]].
  pose proof (ranks_ok_add_user nick co) as Hrk'.
  destruct I as [Iuc Icu Irk Iwl Ici Ico Ine]. split; cbn.
  - intros n0 u0 c0 H Hc0. destruct (decide (c0 = ch)) as [->|Hcne].
    + rewrite lookup_insert. eexists. split; [reflexivity|]. rewrite Hus, dom_insert_L.
      destruct (decide (n0 = nick)) as [->|Hne]; [set_solver|].
      rewrite lookup_insert_ne in H by congruence. destruct (Iuc _ _ _ H Hc0) as [co0 [H0 Hn0]].
      rewrite Hco in H0. injection H0 as <-. set_solver.
    + rewrite lookup_insert_ne by congruence. destruct (decide (n0 = nick)) as [->|Hne].
      * rewrite lookup_insert in H. injection H as <-. rewrite Hc in Hc0.
        apply elem_of_union in Hc0 as [Hx|Hx]; [set_solver|]. eauto.
      * rewrite lookup_insert_ne in H by congruence. eauto.
  - intros c0 co0 n0 H Hn0. destruct (decide (c0 = ch)) as [->|Hcne].
    + rewrite lookup_insert in H. injection H as <-. rewrite Hus, dom_insert_L in Hn0.
      destruct (decide (n0 = nick)) as [->|Hne].
      * exists u'. rewrite lookup_insert, Hc. split; [reflexivity|set_solver].
      * rewrite lookup_insert_ne by congruence. apply (Icu _ _ _ Hco). set_solver.
    + rewrite lookup_insert_ne in H by congruence. destruct (Icu _ _ _ H Hn0) as [u0 [H0 Hch]].
      destruct (decide (n0 = nick)) as [->|Hne].
      * rewrite Hu in H0. injection H0 as <-. exists u'. rewrite lookup_insert, Hc. split; [reflexivity|set_solver].
      * exists u0. rewrite lookup_insert_ne by congruence. auto.
  - intros c0 co0 H. destruct (decide (c0 = ch)) as [->|Hcne].
    + rewrite lookup_insert in H. injection H as <-. apply Hrk'; eauto.
    + rewrite lookup_insert_ne in H by congruence. eauto.
  - intros n0. rewrite Iwl. destruct (decide (n0 = nick)) as [->|Hne].
    + rewrite lookup_insert, Hu. split; intros [x [[= <-] Hw]]; eexists; (split; [reflexivity|]); congruence.
    + now rewrite lookup_insert_ne by congruence.
  - rewrite Ici. f_equal. symmetry. eapply cnt_update_same; [exact Hu|]. now rewrite Hm.
  - rewrite Ico. f_equal. symmetry. eapply cnt_update_same; [exact Hu|]. now rewrite Hm.
  - intros c0 co0 H Hp. destruct (decide (c0 = ch)) as [->|Hcne].
    + rewrite lookup_insert in H. injection H as <-. rewrite Hus. intros E.
      assert (<[nick := r]> (ch_users co) !! nick = Some r) as F by apply lookup_insert.
      rewrite E in F. now rewrite lookup_empty in F.
    + rewrite lookup_insert_ne in H by congruence. eauto.
Qed.

Lemma ranks_ok_new nick : ranks_ok (chan_new nick).
Proof.
  intros l n. cbn. destruct (decide (n = nick)) as [->|Hne].
  - rewrite lookup_singleton. destruct l; cbn; split; try set_solver;
      try (intros [r [[= <-] F]]; discriminate); intros _; eexists; split; reflexivity.
  - rewrite lookup_singleton_ne by congruence. destruct l; cbn; split; try set_solver; intros [r [[=] _]].
Qed.

Lemma InvS_join_create s nick u ch u' :
  InvS s -> users s !! nick = Some u -> chans s !! ch = None ->
  u_chans u' = {[ch]} ∪ u_chans u -> u_modes u' = u_modes u ->
  InvS (set_chans (fun cs => <[ch := chan_new nick]> cs) (set_users (fun us => <[nick := u']> us) s)).
Proof.
  intros I Hu Hco Hc Hm. destruct I as [Iuc Icu Irk Iwl Ici Ico Ine]. split; cbn.
  - intros n0 u0 c0 H Hc0. destruct (decide (c0 = ch)) as [->|Hcne].
    + rewrite lookup_insert. eexists. split; [reflexivity|]. cbn. rewrite dom_singleton_L.
      destruct (decide (n0 = nick)) as [->|Hne]; [set_solver|].
      rewrite lookup_insert_ne in H by congruence. destruct (Iuc _ _ _ H Hc0) as [co0 [H0 _]]. congruence.
    + rewrite lookup_insert_ne by congruence. destruct (decide (n0 = nick)) as [->|Hne].
      * rewrite lookup_insert in H. injection H as <-. rewrite Hc in Hc0.
        apply elem_of_union in Hc0 as [Hx|Hx]; [set_solver|]. eauto.
      * rewrite lookup_insert_ne in H by congruence. eauto.
  - intros c0 co0 n0 H Hn0. destruct (decide (c0 = ch)) as [->|Hcne].
    + rewrite lookup_insert in H. injection H as <-. cbn in Hn0. rewrite dom_singleton_L in Hn0.
      apply elem_of_singleton in Hn0 as ->. exists u'. rewrite lookup_insert, Hc. split; [reflexivity|set_solver].
    + rewrite lookup_insert_ne in H by congruence. destruct (Icu _ _ _ H Hn0) as [u0 [H0 Hch]].
      destruct (decide (n0 = nick)) as [->|Hne].
      * rewrite Hu in H0. injection H0 as <-. exists u'. rewrite lookup_insert, Hc. split; [reflexivity|set_solver].
      * exists u0. rewrite lookup_insert_ne by congruence. auto.
  - intros c0 co0 H. destruct (decide (c0 = ch)) as [->|Hcne].
    + rewrite lookup_insert in H. injection H as <-. apply ranks_ok_new.
    + rewrite lookup_insert_ne in H by congruence. eauto.
  - intros n0. rewrite Iwl. destruct (decide (n0 = nick)) as [->|Hne].
    + rewrite lookup_insert, Hu. split; intros [x [[= <-] Hw]]; eexists; (split; [reflexivity|]); congruence.
    + now rewrite lookup_insert_ne by congruence.
  - rewrite Ici. f_equal. symmetry. eapply cnt_update_same; [exact Hu|]. now rewrite Hm.
  - rewrite Ico. f_equal. symmetry. eapply cnt_update_same; [exact Hu|]. now rewrite Hm.
  - intros c0 co0 H Hp. destruct (decide (c0 = ch)) as [->|Hcne].
    + rewrite lookup_insert in H. injection H as <-. cbn. intros E.
      assert (({[nick := rank_creator]} : gmap str rank) !! nick = Some rank_creator) as F by apply lookup_singleton.
      rewrite E in F. now rewrite lookup_empty in F.
    + rewrite lookup_insert_ne in H by congruence. eauto.
Qed.

(* ---------------------------------------------------------------- leaving a channel *)
Lemma chan_remove_user_full nick c c' :
  chan_remove_user nick c = Ok c' ->
  ch_users c' = delete nick (ch_users c) /\
  (forall l, cm_get_rankset l (ch_modes c') = cm_get_rankset l (ch_modes c) ∖ {[nick]}) /\
  ch_preconf c' = ch_preconf c /\ ch_topic c' = ch_topic c /\ nick ∈ dom (ch_users c).
Proof.
  unfold chan_remove_user. cbn [rfold all_rankletters]. unfold chan_set_rank.
  destruct (ch_users c !! nick) as [r|] eqn:H; [|discriminate]. cbn.
  rewrite !lookup_insert. cbn. rewrite !lookup_insert. cbn. rewrite !lookup_insert. cbn. rewrite !lookup_insert. cbn.
  intros [= <-]. cbn. repeat split.
  - apply map_eq. intros k. destruct (decide (k = nick)) as [->|Hk].
    + now rewrite !lookup_delete.
    + rewrite !lookup_delete_ne by congruence. now rewrite !lookup_insert_ne by congruence.
  - intros []; reflexivity.
  - now apply elem_of_dom_2 in H.
Qed.

Lemma ranks_ok_remove nick c c' :
  ranks_ok c -> chan_remove_user nick c = Ok c' -> ranks_ok c'.
Proof.
  intros Hr H. apply chan_remove_user_full in H as [Hus [Hrk _]].
  intros l n. rewrite Hrk, Hus, elem_of_difference, elem_of_singleton, (Hr l n).
  destruct (decide (n = nick)) as [->|Hne].
  - rewrite lookup_delete. split; [intros [_ F]; congruence|intros [r [[=] _]]].
  - rewrite lookup_delete_ne by congruence. split; [intros [H _]; exact H|intros H; split; [exact H|exact Hne]].
Qed.

(* remove_user_from_channel for a user that is a member *)
Lemma InvS_remove_from_channel s ch nick u s' :
  InvS s -> users s !! nick = Some u -> ch ∈ u_chans u ->
  st_remove_user_from_channel ch nick s = Ok s' ->
  InvS s' /\
  users s' = <[nick := u_set_chans (fun cs => cs ∖ {[ch]}) u]> (users s) /\
  (forall c, c <> ch -> chans s' !! c = chans s !! c) /\
  wallops s' = wallops s /\ histories s' = histories s /\ server_quit s' = server_quit s.
Proof.
  intros I Hu Hch. destruct (is_uc s I _ _ _ Hu Hch) as [co [Hco Hmem]].
  unfold st_remove_user_from_channel. rewrite Hco.
  destruct (chan_remove_user nick co) as [co'|] eqn:Hr; cbn [rbind]; [|discriminate].
  pose proof (chan_remove_user_full _ _ _ Hr) as [Hus [Hrk [Hpc _]]].
  pose proof (ranks_ok_remove nick co co' (is_rk s I _ _ Hco) Hr) as Hrk'.
  destruct I as [Iuc Icu Irk Iwl Ici Ico Ine].
  destruct (Nat.eqb (size (ch_users co')) 0 && negb (ch_preconf co')) eqn:Hdel; cbn [rbind users set_chans]; rewrite Hu;
    intros [= <-]; cbn.
  - (* the channel is dropped *)
    apply andb_true_iff in Hdel as [Hsz Hnp]. apply Nat.eqb_eq, map_size_empty_inv in Hsz.
    assert (forall n, n ∈ dom (ch_users co) -> n = nick) as Honly.
    { intros n Hn. destruct (decide (n = nick)) as [|Hne]; [assumption|]. exfalso.
      apply elem_of_dom in Hn as [r Hr']. assert (ch_users co' !! n = Some r) as E.
      { rewrite Hus, lookup_delete_ne by congruence. exact Hr'. }
      rewrite Hsz in E. now rewrite lookup_empty in E. }
    split; [split; cbn|].
    + intros n0 u0 c0 H Hc0. destruct (decide (n0 = nick)) as [->|Hne].
      * rewrite lookup_insert in H. injection H as <-. cbn in Hc0.
        apply elem_of_difference in Hc0 as [Hc0 Hne']. rewrite lookup_delete_ne by set_solver. eauto.
      * rewrite lookup_insert_ne in H by congruence. destruct (Iuc _ _ _ H Hc0) as [co0 [H0 Hn0]].
        destruct (decide (c0 = ch)) as [->|Hcne].
        -- rewrite Hco in H0. injection H0 as <-. apply Honly in Hn0. congruence.
        -- rewrite lookup_delete_ne by congruence. eauto.
    + intros c0 co0 n0 H Hn0. destruct (decide (c0 = ch)) as [->|Hcne]; [now rewrite lookup_delete in H|].
      rewrite lookup_delete_ne in H by congruence. destruct (Icu _ _ _ H Hn0) as [u0 [H0 Hc0]].
      destruct (decide (n0 = nick)) as [->|Hne].
      * rewrite Hu in H0. injection H0 as <-. eexists. rewrite lookup_insert. split; [reflexivity|]. cbn. set_solver.
      * exists u0. rewrite lookup_insert_ne by congruence. auto.
    + intros c0 co0 H. destruct (decide (c0 = ch)) as [->|Hcne]; [now rewrite lookup_delete in H|].
      rewrite lookup_delete_ne in H by congruence. eauto.
    + intros n0. rewrite Iwl. destruct (decide (n0 = nick)) as [->|Hne].
      * rewrite lookup_insert, Hu. split; intros [x [[= <-] Hw]]; eexists; (split; [reflexivity|]); exact Hw.
      * now rewrite lookup_insert_ne by congruence.
    + rewrite Ici. f_equal. symmetry. eapply cnt_update_same; [exact Hu|reflexivity].
    + rewrite Ico. f_equal. symmetry. eapply cnt_update_same; [exact Hu|reflexivity].
    + intros c0 co0 H Hp. destruct (decide (c0 = ch)) as [->|Hcne]; [now rewrite lookup_delete in H|].
      rewrite lookup_delete_ne in H by congruence. eauto.
    + repeat split. intros c Hc. now rewrite lookup_delete_ne by congruence.
  - (* the channel stays *)
    split; [split; cbn|].
    + intros n0 u0 c0 H Hc0. destruct (decide (n0 = nick)) as [->|Hne].
      * rewrite lookup_insert in H. injection H as <-. cbn in Hc0.
        apply elem_of_difference in Hc0 as [Hc0 Hne']. rewrite lookup_insert_ne by set_solver. eauto.
      * rewrite lookup_insert_ne in H by congruence. destruct (Iuc _ _ _ H Hc0) as [co0 [H0 Hn0]].
        destruct (decide (c0 = ch)) as [->|Hcne].
        -- rewrite Hco in H0. injection H0 as <-. rewrite lookup_insert. eexists. split; [reflexivity|].
           rewrite Hus, dom_delete_L. set_solver.
        -- rewrite lookup_insert_ne by congruence. eauto.
    + intros c0 co0 n0 H Hn0. destruct (decide (c0 = ch)) as [->|Hcne].
      * rewrite lookup_insert in H. injection H as <-. rewrite Hus, dom_delete_L in Hn0.
        apply elem_of_difference in Hn0 as [Hn0 Hne]. destruct (Icu _ _ _ Hco Hn0) as [u0 [H0 Hc0]].
        exists u0. rewrite lookup_insert_ne by set_solver. auto.
      * rewrite lookup_insert_ne in H by congruence. destruct (Icu _ _ _ H Hn0) as [u0 [H0 Hc0]].
        destruct (decide (n0 = nick)) as [->|Hne].
        -- rewrite Hu in H0. injection H0 as <-. eexists. rewrite lookup_insert. split; [reflexivity|]. cbn. set_solver.
        -- exists u0. rewrite lookup_insert_ne by congruence. auto.
    + intros c0 co0 H. destruct (decide (c0 = ch)) as [->|Hcne].
      * rewrite lookup_insert in H. injection H as <-. exact Hrk'.
      * rewrite lookup_insert_ne in H by congruence. eauto.
    + intros n0. rewrite Iwl. destruct (decide (n0 = nick)) as [->|Hne].
      * rewrite lookup_insert, Hu. split; intros [x [[= <-] Hw]]; eexists; (split; [reflexivity|]); exact Hw.
      * now rewrite lookup_insert_ne by congruence.
    + rewrite Ici. f_equal. symmetry. eapply cnt_update_same; [exact Hu|reflexivity].
    + rewrite Ico. f_equal. symmetry. eapply cnt_update_same; [exact Hu|reflexivity].
    + intros c0 co0 H Hp. destruct (decide (c0 = ch)) as [->|Hcne].
      * rewrite lookup_insert in H. injection H as <-. rewrite Hp in Hdel. cbn [negb] in Hdel.
        rewrite andb_true_r in Hdel. apply Nat.eqb_neq in Hdel. intros E. rewrite E, map_size_empty in Hdel. congruence.
      * rewrite lookup_insert_ne in H by congruence. eauto.
    + repeat split. intros c Hc. now rewrite lookup_insert_ne by congruence.
Qed.

Lemma chan_remove_user_ok nick c : nick ∈ dom (ch_users c) -> exists c', chan_remove_user nick c = Ok c'.
Proof.
  intros H. apply elem_of_dom in H as [r Hr]. unfold chan_remove_user. cbn [rfold all_rankletters]. unfold chan_set_rank.
  rewrite Hr. cbn. rewrite !lookup_insert. cbn. rewrite !lookup_insert. cbn. rewrite !lookup_insert. cbn.
  rewrite !lookup_insert. cbn. eauto.
Qed.

Lemma remove_from_channel_ok s ch nick u :
  InvS s -> users s !! nick = Some u -> ch ∈ u_chans u ->
  exists s', st_remove_user_from_channel ch nick s = Ok s'.
Proof.
  intros I Hu Hch. destruct (is_uc s I _ _ _ Hu Hch) as [co [Hco Hmem]].
  unfold st_remove_user_from_channel. rewrite Hco.
  destruct (chan_remove_user_ok nick co Hmem) as [co' ->]. cbn [rbind].
  destruct (_ && _); cbn [rbind users set_chans]; rewrite Hu; eauto.
Qed.

Lemma u_set_chans_id u f : f (u_chans u) = u_chans u -> u_set_chans f u = u.
Proof. destruct u as [a b c d e g h chs k l m]; unfold u_set_chans; cbn. intros E. rewrite E. reflexivity. Qed.

Lemma u_set_chans_ext u f g : f (u_chans u) = g (u_chans u) -> u_set_chans f u = u_set_chans g u.
Proof. destruct u as [a b c d e g' h chs k l m]; unfold u_set_chans; cbn. intros E. rewrite E. reflexivity. Qed.

Lemma u_set_chans_comp u f g : u_set_chans f (u_set_chans g u) = u_set_chans (fun x => f (g x)) u.
Proof. destruct u; reflexivity. Qed.

(* removing a user from a list of its channels, one after the other *)
Lemma fold_remove_channels nick : forall l s u,
  InvS s -> users s !! nick = Some u -> NoDup l -> (forall c, c ∈ l -> c ∈ u_chans u) ->
  exists s1, rfold (fun s ch => st_remove_user_from_channel ch nick s) l s = Ok s1 /\ InvS s1 /\
    users s1 = <[nick := u_set_chans (fun cs => cs ∖ list_to_set l) u]> (users s) /\
    (forall c, c ∉ l -> chans s1 !! c = chans s !! c) /\
    wallops s1 = wallops s /\ histories s1 = histories s /\ server_quit s1 = server_quit s /\
    inv_count s1 = inv_count s /\ op_count s1 = op_count s /\ max_users s1 = max_users s.
Proof.
  induction l as [|c l IH]; intros s u I Hu Hnd Hsub; cbn [rfold].
  - exists s. split; [reflexivity|]. split; [exact I|]. split; [|repeat split; reflexivity].
    symmetry. apply insert_id. rewrite Hu. f_equal. symmetry. apply u_set_chans_id.
    rewrite list_to_set_nil. apply difference_empty_L.
  - apply NoDup_cons in Hnd as [Hcl Hnd].
    destruct (remove_from_channel_ok s c nick u I Hu (Hsub c (elem_of_list_here _ _))) as [s' Hs'].
    rewrite Hs'. cbn [rbind].
    pose proof Hs' as Hs''. unfold st_remove_user_from_channel in Hs''.
    destruct (InvS_remove_from_channel s c nick u s' I Hu (Hsub c (elem_of_list_here _ _)) Hs')
      as [I' [Hus [Hcs [Hw [Hh Hq]]]]].
    assert (users s' !! nick = Some (u_set_chans (fun cs => cs ∖ {[c]}) u)) as Hu' by (rewrite Hus; apply lookup_insert).
    destruct (IH s' _ I' Hu' Hnd) as [s1 [Hf [I1 [Hus1 [Hcs1 [Hw1 [Hh1 [Hq1 [Hi1 [Ho1 Hm1]]]]]]]]]].
    { intros c' Hc'. cbn. apply elem_of_difference. split; [apply Hsub; now right|].
      intros E. apply elem_of_singleton in E. subst c'. contradiction. }
    exists s1. split; [exact Hf|]. split; [exact I1|]. repeat split.
    + rewrite Hus1, Hus, insert_insert. f_equal. rewrite u_set_chans_comp. apply u_set_chans_ext.
      rewrite list_to_set_cons. clear. set_solver.
    + intros c' Hc'. rewrite Hcs1 by set_solver. apply Hcs. set_solver.
    + congruence.
    + congruence.
    + congruence.
    + rewrite Hi1. clear -Hs''. destruct (chans s !! c); cbn in Hs''.
      * destruct (chan_remove_user nick c0); cbn in Hs''; [|discriminate].
        destruct (_ && _); cbn in Hs''; destruct (users _ !! nick); injection Hs'' as <-; reflexivity.
      * destruct (users s !! nick); injection Hs'' as <-; reflexivity.
    + rewrite Ho1. clear -Hs''. destruct (chans s !! c); cbn in Hs''.
      * destruct (chan_remove_user nick c0); cbn in Hs''; [|discriminate].
        destruct (_ && _); cbn in Hs''; destruct (users _ !! nick); injection Hs'' as <-; reflexivity.
      * destruct (users s !! nick); injection Hs'' as <-; reflexivity.
    + rewrite Hm1. clear -Hs''. destruct (chans s !! c); cbn in Hs''.
      * destruct (chan_remove_user nick c0); cbn in Hs''; [|discriminate].
        destruct (_ && _); cbn in Hs''; destruct (users _ !! nick); injection Hs'' as <-; reflexivity.
      * destruct (users s !! nick); injection Hs'' as <-; reflexivity.
Qed.

(* a user without memberships is deleted, the counters and the WALLOPS audience follow *)
Lemma InvS_delete_user s n u s' :
  InvS s -> users s !! n = Some u -> u_chans u = ∅ ->
  users s' = delete n (users s) -> chans s' = chans s -> wallops s' = wallops s ∖ {[n]} ->
  (inv_count s' + (if um_invisible (u_modes u) then 1 else 0) = inv_count s)%N ->
  (op_count s' + (if is_local_oper (u_modes u) then 1 else 0) = op_count s)%N ->
  InvS s'.
Proof.
  intros I Hu Hc Hus Hcs Hw Hi Ho. destruct I as [Iuc Icu Irk Iwl Ici Ico Ine]. split.
  - intros n0 u0 ch H Hch. rewrite Hus in H. rewrite Hcs. destruct (decide (n0 = n)) as [->|Hne].
    + now rewrite lookup_delete in H.
    + rewrite lookup_delete_ne in H by congruence. eauto.
  - intros ch co n0 H Hn0. rewrite Hcs in H. rewrite Hus. destruct (Icu _ _ _ H Hn0) as [u0 [H0 Hch]].
    destruct (decide (n0 = n)) as [->|Hne].
    + rewrite Hu in H0. injection H0 as <-. rewrite Hc in Hch. set_solver.
    + exists u0. rewrite lookup_delete_ne by congruence. auto.
  - rewrite Hcs. exact Irk.
  - intros n0. rewrite Hw, Hus, elem_of_difference, elem_of_singleton, Iwl. destruct (decide (n0 = n)) as [->|Hne].
    + rewrite lookup_delete. split; [intros [_ F]; congruence|intros [x [[=] _]]].
    + rewrite lookup_delete_ne by congruence. split; [intros [H _]; exact H|intros H; split; [exact H|exact Hne]].
  - rewrite Hus. pose proof (cnt_delete (fun u => um_invisible (u_modes u)) _ _ _ Hu) as Hc'. cbn in Hc'.
    rewrite Ici in Hi. destruct (um_invisible (u_modes u)); lia.
  - rewrite Hus. pose proof (cnt_delete (fun u => is_local_oper (u_modes u)) _ _ _ Hu) as Hc'. cbn in Hc'.
    rewrite Ico in Ho. destruct (is_local_oper (u_modes u)); lia.
  - rewrite Hcs. exact Ine.
Qed.

(* ---------------------------------------------------------------- the end of a session: VolatileState::remove_user *)
Definition with_chans (s : shared) (cs : gmap str chan) : shared := set_chans (fun _ => cs) s.

Lemma remove_strip ch nick s s1 s' :
  st_remove_user_from_channel ch nick s = Ok s1 -> users s' !! nick = None -> chans s' = chans s ->
  st_remove_user_from_channel ch nick s' = Ok (with_chans s' (chans s1)).
Proof.
  unfold st_remove_user_from_channel, with_chans. intros H Hn Hc. rewrite Hc.
  destruct (chans s !! ch) as [co|].
  - destruct (chan_remove_user nick co) as [co'|]; cbn [rbind] in *; [|discriminate].
    destruct (_ && _); cbn [rbind users set_chans] in *; rewrite Hn;
      destruct (users s !! nick); injection H as <-; cbn; unfold set_chans; cbn; rewrite Hc; reflexivity.
  - cbn [rbind] in *. rewrite Hn. destruct (users s !! nick); injection H as <-; cbn; unfold set_chans; cbn;
      rewrite <- Hc; destruct s'; reflexivity.
Qed.

Lemma fold_remove_strip nick : forall l s s1 s',
  rfold (fun s ch => st_remove_user_from_channel ch nick s) l s = Ok s1 ->
  users s' !! nick = None -> chans s' = chans s ->
  rfold (fun s ch => st_remove_user_from_channel ch nick s) l s' = Ok (with_chans s' (chans s1)).
Proof.
  induction l as [|c l IH]; intros s s1 s' H Hn Hc; cbn [rfold] in *.
  - injection H as <-. unfold with_chans, set_chans. rewrite <- Hc. destruct s'; reflexivity.
  - destruct (st_remove_user_from_channel c nick s) as [s2|] eqn:H2; cbn [rbind] in *; [|discriminate].
    rewrite (remove_strip _ _ _ _ _ H2 Hn Hc). cbn [rbind].
    rewrite (IH s2 s1 (with_chans s' (chans s2)) H); [|exact Hn|reflexivity].
    unfold with_chans, set_chans. reflexivity.
Qed.

Lemma st_remove_user_inv s nick u :
  InvS s -> users s !! nick = Some u ->
  exists s', st_remove_user nick s = Ok s' /\ InvS s' /\
    users s' = delete nick (users s) /\
    (forall c, c ∉ u_chans u -> chans s' !! c = chans s !! c) /\
    wallops s' = wallops s ∖ {[nick]} /\
    histories s' = <[nick := default [] (histories s !! nick) ++ [u_hist u]]> (histories s) /\
    server_quit s' = server_quit s /\ max_users s' = max_users s /\
    exists s1, rfold (fun s ch => st_remove_user_from_channel ch nick s) (elements (u_chans u)) s = Ok s1 /\ chans s' = chans s1.
Proof.
  intros I Hu.
  destruct (fold_remove_channels nick (elements (u_chans u)) s u I Hu (NoDup_elements _))
    as [s1 [Hf [I1 [Hus1 [Hcs1 [Hw1 [Hh1 [Hq1 [Hi1 [Ho1 Hm1]]]]]]]]]].
  { intros c Hc. now apply elem_of_elements. }
  unfold st_remove_user. rewrite Hu.
  (* the counters cannot underflow *)
  pose proof (is_ci s I) as Hci. pose proof (is_co s I) as Hco.
  assert (exists n1, (if is_local_oper (u_modes u)
                      then (let! n := dec_counter (op_count (set_users (delete nick) s)) in Ok (set_op_count n (set_users (delete nick) s)))
                      else Ok (set_users (delete nick) s)) = Ok (set_op_count n1 (set_users (delete nick) s))
                     /\ (n1 + (if is_local_oper (u_modes u) then 1 else 0) = op_count s)%N) as [n1 [-> Hn1]].
  { destruct (is_local_oper (u_modes u)) eqn:E.
    - pose proof (cnt_pos (fun u => is_local_oper (u_modes u)) _ _ _ Hu E). unfold dec_counter. cbn [op_count set_users].
      destruct (N.eqb_spec (op_count s) 0) as [Z|NZ]; [lia|]. cbn [rbind]. eexists. split; [reflexivity|lia].
    - exists (op_count s). split; [|lia]. destruct s; reflexivity. }
  cbn [rbind].
  assert (exists n2, (if um_invisible (u_modes u)
                      then (let! n := dec_counter (inv_count (set_op_count n1 (set_users (delete nick) s))) in
                            Ok (set_inv_count n (set_op_count n1 (set_users (delete nick) s))))
                      else Ok (set_op_count n1 (set_users (delete nick) s)))
                     = Ok (set_inv_count n2 (set_op_count n1 (set_users (delete nick) s)))
                     /\ (n2 + (if um_invisible (u_modes u) then 1 else 0) = inv_count s)%N) as [n2 [-> Hn2]].
  { destruct (um_invisible (u_modes u)) eqn:E.
    - pose proof (cnt_pos (fun u => um_invisible (u_modes u)) _ _ _ Hu E). unfold dec_counter. cbn [inv_count set_op_count set_users].
      destruct (N.eqb_spec (inv_count s) 0) as [Z|NZ]; [lia|]. cbn [rbind]. eexists. split; [reflexivity|lia].
    - exists (inv_count s). split; [|lia]. destruct s; reflexivity. }
  cbn [rbind].
  set (s3 := set_wallops (fun w => w ∖ {[nick]}) (set_inv_count n2 (set_op_count n1 (set_users (delete nick) s)))).
  rewrite (fold_remove_strip nick _ s s1 s3 Hf); [|cbn; apply lookup_delete|reflexivity].
  cbn [rbind]. eexists. split; [reflexivity|].
  assert (users s1 !! nick = Some (u_set_chans (fun cs => cs ∖ list_to_set (elements (u_chans u))) u)) as Hu1
    by (rewrite Hus1; apply lookup_insert).
  split.
  - eapply (InvS_delete_user s1 nick _ _ I1 Hu1); cbn.
    + apply set_eq. intros x. rewrite elem_of_difference, elem_of_list_to_set, elem_of_elements. set_solver.
    + rewrite Hus1. now rewrite delete_insert_delete.
    + reflexivity.
    + now rewrite Hw1.
    + rewrite Hi1. exact Hn2.
    + rewrite Ho1. exact Hn1.
  - cbn. split; [reflexivity|]. split; [intros c Hc; apply Hcs1; now rewrite elem_of_elements|].
    split; [reflexivity|]. split; [reflexivity|]. split; [reflexivity|]. split; [reflexivity|].
    exists s1. split; [exact Hf|reflexivity].
Qed.

(* what the departure does to each channel the user was on *)
Definition chan_after_leave (co' : chan) : option chan :=
  if Nat.eqb (size (ch_users co')) 0 && negb (ch_preconf co') then None else Some co'.

Lemma remove_from_channel_chan s ch nick s' co :
  chans s !! ch = Some co -> st_remove_user_from_channel ch nick s = Ok s' ->
  exists co', chan_remove_user nick co = Ok co' /\ chans s' !! ch = chan_after_leave co'.
Proof.
  unfold st_remove_user_from_channel, chan_after_leave. intros Hco. rewrite Hco.
  destruct (chan_remove_user nick co) as [co'|]; cbn [rbind]; [|discriminate].
  destruct (_ && _) eqn:E; cbn [rbind users set_chans]; destruct (users s !! nick); intros [= <-]; cbn; exists co';
    (split; [reflexivity|]); rewrite E; first [apply lookup_delete|apply lookup_insert].
Qed.

Lemma fold_remove_chan nick : forall l s u s1,
  InvS s -> users s !! nick = Some u -> NoDup l -> (forall c, c ∈ l -> c ∈ u_chans u) ->
  rfold (fun s ch => st_remove_user_from_channel ch nick s) l s = Ok s1 ->
  forall ch co, ch ∈ l -> chans s !! ch = Some co ->
  exists co', chan_remove_user nick co = Ok co' /\ chans s1 !! ch = chan_after_leave co'.
Proof.
  induction l as [|c l IH]; intros s u s1 I Hu Hnd Hsub Hf ch co Hin Hco; [now apply elem_of_nil in Hin|].
  cbn [rfold] in Hf. apply NoDup_cons in Hnd as [Hcl Hnd].
  destruct (st_remove_user_from_channel c nick s) as [s'|] eqn:Hs'; cbn [rbind] in Hf; [|discriminate].
  destruct (InvS_remove_from_channel s c nick u s' I Hu (Hsub c (elem_of_list_here _ _)) Hs') as [I' [Hus [Hcs _]]].
  assert (users s' !! nick = Some (u_set_chans (fun cs => cs ∖ {[c]}) u)) as Hu' by (rewrite Hus; apply lookup_insert).
  assert (forall c', c' ∈ l -> c' ∈ u_chans (u_set_chans (fun cs => cs ∖ {[c]}) u)) as Hsub'.
  { intros c' Hc'. cbn. apply elem_of_difference. split; [apply Hsub; now right|].
    intros E. apply elem_of_singleton in E. subst c'. contradiction. }
  destruct (decide (ch = c)) as [->|Hne].
  - destruct (remove_from_channel_chan s c nick s' co Hco Hs') as [co' [Hr Hc']]. exists co'. split; [exact Hr|].
    destruct (fold_remove_channels nick l s' _ I' Hu' Hnd Hsub') as [s2 [Hf2 [_ [_ [Hcs2 _]]]]].
    rewrite Hf in Hf2. injection Hf2 as <-. now rewrite (Hcs2 c Hcl).
  - apply elem_of_cons in Hin as [?|Hin]; [congruence|].
    eapply (IH s' _ s1 I' Hu' Hnd Hsub' Hf ch co Hin). now rewrite (Hcs ch Hne).
Qed.

(* ---------------------------------------------------------------- a user's own modes change, counters and WALLOPS audience follow *)
Lemma InvS_set_modes s n u m' s' :
  InvS s -> users s !! n = Some u ->
  users s' = <[n := u_set_modes m' u]> (users s) -> chans s' = chans s ->
  wallops s' = (if um_wallops m' then {[n]} ∪ wallops s else wallops s ∖ {[n]}) ->
  (inv_count s' + (if um_invisible (u_modes u) then 1 else 0) = inv_count s + (if um_invisible m' then 1 else 0))%N ->
  (op_count s' + (if is_local_oper (u_modes u) then 1 else 0) = op_count s + (if is_local_oper m' then 1 else 0))%N ->
  InvS s'.
Proof.
  intros I Hu Hus Hcs Hw Hi Ho. destruct I as [Iuc Icu Irk Iwl Ici Ico Ine]. split.
  - intros n0 u0 ch H Hch. rewrite Hus in H. rewrite Hcs. destruct (decide (n0 = n)) as [->|Hne].
    + rewrite lookup_insert in H. injection H as <-. destruct u; cbn in *. eauto.
    + rewrite lookup_insert_ne in H by congruence. eauto.
  - intros ch co n0 H Hn0. rewrite Hcs in H. rewrite Hus. destruct (Icu _ _ _ H Hn0) as [u0 [H0 Hch]].
    destruct (decide (n0 = n)) as [->|Hne].
    + rewrite Hu in H0. injection H0 as <-. eexists. rewrite lookup_insert. split; [reflexivity|]. destruct u; exact Hch.
    + exists u0. rewrite lookup_insert_ne by congruence. auto.
  - rewrite Hcs. exact Irk.
  - intros n0. rewrite Hw, Hus. destruct (decide (n0 = n)) as [->|Hne].
    + rewrite lookup_insert. destruct (um_wallops m') eqn:E.
      * split; [intros _; eexists; split; [reflexivity|]; destruct u; exact E|set_solver].
      * split; [set_solver|]. intros [x [[= <-] F]]. destruct u; cbn in F. congruence.
    + rewrite lookup_insert_ne by congruence. rewrite <- Iwl. destruct (um_wallops m'); set_solver.
  - rewrite Hus. pose proof (cnt_update (fun u => um_invisible (u_modes u)) _ _ _ (u_set_modes m' u) Hu) as Hc. cbn in Hc.
    assert (u_modes (u_set_modes m' u) = m') as E by (destruct u; reflexivity). rewrite ?E in Hc. rewrite Ici in Hi.
    destruct (um_invisible (u_modes u)), (um_invisible m'); lia.
  - rewrite Hus. pose proof (cnt_update (fun u => is_local_oper (u_modes u)) _ _ _ (u_set_modes m' u) Hu) as Hc. cbn in Hc.
    assert (u_modes (u_set_modes m' u) = m') as E by (destruct u; reflexivity). rewrite ?E in Hc. rewrite Ico in Ho.
    destruct (is_local_oper (u_modes u)), (is_local_oper m'); lia.
  - rewrite Hcs. exact Ine.
Qed.
