(* ModeRankGlobal.v - channel MODE obeys rank, as whole steps.  A member below half-operator changes nothing of the channel
   record, whatever the mode string; hence a channel whose settings differ after a step, or a member whose rank flags differ,
   was changed by a MODE line of a member who - in the state before the line - held half-operator rank or above. *)
From IRC Require Import Str Wild Glob Mask Parse Reply State Handlers Step.
From IRCP Require Import StrP ChanP InvDefs InvPrims InvNick InvHandlers InvStep Reach NickP OperP ModesFrame ModeP
  SettingsFrame SettingsGlobal RankFrame RankGlobal ConnFrame.
From stdpp Require Import gmap.
Open Scope N_scope.

Local Arguments lit : simpl never.

Lemma rank_may_half rl r : rank_may rl r = true -> rk_is_half_operator r = true.
Proof. destruct r as [f p v o h]. destruct rl, f, p, o, h; cbn; congruence. Qed.

Section frame.
Context (cfg : config) (verify : str -> str -> bool) (i : nat).

(* below half-operator no letter of any class touches the channel record *)
Lemma mode_char_below_half c client target nick r ch mode_set args m m' ms' args' :
  rk_is_half_operator r = false ->
  mode_char c client target nick r ch mode_set args m = Ok (m', ms', args') -> ms_chan m' = ms_chan m.
Proof.
  intros Hr.
  assert (forall rl, rank_may rl r = false) as Hm.
  { intros rl. destruct (rank_may rl r) eqn:E; [apply rank_may_half in E; congruence|reflexivity]. }
  unfold mode_char. rewrite Hr.
  destruct (classify_mode ch).
  - intros [= <- _ _]. reflexivity.
  - intros [= <- _ _]. reflexivity.
  - destruct (listletter_of ch) as [ll|]; [|intros [= <- _ _]; reflexivity].
    destruct args as [|mask args0]; intros [= <- _ _]; reflexivity.
  - destruct (rankletter_of ch) as [rl|]; [|intros [= <- _ _]; reflexivity]. rewrite (Hm rl).
    destruct args as [|arg args0]; [discriminate|].
    destruct (bool_decide _); intros [= <- _ _]; reflexivity.
  - intros [= <- _ _]. reflexivity.
  - intros [= <- _ _]. reflexivity.
  - intros [= <- _ _]. reflexivity.
  - intros [= <- _ _]. reflexivity.
Qed.

Lemma mode_chars_below_half c client target nick r cs : forall mode_set args m m',
  rk_is_half_operator r = false ->
  mode_chars c client target nick r cs mode_set args m = Ok m' -> ms_chan m' = ms_chan m.
Proof.
  induction cs as [|ch cs IH]; intros mode_set args m m' Hr; cbn [mode_chars].
  - intros [= <-]. reflexivity.
  - destruct (mode_char c client target nick r ch mode_set args m) as [[[m1 ms1] a1]|] eqn:H1; cbn [rbind]; [|discriminate].
    intros H. rewrite (IH _ _ _ _ Hr H). eapply mode_char_below_half; eauto.
Qed.

Lemma mode_channel_below_half s c target nick co rk modes r :
  rk_is_half_operator rk = false -> chans s !! target = Some co ->
  process_mode_channel cfg i s c target nick co rk modes = Ok r -> chans (h_sh r) = chans s.
Proof.
  intros Hr Hco. unfold process_mode_channel. destruct (is_empty modes); [intros [= <-]; reflexivity|].
  match goal with |- (let! m := ?x in _) = _ -> _ => destruct x as [m|] eqn:Hf end; cbn [rbind]; [|discriminate].
  match goal with |- (let! ann := ?x in _) = _ -> _ => destruct x as [ann|] end; cbn [rbind]; [|discriminate].
  intros [= <-]. cbn.
  assert (ms_chan m = co) as ->.
  { revert Hf. match goal with |- rfold ?F modes ?m0 = _ -> _ => change co with (ms_chan m0) at 2; generalize m0 end.
    induction modes as [|[mc ma] modes IH]; intros m0; cbn [rfold].
    - intros [= <-]. reflexivity.
    - destruct (mode_chars c (client_name c) target nick rk mc false ma m0) as [m1|] eqn:E1; cbn [rbind]; [|discriminate].
      intros H. rewrite (IH _ H). eapply mode_chars_below_half; eauto. }
  apply insert_id. exact Hco.
Qed.

(* a MODE line naming channel ch, sent by somebody who is not a half-operator-or-above member of it, leaves ch's record alone *)
Theorem line_mode_ranked s c l r ch co : InvS s -> conn_ok i s c -> process_line cfg verify i s c l = Ok r ->
  mode_line_for c l ch -> chans s !! ch = Some co ->
  chans (h_sh r) !! ch = Some co \/
  exists nick rk, c_nick c = Some nick /\ ch_users co !! nick = Some rk /\ rk_is_half_operator rk = true.
Proof.
  intros I C H [A [msg [modes [Ht Hcmd]]]] Hco.
  destruct (own_user i s c C A) as [nick [u [Hn [Hu [Hc [Ho Hg]]]]]].
  unfold process_line in H. rewrite Ht, Hcmd, A in H. cbn in H.
  assert (forall o, Ok {| h_sh := s; h_conn := c; h_out := o; h_quit := false |} = Ok r -> chans (h_sh r) !! ch = Some co) as S3.
  { intros o [= <-]. exact Hco. }
  unfold process_mode in H. rewrite Ho in H. cbn [rbind] in H. destruct (validate_channel ch).
  - rewrite Hco in H. destruct (ch_users co !! nick) as [rk|] eqn:Hrk; [|left; eapply S3; exact H].
    destruct (rk_is_half_operator rk) eqn:Hh; [right; eauto|].
    left. rewrite (mode_channel_below_half s c ch nick co rk modes r Hh Hco H). exact Hco.
  - left. destruct (bool_decide (nick = ch)).
    + destruct (mode_user_no_grant cfg i s c nick modes r u Hu H) as [m' [_ [Hch _]]]. now rewrite Hch.
    + destruct (users s !! ch); eapply S3; exact H.
Qed.

End frame.

Section global.
Context (cfg : config) (verify : str -> str -> bool).

(* where a channel record after a step comes from: the state before the step, or - for a line - the handler's result;
   in between lie only teardown and KILL delivery, which keep the settings of a surviving channel and the rank of a
   member who stays *)
Lemma step_channel_cases w i e w' o cl ch co' : Inv w -> step cfg verify w i e = Ok (w', o, cl) -> chans (sh w') !! ch = Some co' ->
  (exists cx, chans (sh w) !! ch = Some cx /\ chs co' = chs cx /\ forall n r2, rk n co' = Some r2 -> rk n cx = Some r2) \/
  (exists c l r cx, conns w !! i = Some c /\ e = EvLine l /\ process_line cfg verify i (sh w) c l = Ok r /\
     chans (h_sh r) !! ch = Some cx /\ chs co' = chs cx /\ forall n r2, rk n co' = Some r2 -> rk n cx = Some r2).
Proof.
  intros I H H2. pose proof (InvK_of_Inv w I) as K. unfold step in H.
  destruct (step_raw cfg verify w i e) as [[[w1 o1] c1]|] eqn:Hr; [|discriminate]. cbn [rbind] in H.
  destruct (deliver_kills cfg w1) as [[[w2 o2] c2]|] eqn:Hk; [|discriminate]. cbn [rbind] in H. injection H as <- _ _.
  assert (exists c1x, chans (sh w1) !! ch = Some c1x /\ chs co' = chs c1x /\ forall n r2, rk n co' = Some r2 -> rk n c1x = Some r2) as [c1x [Hx [Sx Rx]]].
  { destruct (deliver_kills_sshrink cfg w1 w2 o2 c2 Hk ch co' H2) as [cx [Hx Ex]]. exists cx. split; [exact Hx|]. split; [exact Ex|].
    intros n r2 R2. destruct (deliver_kills_rshrink cfg w1 w2 o2 c2 Hk ch co' n r2 H2 R2) as [cy [Hy Ry]]. congruence. }
  clear H2 Hk.
  assert (forall w0 wx, teardown i w0 = Ok wx -> chans (sh wx) !! ch = Some c1x ->
            exists c0, chans (sh w0) !! ch = Some c0 /\ chs co' = chs c0 /\ forall n r2, rk n co' = Some r2 -> rk n c0 = Some r2) as TD.
  { intros w0 wx Ht Hcx. destruct (teardown_sshrink i w0 wx Ht ch c1x Hcx) as [c0 [H0 E0]]. exists c0. split; [exact H0|]. split; [congruence|].
    intros n r2 R2. destruct (teardown_rshrink i w0 wx Ht ch c1x n r2 Hcx (Rx n r2 R2)) as [cy [Hy Ry]]. congruence. }
  assert (Ok (w, @nil (nat * str), @nil nat) = Ok (w1, o1, c1) ->
          exists cx, chans (sh w) !! ch = Some cx /\ chs co' = chs cx /\ forall n r2, rk n co' = Some r2 -> rk n cx = Some r2) as Same.
  { intros [= <- _ _]. eauto. }
  destruct e; cbn [step_raw] in Hr.
  - left. destruct (conns w !! i); [now apply Same|]. destruct (server_quit (sh w)); [injection Hr as <- _ _; eauto|].
    destruct (match cfg_max_connections cfg with Some m => N.ltb (nconns w) m | None => true end); injection Hr as <- _ _; cbn in Hx; eauto.
  - destruct (conns w !! i) as [c|] eqn:Hc; [|left; now apply Same].
    destruct (process_line cfg verify i (sh w) c l) as [r|] eqn:Hl; cbn [rbind] in Hr; [|discriminate].
    right. exists c, l, r.
    destruct (h_quit r).
    + destruct (teardown i _) as [wx|] eqn:Ht; cbn [rbind] in Hr; [|discriminate]. injection Hr as <- _ _.
      destruct (TD _ wx Ht Hx) as [c0 [H0 [S0 R0]]]. cbn in H0. exists c0. repeat (split; [assumption || reflexivity|]). assumption.
    + injection Hr as <- _ _. cbn in Hx. exists c1x. repeat (split; [assumption || reflexivity|]). assumption.
  - left. destruct (conns w !! i) as [c|] eqn:Hc; [|now apply Same].
    destruct (teardown i w) as [wx|] eqn:Ht; cbn [rbind] in Hr; [|discriminate]. injection Hr as <- _ _. eapply TD; eauto.
  - left. destruct (conns w !! i) as [c|] eqn:Hc; [|now apply Same].
    destruct (teardown i w) as [wx|] eqn:Ht; cbn [rbind] in Hr; [|discriminate]. injection Hr as <- _ _. eapply TD; eauto.
  - left. destruct (conns w !! i) as [c|] eqn:Hc; [|now apply Same].
    destruct (teardown i w) as [wx|] eqn:Ht; cbn [rbind] in Hr; [|discriminate]. injection Hr as <- _ _. eapply TD; eauto.
  - left. destruct (conns w !! i) as [c|] eqn:Hc; [|now apply Same]. injection Hr as <- _ _. eauto.
  - left. destruct (conns w !! i) as [c|] eqn:Hc; [|now apply Same].
    destruct (teardown i w) as [wx|] eqn:Ht; cbn [rbind] in Hr; [|discriminate]. injection Hr as <- _ _. eapply TD; eauto.
Qed.

Definition ranked_mode_line (w : world) (i : nat) (e : event) (ch : str) (co : chan) : Prop :=
  exists c l nick rk, conns w !! i = Some c /\ e = EvLine l /\ mode_line_for c l ch /\
    c_nick c = Some nick /\ ch_users co !! nick = Some rk /\ rk_is_half_operator rk = true.

Theorem settings_changed_only_by_ranked_mode w i e w' o cl ch co co' : Inv w -> step cfg verify w i e = Ok (w', o, cl) ->
  chans (sh w) !! ch = Some co -> chans (sh w') !! ch = Some co' ->
  chs co' = chs co \/ ranked_mode_line w i e ch co.
Proof.
  intros I H H1 H2. pose proof (InvK_of_Inv w I) as K.
  destruct (step_channel_cases w i e w' o cl ch co' I H H2) as [[cx [Hx [Sx _]]]|[c [l [r [cx [Hc [-> [Hl [Hx [Sx _]]]]]]]]]].
  - left. congruence.
  - destruct (line_settings cfg verify i (sh w) c l r (ik_s w K) (ik_cu w K i c Hc) Hl ch co cx H1 Hx) as [L|M]; [left; congruence|].
    destruct (line_mode_ranked cfg verify i (sh w) c l r ch co (ik_s w K) (ik_cu w K i c Hc) Hl M H1) as [E|[nick [rk0 [Hn [Hrk Hh]]]]].
    + left. rewrite Hx in E. injection E as ->. exact Sx.
    + right. exists c, l, nick, rk0. repeat (split; [assumption || reflexivity|]). assumption.
Qed.

Theorem ranks_changed_only_by_ranked_mode w i e w' o cl ch co co' n r1 r2 : Inv w -> step cfg verify w i e = Ok (w', o, cl) ->
  chans (sh w) !! ch = Some co -> chans (sh w') !! ch = Some co' ->
  ch_users co !! n = Some r1 -> ch_users co' !! n = Some r2 ->
  r2 = r1 \/ ranked_mode_line w i e ch co.
Proof.
  intros I H H1 H2 R1 R2. pose proof (InvK_of_Inv w I) as K.
  destruct (step_channel_cases w i e w' o cl ch co' I H H2) as [[cx [Hx [_ Rx]]]|[c [l [r [cx [Hc [-> [Hl [Hx [_ Rx]]]]]]]]]].
  - left. specialize (Rx n r2 R2). unfold rk in Rx. congruence.
  - specialize (Rx n r2 R2).
    destruct (line_ranks cfg verify i (sh w) c l r (ik_s w K) (ik_cu w K i c Hc) Hl ch co cx n r1 r2 H1 Hx R1 Rx) as [L|M]; [now left|].
    destruct (line_mode_ranked cfg verify i (sh w) c l r ch co (ik_s w K) (ik_cu w K i c Hc) Hl M H1) as [E|[nick [rk0 [Hn [Hrk Hh]]]]].
    + left. rewrite Hx in E. injection E as ->. unfold rk in Rx. congruence.
    + right. exists c, l, nick, rk0. repeat (split; [assumption || reflexivity|]). assumption.
Qed.

End global.
