(* AwayGlobal.v - a user's away state changes only through its own AWAY command: over every event of every
   connection, a record after a step carries the away text of the same connection's record before it unless the
   event is that connection's own AWAY line; a new record is not away.  (So the text a PRIVMSG sender is told -
   C10_away - is the one the user itself sent last.) *)
From IRC Require Import Str Wild Glob Mask Parse Reply State Handlers Step.
From IRCP Require Import StrP ChanP InvDefs InvPrims InvNick InvHandlers InvStep Reach NickP OperP ModesFrame OthersFrame.
From stdpp Require Import gmap.
Open Scope N_scope.

Local Arguments lit : simpl never.

Definition awkeeps (s s' : shared) : Prop :=
  forall n u', users s' !! n = Some u' -> exists u, users s !! n = Some u /\ u_conn u' = u_conn u /\ u_away u' = u_away u.

Lemma akeeps_awkeeps s s' : akeeps s s' -> awkeeps s s'.
Proof. intros A n u' H. destruct (A n u' H) as [u [Hu E]]. exists u. split; [exact Hu|]. unfold ufields in E. injection E as E1 _ _ _ _ _ E7 _. auto. Qed.

Lemma awkeeps_insert s s' n u u' : users s' = <[n := u']> (users s) -> users s !! n = Some u -> u_conn u' = u_conn u -> u_away u' = u_away u -> awkeeps s s'.
Proof.
  intros E Hu Hc Ha n0 u0 H. rewrite E in H. destruct (decide (n0 = n)) as [->|Hne].
  - rewrite lookup_insert in H. injection H as <-. eauto.
  - rewrite lookup_insert_ne in H by congruence. eauto.
Qed.

Section frame.
Context (cfg : config) (verify : str -> str -> bool) (i : nat).

Theorem dispatch_away s c cmd msg r :
  InvS s -> conn_ok i s c -> c_auth c = true ->
  dispatch cfg verify i s c cmd msg = Ok r -> (forall t, cmd <> AWAY t) -> (forall n, cmd <> NICK n) -> awkeeps s (h_sh r).
Proof.
  intros I C A H Hna Hnn.
  destruct (own_user i s c C A) as [nick [u [Hn [Hu [Hc [Ho Hg]]]]]].
  assert (forall r0, same_result s c r0 -> awkeeps s (h_sh r0)) as Same.
  { intros r0 [E _]. rewrite E. apply akeeps_awkeeps, akeeps_refl. }
  assert (forall (P : res hres), (exists r0, P = Ok r0 /\ same_result s c r0) -> P = Ok r -> awkeeps s (h_sh r)) as S2.
  { intros P [r0 [-> Hs]] [= <-]. now apply Same. }
  assert (forall o, Ok {| h_sh := s; h_conn := c; h_out := o; h_quit := false |} = Ok r -> awkeeps s (h_sh r)) as S3.
  { intros o [= <-]. apply akeeps_awkeeps, akeeps_refl. }
  destruct cmd; cbn [dispatch] in H.
  - unfold process_cap in H. destruct sub.
    + injection H as <-. apply akeeps_awkeeps, akeeps_refl.
    + injection H as <-. apply akeeps_awkeeps, akeeps_refl.
    + destruct caps as [cs|]; [destruct (forallb _ cs)|]; injection H as <-; apply akeeps_awkeeps, akeeps_refl.
    + rewrite A in H. injection H as <-. apply akeeps_awkeeps, akeeps_refl.
  - injection H as <-. apply akeeps_awkeeps, akeeps_refl.
  - unfold process_pass in H. rewrite A in H. injection H as <-. apply akeeps_awkeeps, akeeps_refl.
  - exfalso. eapply Hnn. reflexivity.
  - unfold process_user in H. rewrite A in H. injection H as <-. apply akeeps_awkeeps, akeeps_refl.
  - injection H as <-. apply akeeps_awkeeps, akeeps_refl.
  - injection H as <-. apply akeeps_awkeeps, akeeps_refl.
  - (* OPER *)
    destruct (oper_spec cfg verify i s c name password nick u Hn Hu) as [r0 [Hr [_ [_ Hacc]]]].
    rewrite Hr in H. injection H as <-. destruct (oper_accepted cfg verify c name password).
    + destruct Hacc as [Hus _]. eapply (awkeeps_insert s _ nick u); [exact Hus|exact Hu|destruct u; reflexivity|destruct u; reflexivity].
    + destruct Hacc as [E _]. rewrite E. apply akeeps_awkeeps, akeeps_refl.
  - (* QUIT *) injection H as <-. apply akeeps_awkeeps, akeeps_refl.
  - apply akeeps_awkeeps. eapply join_akeeps; eauto.
  - apply akeeps_awkeeps. eapply part_akeeps; eauto.
  - apply akeeps_awkeeps. eapply topic_akeeps; eauto.
  - eapply S2; [|exact H]. now apply process_names_ok.
  - unfold process_list in H. destruct server; eapply S3; exact H.
  - apply akeeps_awkeeps. eapply invite_akeeps; eauto.
  - apply akeeps_awkeeps. eapply kick_akeeps; eauto.
  - unfold process_motd in H. destruct target; eapply S3; exact H.
  - unfold process_version in H. destruct target; eapply S3; exact H.
  - unfold process_admin in H. destruct target; eapply S3; exact H.
  - eapply S3; exact H.
  - unfold process_lusers in H. destruct (lusers_lines s (client_name c)); cbn [rbind] in H; [|discriminate]. eapply S3; exact H.
  - unfold process_time in H. destruct server; eapply S3; exact H.
  - unfold process_stats in H. destruct server; [eapply S3; exact H|].
    rewrite Ho in H. cbn [rbind] in H. rewrite Hg in H. cbn [rbind] in H. destruct (is_local_oper _); eapply S3; exact H.
  - unfold process_links in H. destruct remote_server, server_mask; eapply S3; exact H.
  - unfold process_help in H. destruct (help_topic _); eapply S3; exact H.
  - eapply S3; exact H.
  - (* MODE *)
    unfold process_mode in H. rewrite Ho in H. cbn [rbind] in H. destruct (validate_channel target).
    + destruct (chans s !! target) as [co|]; [|eapply S3; exact H].
      destruct (ch_users co !! nick) as [rk|]; [|eapply S3; exact H].
      apply akeeps_awkeeps. eapply mode_channel_akeeps; eauto.
    + destruct (bool_decide (nick = target)).
      * destruct (mode_user_no_grant cfg i s c nick modes r u Hu H) as [m' [Hus _]].
        eapply (awkeeps_insert s _ nick u); [exact Hus|exact Hu|destruct u; reflexivity|destruct u; reflexivity].
      * destruct (users s !! target); eapply S3; exact H.
  - eapply S2; [|exact H]. now apply process_privmsg_ok.
  - eapply S2; [|exact H]. now apply process_privmsg_ok.
  - eapply S2; [|exact H]. now apply process_who_ok.
  - eapply S2; [|exact H]. now apply process_whois_ok.
  - unfold process_whowas in H. destruct server; eapply S3; exact H.
  - apply akeeps_awkeeps. eapply kill_akeeps; eauto.
  - eapply S3; exact H.
  - eapply S3; exact H.
  - unfold process_squit in H. destruct (bool_decide _); [|eapply S3; exact H]. apply akeeps_awkeeps. eapply die_akeeps; eauto.
  - exfalso. eapply Hna. reflexivity.
  - eapply S3; exact H.
  - eapply S2; [|exact H]. now apply process_wallops_ok.
  - eapply S3; exact H.
  - apply akeeps_awkeeps. eapply die_akeeps; eauto.
Qed.


(* registration: the new user is not away *)
Definition fresh_away (s s' : shared) : Prop :=
  users s' = users s \/
  exists nick u, users s !! nick = None /\ users s' = <[nick := u]> (users s) /\ u_conn u = i /\ u_away u = None.

Lemma authenticate_fresh_a s c r : authenticate cfg verify i s c = Ok r -> fresh_away s (h_sh r).
Proof.
  unfold authenticate. destruct (c_capneg c); [intros [= <-]; now left|].
  destruct (c_nick c) as [nick|]; [|intros [= <-]; now left].
  destruct (c_name c) as [name|]; [|intros [= <-]; now left].
  destruct (negb _); [intros [= <-]; now left|].
  match goal with |- (if ?g then _ else _) = _ -> _ => destruct g end; [|intros [= <-]; now left].
  destruct (users s !! nick) eqn:Hn; [intros [= <-]; now left|].
  destruct (c_sender_taken c); [discriminate|].
  match goal with |- context [st_add_user nick ?u0 s] => set (u := u0) end.
  destruct (lusers_lines _ _); cbn [rbind]; [|discriminate]. intros [= <-]. cbn [h_sh]. right.
  exists nick, u. split; [exact Hn|]. split; [apply st_add_user_fields|]. unfold u. cbn. auto.
Qed.

Lemma unauth_dispatch_fresh_a s c cmd msg r : c_auth c = false -> needs_registration cmd = false ->
  dispatch cfg verify i s c cmd msg = Ok r -> fresh_away s (h_sh r).
Proof.
  intros A Hn. destruct cmd; try discriminate Hn; cbn [dispatch].
  - unfold process_cap. destruct sub.
    + intros [= <-]; now left.
    + intros [= <-]; now left.
    + destruct caps as [cs|]; [destruct (forallb _ cs)|]; intros [= <-]; now left.
    + rewrite A. apply authenticate_fresh_a.
  - intros [= <-]; now left.
  - unfold process_pass. rewrite A. apply authenticate_fresh_a.
  - unfold process_nick. rewrite A. cbn [negb]. destruct (users s !! nickname); [intros [= <-]; now left|apply authenticate_fresh_a].
  - unfold process_user. rewrite A. apply authenticate_fresh_a.
  - intros [= <-]; now left.
Qed.

Definition away_source (s : shared) (c : conn) (l : str) (u' : user) : Prop :=
  (exists n0 u, users s !! n0 = Some u /\ u_conn u = u_conn u' /\ u_away u' = u_away u) \/
  (u_conn u' = i /\ c_auth c = true /\ exists msg t, tokenize l = inl msg /\ command_of_message msg = inl (AWAY t)) \/
  (u_conn u' = i /\ c_auth c = false /\ u_away u' = None).

Theorem line_away_source s c l r : InvS s -> conn_ok i s c ->
  process_line cfg verify i s c l = Ok r ->
  forall n u', users (h_sh r) !! n = Some u' -> away_source s c l u'.
Proof.
  intros I C H n u' Hu'.
  assert (forall o, Ok {| h_sh := s; h_conn := c; h_out := o; h_quit := false |} = Ok r -> away_source s c l u') as Same.
  { intros o [= <-]. cbn in Hu'. left. eauto. }
  unfold process_line in H. destruct (tokenize l) as [msg|[| |]] eqn:Ht; try (eapply Same; exact H).
  destruct (command_of_message msg) as [cmd|e] eqn:Hcmd; [|eapply Same; exact H].
  destruct (needs_registration cmd && negb (c_auth c)) eqn:G; [eapply Same; exact H|].
  destruct (c_auth c) eqn:A.
  - destruct (own_user i s c C A) as [nick [u [Hn [Hu [Hc [Ho Hg]]]]]].
    destruct (match cmd with NICK _ => true | _ => false end) eqn:En.
    + destruct cmd; try discriminate En. cbn [dispatch] in H.
      destruct (decide (nickname = nick)) as [->|Hne].
      { rewrite (process_nick_same cfg verify i s c msg nick A Hn) in H. injection H as <-. left. eauto. }
      destruct (users s !! nickname) as [x|] eqn:Hx.
      { rewrite (process_nick_refused cfg verify i s c nickname msg nick x A Hn Hne Hx) in H. injection H as <-. left. eauto. }
      destruct (process_nick_effect cfg verify i s c nickname msg nick u I A Hn Hu Hne Hx) as [r0 [Hr [_ [_ [Hus _]]]]].
      rewrite Hr in H. injection H as <-. rewrite Hus in Hu'. left. destruct (decide (n = nickname)) as [->|N1].
      * rewrite lookup_insert in Hu'. injection Hu' as <-. exists nick, u. destruct u; auto.
      * rewrite lookup_insert_ne in Hu' by congruence. destruct (decide (n = nick)) as [->|N2]; [now rewrite lookup_delete in Hu'|].
        rewrite lookup_delete_ne in Hu' by congruence. eauto.
    + destruct (match cmd with AWAY _ => true | _ => false end) eqn:Ea.
      * destruct cmd; try discriminate Ea. cbn [dispatch] in H.
        pose proof (away_okeeps cfg i s c text r nick u Ho Hu Hc H) as O.
        destruct (decide (u_conn u' = i)) as [Hi|Hi]; [right; left; split; [exact Hi|]; split; [exact A|eauto]|].
        destruct (O n u' Hu' Hi) as [u0 [H0 E0]]. left. exists n, u0. unfold ufields in E0. injection E0 as E1 _ _ _ _ _ E7 _. auto.
      * assert (awkeeps s (h_sh r)) as K.
        { eapply dispatch_away; eauto; intros t ->; discriminate. }
        destruct (K n u' Hu') as [u0 [H0 [C0 A0]]]. left. eauto.
  - cbn in G. rewrite andb_true_r in G.
    destruct (unauth_dispatch_fresh_a s c cmd msg r A G H) as [E|[nick [u [Hfree [Hus [Hcu Hch]]]]]].
    + rewrite E in Hu'. left. eauto.
    + rewrite Hus in Hu'. destruct (decide (n = nick)) as [->|N1].
      * rewrite lookup_insert in Hu'. injection Hu' as <-. right. right. auto.
      * rewrite lookup_insert_ne in Hu' by congruence. left. eauto.
Qed.

End frame.

Section global.
Context (cfg : config) (verify : str -> str -> bool).

Theorem away_changes_only_by_own_away w i e w' o cl : Inv w -> step cfg verify w i e = Ok (w', o, cl) ->
  forall n u', users (sh w') !! n = Some u' ->
  (exists n0 u, users (sh w) !! n0 = Some u /\ u_conn u = u_conn u' /\ u_away u' = u_away u) \/
  (u_conn u' = i /\ exists c l, conns w !! i = Some c /\ e = EvLine l /\
     ((c_auth c = true /\ exists msg t, tokenize l = inl msg /\ command_of_message msg = inl (AWAY t)) \/
      (c_auth c = false /\ u_away u' = None))).
Proof.
  intros I H n u' Hu'. pose proof (InvK_of_Inv w I) as K. unfold step in H.
  destruct (step_raw cfg verify w i e) as [[[w1 o1] c1]|] eqn:H1; [|discriminate]. cbn [rbind] in H.
  destruct (step_raw_frame cfg verify w i e w1 o1 c1 K H1) as [K1 _].
  destruct (deliver_kills_ok cfg w1 K1) as [w2 [o2 [c2 [H2 [_ [Hsub _]]]]]].
  rewrite H2 in H. cbn [rbind] in H. injection H as <- _ _.
  destruct (Hsub n u' Hu') as [Hu1 _]. clear Hu' Hsub H2.
  assert (forall c, conns w !! i = Some c -> forall (o0 : outl) (cl0 : list nat),
            (let! wx := teardown i w in Ok (wx, o0, cl0)) = Ok (w1, o1, c1) ->
            exists n0 u, users (sh w) !! n0 = Some u /\ u_conn u = u_conn u' /\ u_away u' = u_away u) as TD.
  { intros c Hc o0 cl0 E. destruct (teardown_ok i w c K Hc) as [wx [Ht [_ [_ [Hs _]]]]]. rewrite Ht in E. cbn [rbind] in E.
    injection E as <- _ _. destruct (Hs n u' Hu1) as [Hu0 _]. eauto. }
  assert (Ok (w, @nil (nat * str), @nil nat) = Ok (w1, o1, c1) ->
          exists n0 u, users (sh w) !! n0 = Some u /\ u_conn u = u_conn u' /\ u_away u' = u_away u) as Same.
  { intros [= <- _ _]. eauto. }
  destruct e; cbn [step_raw] in H1.
  - left. destruct (conns w !! i); [now apply Same|]. destruct (server_quit (sh w)); [injection H1 as <- _ _; eauto|].
    destruct (match cfg_max_connections cfg with Some m => N.ltb (nconns w) m | None => true end); injection H1 as <- _ _; eauto.
  - destruct (conns w !! i) as [c|] eqn:Hc; [|left; now apply Same].
    destruct (process_line cfg verify i (sh w) c l) as [r|] eqn:Hr; cbn [rbind] in H1; [|discriminate].
    assert (users (h_sh r) !! n = Some u') as Hur.
    { destruct (h_quit r).
      - set (wl := {| sh := h_sh r; conns := <[i := h_conn r]> (conns w); nconns := nconns w |}) in *.
        destruct (process_line_ok cfg verify i (sh w) c l (ik_s w K) (ik_cu w K i c Hc) (ik_st w K i c Hc)) as [r' [Hr' R]].
        rewrite Hr in Hr'. injection Hr' as <-. pose proof (InvK_line i w c r K Hc R) as Kl.
        assert (conns wl !! i = Some (h_conn r)) as Hcl by (cbn; now rewrite lookup_insert).
        destruct (teardown_ok i wl _ Kl Hcl) as [wx [Ht [_ [_ [Hs _]]]]]. rewrite Ht in H1. cbn [rbind] in H1.
        injection H1 as <- _ _. destruct (Hs n u' Hu1) as [Hx _]. exact Hx.
      - injection H1 as <- _ _. exact Hu1. }
    destruct (line_away_source cfg verify i (sh w) c l r (ik_s w K) (ik_cu w K i c Hc) Hr n u' Hur) as [L|[[Hi [A R]]|[Hi [A R]]]].
    + left. exact L.
    + right. split; [exact Hi|]. exists c, l. auto.
    + right. split; [exact Hi|]. exists c, l. auto.
  - left. destruct (conns w !! i) as [c|] eqn:Hc; [|now apply Same]. eapply TD; eauto.
  - left. destruct (conns w !! i) as [c|] eqn:Hc; [|now apply Same]. eapply TD; eauto.
  - left. destruct (conns w !! i) as [c|] eqn:Hc; [|now apply Same]. eapply TD; eauto.
  - left. destruct (conns w !! i) as [c|] eqn:Hc; [|now apply Same]. injection H1 as <- _ _. eauto.
  - left. destruct (conns w !! i) as [c|] eqn:Hc; [|now apply Same]. eapply TD; eauto.
Qed.

End global.
