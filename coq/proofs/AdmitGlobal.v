(* AdmitGlobal.v - nobody becomes a member of a channel except through the admission rule.  Over every event of every
   connection: a user that holds a membership after the step which the same connection's user did not hold before it sent a
   JOIN line naming that channel at some position of its list, the quota allowed one more channel, and - when the channel
   existed - key (at that position), bans and exceptions, invitation and limit of the channel as it was BEFORE the line admitted
   it ([join_allowed]). *)
From IRC Require Import Str Wild Glob Mask Parse Reply State Handlers Step.
From IRCP Require Import StrP ChanP InvDefs InvPrims InvNick InvHandlers InvStep Reach NickP OperP ModesFrame JoinP JoinListP JoinP2
  MembersFrame MembersGlobal SettingsFrame RankFrame ConnFrame BornFrame.
From stdpp Require Import gmap.
Open Scope N_scope.

Local Arguments lit : simpl never.

Section frame.
Context (cfg : config) (verify : str -> str -> bool) (i : nat).

(* an accepted entry of the plan sits at a position of the list, was accepted by the check phase with the key at that
   position, and the quota - counted from the channels held at the start - had room *)
Lemma plan_ok_admitted s c u nick client keys acc cnt idx chs0 plan ch cr :
  plan_ok cfg s c u nick client keys acc cnt idx chs0 plan -> In (ch, (true, cr)) plan ->
  exists k key cnt', nth_error chs0 k = Some ch /\ key_at keys (idx + k) = Some key /\
    (join_check s c u nick client ch key).1.1 = true /\ cnt <= cnt' /\ quota cfg cnt' = true.
Proof.
  intros P. induction P as [|acc cnt idx ch0 chs0 l Hin P IH|acc cnt idx ch0 chs0 l key d Hn Hk Hd P IH]; intros Hx.
  - destruct Hx.
  - destruct Hx as [Hx|Hx]; [discriminate Hx|].
    destruct (IH Hx) as [k [key [cnt' [A [B [C [D E]]]]]]]. exists (S k), key, cnt'. repeat split; try assumption.
    replace (idx + S k)%nat with (S idx + k)%nat by lia. exact B.
  - destruct Hx as [Hx|Hx].
    + injection Hx as -> Hd' _. exists 0%nat, key, cnt. rewrite Nat.add_0_r. rewrite Hd' in Hd. symmetry in Hd. apply andb_true_iff in Hd as [D1 D2].
      repeat split; try assumption. lia.
    + destruct (IH Hx) as [k [key' [cnt' [A [B [C [D E]]]]]]]. exists (S k), key', cnt'. repeat split; try assumption.
      * replace (idx + S k)%nat with (S idx + k)%nat by lia. exact B.
      * destruct d; lia.
Qed.

(* the plan applied: a membership the joiner holds afterwards and did not hold before comes from an accepted entry *)
Lemma rfold_join_gained nick plan : forall s s' u u' ch,
  rfold (join_insert nick) plan s = Ok s' -> users s !! nick = Some u -> users s' !! nick = Some u' ->
  ch ∈ u_chans u' -> ch ∉ u_chans u -> exists cr, In (ch, (true, cr)) plan.
Proof.
  induction plan as [|x plan IH]; intros s s' u u' ch; cbn [rfold].
  - intros [= <-] Hu Hu' Hin Hnin. congruence.
  - destruct (join_insert nick s x) as [s1|] eqn:E1; cbn [rbind]; [|discriminate]. intros E Hu Hu' Hin Hnin.
    destruct x as [ch1 [j cr]]. unfold join_insert in E1. destruct j; cbn [negb] in E1.
    + unfold get_user in E1. rewrite Hu in E1. cbn [rbind] in E1.
      set (u1 := u_set_invited (fun v => v ∖ {[ch1]}) (u_set_chans (fun cs => {[ch1]} ∪ cs) u)) in *.
      assert (users s1 !! nick = Some u1) as Hu1.
      { destruct cr.
        - injection E1 as <-. cbn. now rewrite lookup_insert.
        - destruct (get_chan _ ch1) as [co|]; cbn [rbind] in E1; [|discriminate]. injection E1 as <-. cbn. now rewrite lookup_insert. }
      destruct (decide (ch = ch1)) as [->|N1]; [exists cr; left; reflexivity|].
      destruct (IH s1 s' u1 u' ch E Hu1 Hu' Hin) as [cr' Hx]; [|exists cr'; right; exact Hx].
      subst u1. cbn. set_solver.
    + injection E1 as <-. destruct (IH s s' u u' ch E Hu Hu' Hin Hnin) as [cr' Hx]. exists cr'. right. exact Hx.
Qed.

Lemma quota_mono cnt cnt' : cnt <= cnt' -> quota cfg cnt' = true -> quota cfg cnt = true.
Proof. unfold quota. destruct (cfg_max_joins cfg); [|auto]. intros L H. apply N.ltb_lt in H. apply N.ltb_lt. lia. Qed.

Theorem join_gained s c chs0 keys r nick u u' ch : InvS s ->
  c_nick c = Some nick -> users s !! nick = Some u -> process_join cfg i s c chs0 keys = Ok r ->
  users (h_sh r) !! nick = Some u' -> ch ∈ u_chans u' -> ch ∉ u_chans u ->
  exists k key, nth_error chs0 k = Some ch /\ key_at keys k = Some key /\ quota_ok cfg u /\
    (join_check s c u nick (client_name c) ch key).1.1 = true /\
    forall co, chans s !! ch = Some co -> join_allowed co u ch (c_source c) key.
Proof.
  intros I Hn Hu H Hu' Hin Hnin.
  assert (process_join cfg i s c chs0 keys = Ok r) as H0 by exact H.
  unfold process_join in H. unfold own_nick in H. rewrite Hn in H. cbn [rbind] in H. unfold get_user in H. rewrite Hu in H. cbn [rbind] in H.
  destruct (join_phase1 _ _ _ _ _ _ _ _ _ _ _) as [[[plan o1] q]|] eqn:Ep; cbn [rbind] in H; [|discriminate].
  destruct (rfold (join_insert nick) plan s) as [s'|] eqn:E; cbn [rbind] in H; [|discriminate].
  match type of H with context [rfold ?G plan []] => destruct (rfold G plan []) as [o2|] end; cbn [rbind] in H; [|discriminate].
  injection H as <-. cbn [h_sh] in Hu'.
  destruct (rfold_join_gained nick plan s s' u u' ch E Hu Hu' Hin Hnin) as [cr Hx].
  pose proof (phase1_spec cfg s c u nick (client_name c) keys chs0 _ _ _ _ _ _ Ep) as P.
  destruct (plan_ok_admitted s c u nick (client_name c) keys _ _ _ chs0 plan ch cr P Hx) as [k [key [cnt' [A [B [C [D Q]]]]]]].
  exists k, key. cbn in B. split; [exact A|]. split; [exact B|]. split; [|split; [exact C|]].
  - pose proof (quota_mono _ _ D Q) as Q0. unfold quota in Q0. unfold quota_ok. destruct (cfg_max_joins cfg); [|exact Logic.I]. now apply N.ltb_lt.
  - intros co Hco. pose proof (join_check_nonmember s c u nick (client_name c) ch key co C Hco) as Hnm.
    destruct (join_check_spec s c u nick (client_name c) ch key co Hco Hnm) as [_ [Hiff _]]. apply Hiff. exact C.
Qed.

End frame.

Section global.
Context (cfg : config) (verify : str -> str -> bool).

(* a registered connection's JOIN line as a whole step: the world afterwards is the handler's result *)
Lemma join_step w i l msg chs0 keys c w' o cl : Inv w -> step cfg verify w i (EvLine l) = Ok (w', o, cl) ->
  conns w !! i = Some c -> c_auth c = true -> tokenize l = inl msg -> command_of_message msg = inl (JOIN chs0 keys) ->
  exists r, process_join cfg i (sh w) c chs0 keys = Ok r /\ sh w' = h_sh r /\ conns w' = <[i := c]> (conns w).
Proof.
  intros I H Hc A Ht Hcmd. pose proof (InvK_of_Inv w I) as K. unfold step in H. cbn [step_raw] in H. rewrite Hc in H.
  destruct (process_line cfg verify i (sh w) c l) as [r|] eqn:Hr; cbn [rbind] in H; [|discriminate].
  assert (process_join cfg i (sh w) c chs0 keys = Ok r) as Hj.
  { unfold process_line in Hr. rewrite Ht, Hcmd, A in Hr. cbn in Hr. exact Hr. }
  destruct (own_user i (sh w) c (ik_cu w K i c Hc) A) as [nick [u [Hn [Hu [Hcu [Ho Hg]]]]]].
  destruct (join_bornby cfg i (sh w) c chs0 keys r nick Ho Hj) as [_ Q]. rewrite Q in H. cbn [rbind] in H.
  pose proof (join_keeps cfg i (sh w) c chs0 keys r Hj) as [Kp _].
  pose proof (join_conn cfg i (sh w) c chs0 keys r Hj) as Ec.
  rewrite deliver_nil in H.
  - cbn [rbind] in H. injection H as <- _ _. exists r. cbn. rewrite Ec. auto.
  - cbn [sh]. intros n u0 Hu0. destruct (Kp n u0 Hu0) as [u1 [Hu1 [_ [_ Hk]]]]. rewrite Hk. eapply (iw_nk w I); eauto.
Qed.

Theorem gained_only_if_admitted w i e w' o cl n u' n0 u ch : Inv w -> step cfg verify w i e = Ok (w', o, cl) ->
  users (sh w') !! n = Some u' -> users (sh w) !! n0 = Some u -> u_conn u = u_conn u' ->
  ch ∈ u_chans u' -> ch ∉ u_chans u ->
  exists c l msg chs0 keys k key, conns w !! i = Some c /\ c_auth c = true /\ u_conn u' = i /\ n0 = n /\ c_nick c = Some n /\
    e = EvLine l /\ tokenize l = inl msg /\ command_of_message msg = inl (JOIN chs0 keys) /\
    nth_error chs0 k = Some ch /\ key_at keys k = Some key /\ quota_ok cfg u /\
    forall co, chans (sh w) !! ch = Some co -> join_allowed co u ch (c_source c) key.
Proof.
  intros I H Hu' Hu Ho Hin Hnin.
  destruct (membership_gained_only_by_own_join cfg verify w i e w' o cl n u' n0 u ch I H Hu' Hu Ho Hin Hnin)
    as [Hi [c [l [msg [chs0 [keys [Hc [A [-> [Ht Hcmd]]]]]]]]]].
  destruct (join_step w i l msg chs0 keys c w' o cl I H Hc A Ht Hcmd) as [r [Hj [Es Ec]]].
  destruct (step_frame cfg verify w i (EvLine l) w' o cl I H) as [I' _].
  (* the user before and after is the one under the connection's nick *)
  destruct (iw_uc w I n0 u Hu) as [c0 [Hc0 [_ Hn0]]]. rewrite Ho, Hi, Hc in Hc0. injection Hc0 as <-.
  destruct (iw_uc w' I' n u' Hu') as [c1 [Hc1 [_ Hn1]]]. rewrite Hi, Ec, lookup_insert in Hc1. injection Hc1 as <-.
  assert (n0 = n) as -> by congruence.
  rewrite Es in Hu'.
  destruct (join_gained cfg verify i (sh w) c chs0 keys r n u u' ch (iw_s w I) Hn1 Hu Hj Hu' Hin Hnin) as [k [key [A1 [A2 [A3 [_ A5]]]]]].
  exists c, l, msg, chs0, keys, k, key. repeat (split; [assumption || reflexivity|]). exact A5.
Qed.

End global.
