(* AnnounceMembersP.v - membership changes are announced to every member of the channel, the
   departing user included (PART, KICK); the joiner and every member (JOIN); every user (NICK). *)
From IRC Require Import Str Wild Glob Mask Parse Reply State Handlers Step.
From IRCP Require Import StrP MsgP InvDefs InvHandlers.
From stdpp Require Import gmap.
Open Scope N_scope.

Local Arguments lit : simpl never.

Section ann.
Context (cfg : config) (verify : str -> str -> bool) (i : nat).

(* PART of one channel by a member: one copy of the PART line to every member of the channel as it
   was BEFORE the departure - so the departing user is told as well - and nothing else *)
Theorem part_announced s c ch reason r nick co :
  c_nick c = Some nick -> chans s !! ch = Some co -> nick ∈ dom (ch_users co) ->
  process_part cfg i s c [ch] reason = Ok r ->
  let line := from (c_source c) (match reason with
                                 | Some t => lit "PART " ++ ch ++ lit " :" ++ t
                                 | None => lit "PART " ++ ch end) in
  Forall2 (delivered s line) (member_names co) (h_out r) /\ nick ∈ member_names co.
Proof.
  intros Hn Hco Hm. unfold process_part, own_nick. rewrite Hn. cbv beta iota zeta delta [rfold rbind]. unfold str in *. rewrite Hco.
  rewrite bool_decide_eq_true_2 by exact Hm.
  destruct (send_all s (member_names co) _) as [sent|] eqn:Es; cbn [rbind]; [|discriminate].
  destruct (st_remove_user_from_channel ch nick s) as [s1|]; cbn [rbind]; [|discriminate].
  destruct (get_user s1 nick); cbn [rbind]; [|discriminate]. intros [= <-]. cbn [h_out app]. split.
  - now apply send_all_spec.
  - unfold member_names. apply elem_of_list_In, in_map_iff. apply elem_of_dom in Hm as [rk Hr].
    exists (nick, rk). split; [reflexivity|]. apply elem_of_list_In, elem_of_map_to_list. exact Hr.
Qed.

(* KICK of one victim that the rank rule lets through: after the removal, one copy of the KICK line goes
   to every member that is left and one to the victim itself (still a user, no longer a member); the
   refusals computed by the decision come first and go to the sender only *)
Theorem kick_announced s c ch v comment r nick :
  c_nick c = Some nick -> (kick_decide s nick (client_name c) ch [v]).1 = [v] ->
  process_kick cfg i s c ch [v] comment = Ok r ->
  let line := from (c_source c) (lit "KICK " ++ ch ++ [c_space] ++ v ++ lit " :" ++ default (lit "Kicked") comment) in
  exists rest x,
    h_out r = mine cfg i (kick_decide s nick (client_name c) ch [v]).2 ++ rest ++ [x] /\
    delivered (h_sh r) line v x /\
    match chans (h_sh r) !! ch with
    | Some co' => Forall2 (delivered (h_sh r) line) (member_names co') rest
    | None => rest = []
    end.
Proof.
  intros Hn Hk. unfold process_kick, own_nick. rewrite Hn. cbv beta iota zeta delta [rbind].
  destruct (kick_decide s nick (client_name c) ch [v]) as [kicked o1] eqn:Ed. cbn [fst snd] in *. subst kicked.
  cbn [rfold]. destruct (st_remove_user_from_channel ch v s) as [s1|] eqn:E1; cbn [rbind]; [|discriminate].
  cbn [rfold]. cbv beta iota zeta delta [rbind]. unfold str in *.
  match goal with |- context [match ?x with Some co => send_all _ _ _ | None => _ end] => destruct x as [co'|] eqn:Eco end.
  - 
    match goal with |- context [send_all ?a ?b ?l] => destruct (send_all a b l) as [rest|] eqn:Es end; [|discriminate].
    match goal with |- context [send_to ?a ?b ?l] => destruct (send_to a b l) as [x|] eqn:Ex end; [|discriminate].
    intros [= <-]. cbn [h_out h_sh app]. exists rest, x. split; [reflexivity|]. split.
    + unfold send_to, get_user in Ex.
      match type of Ex with context [match ?y with Some _ => _ | None => Panic P_unwrap_user end] => destruct y as [u|] eqn:Eu end;
        cbn [rbind] in Ex; [|discriminate Ex].
      injection Ex as <-. exists u. split; [exact Eu|reflexivity].
    + rewrite Eco. now apply send_all_spec.
  - cbv beta iota zeta delta [rbind].
    match goal with |- context [send_to ?a ?b ?l] => destruct (send_to a b l) as [x|] eqn:Ex end; [|discriminate].
    intros [= <-]. cbn [h_out h_sh app]. exists [], x. split; [reflexivity|]. split.
    + unfold send_to, get_user in Ex.
      match type of Ex with context [match ?y with Some _ => _ | None => Panic P_unwrap_user end] => destruct y as [u|] eqn:Eu end;
        cbn [rbind] in Ex; [|discriminate Ex].
      injection Ex as <-. exists u. split; [exact Eu|reflexivity].
    + rewrite Eco. reflexivity.
Qed.

(* JOIN, one accepted entry of the plan: the joiner is told first (the JOIN line, the topic if there is
   one, the NAMES list), then one copy of the JOIN line goes to every OTHER member of the channel as it
   is after the insertion; a refused entry announces nothing *)
Theorem join_announce_accepted c nick client s acc ch create co o :
  chans s !! ch = Some co -> join_announce cfg i c nick client s acc (ch, (true, create)) = Ok o ->
  let line := from (c_source c) (lit "JOIN " ++ ch) in
  exists names others,
    names_lines s c client nick ch co true = Ok names /\
    o = acc ++ [(i, line)]
            ++ mine cfg i (match ch_topic co with Some (t, _) => [rpl_topic client ch t] | None => [] end ++ names)
            ++ others /\
    Forall2 (delivered s line) (List.filter (fun n => negb (str_eqb n nick)) (member_names co)) others.
Proof.
  intros Hco. unfold join_announce, get_chan. cbn [negb]. cbv beta iota. unfold str in *. rewrite Hco. cbn [rbind].
  destruct (names_lines s c client nick ch co true) as [names|] eqn:En; cbn [rbind]; [|discriminate].
  destruct (send_all s _ _) as [others|] eqn:Es; cbn [rbind]; [|discriminate].
  intros [= <-]. exists names, others. split; [reflexivity|]. split; [reflexivity|]. now apply send_all_spec.
Qed.

Theorem join_announce_refused c nick client s acc ch create :
  join_announce cfg i c nick client s acc (ch, (false, create)) = Ok acc.
Proof. reflexivity. Qed.

(* the whole JOIN command: the output is the refusals of the planning phase, to the sender, followed by
   the announcements of the plan's entries in order, each made against the state in which ALL accepted
   entries are already inserted *)
Theorem join_output s c chs keys r nick u :
  c_nick c = Some nick -> users s !! nick = Some u -> process_join cfg i s c chs keys = Ok r ->
  exists plan o1 cnt o2,
    join_phase1 cfg s c u nick (client_name c) chs keys 0 [] (N.of_nat (size (u_chans u))) = Ok (plan, o1, cnt) /\
    rfold (join_insert nick) plan s = Ok (h_sh r) /\
    rfold (join_announce cfg i c nick (client_name c) (h_sh r)) plan [] = Ok o2 /\
    h_out r = mine cfg i o1 ++ o2.
Proof.
  intros Hn Hu. unfold process_join, own_nick, get_user. rewrite Hn. cbn [rbind]. rewrite Hu. cbn [rbind].
  destruct (join_phase1 cfg s c u nick (client_name c) chs keys 0 [] (N.of_nat (size (u_chans u)))) as [[[plan o1] q]|] eqn:E; cbn [rbind]; [|discriminate].
  destruct (rfold (join_insert nick) plan s) as [s'|] eqn:Ef; cbn [rbind]; [|discriminate].
  match goal with |- context [rfold ?G plan []] => destruct (rfold G plan []) as [o2|] eqn:E3 end; cbn [rbind]; [|discriminate].
  intros [= <-]. cbn [h_sh h_out]. exists plan, o1, q, o2. repeat split; assumption.
Qed.

(* NICK: the line with the old source goes to every registered user (C15_accepted has the list) *)

End ann.
