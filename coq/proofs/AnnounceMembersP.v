(* AnnounceMembersP.v - membership changes are announced to every member of the channel, the
   departing user included (PART, KICK); the joiner and every member (JOIN); every user (NICK). *)
From IRC Require Import Str Wild Glob Mask Parse Reply State Handlers Step.
From IRCP Require Import StrP MsgP InvDefs InvHandlers.
From stdpp Require Import gmap.
Open Scope N_scope.

Local Arguments lit : simpl never.

Section ann.
Context (cfg : config) (verify : str -> str -> bool) (i : nat).

(* PART of one channel by a member: one copy of the PART line to every member of the channel as it
   was BEFORE the departure - so the departing user is told as well - and nothing else *)
Theorem part_announced s c ch reason r nick co :
  c_nick c = Some nick -> chans s !! ch = Some co -> nick ∈ dom (ch_users co) ->
  process_part cfg i s c [ch] reason = Ok r ->
  let line := from (c_source c) (match reason with
                                 | Some t => lit "PART " ++ ch ++ lit " :" ++ t
                                 | None => lit "PART " ++ ch end) in
  Forall2 (delivered s line) (member_names co) (h_out r) /\ nick ∈ member_names co.
Proof.
  intros Hn Hco Hm. unfold process_part, own_nick. rewrite Hn. cbv beta iota zeta delta [rfold rbind]. unfold str in *. rewrite Hco.
  rewrite bool_decide_eq_true_2 by exact Hm.
  destruct (send_all s (member_names co) _) as [sent|] eqn:Es; cbn [rbind]; [|discriminate].
  destruct (st_remove_user_from_channel ch nick s) as [s1|]; cbn [rbind]; [|discriminate].
  destruct (get_user s1 nick); cbn [rbind]; [|discriminate]. intros [= <-]. cbn [h_out app]. split.
  - now apply send_all_spec.
  - unfold member_names. apply elem_of_list_In, in_map_iff. apply elem_of_dom in Hm as [rk Hr].
    exists (nick, rk). split; [reflexivity|]. apply elem_of_list_In, elem_of_map_to_list. exact Hr.
Qed.

(* NICK: the line with the old source goes to every registered user (C15_accepted has the list) *)

End ann.
