(* SettingsGlobal.v - over whole steps (any event of any connection): a channel that exists before and
   after a step has the same flags, key, limit and mask lists unless the event is a MODE line of a
   registered connection naming that channel.  (That the MODE then needs a member of sufficient rank
   is ModeP / C08_insufficient_rank_changes_nothing.) *)
From IRC Require Import Str Wild Glob Mask Parse Reply State Handlers Step.
From IRCP Require Import StrP InvDefs InvPrims InvHandlers InvStep Reach ModesFrame SettingsFrame.
From stdpp Require Import gmap.
Open Scope N_scope.

Local Arguments lit : simpl never.

Section global.
Context (cfg : config) (verify : str -> str -> bool).

Lemma authenticate_chans i s c r : authenticate cfg verify i s c = Ok r -> chans (h_sh r) = chans s.
Proof.
  unfold authenticate. destruct (c_capneg c); [intros [= <-]; reflexivity|].
  destruct (c_nick c) as [nick|]; [|intros [= <-]; reflexivity].
  destruct (c_name c) as [name|]; [|intros [= <-]; reflexivity].
  destruct (negb _); [intros [= <-]; reflexivity|].
  match goal with |- (if ?g then _ else _) = _ -> _ => destruct g end; [|intros [= <-]; reflexivity].
  destruct (users s !! nick) eqn:Hn; [intros [= <-]; reflexivity|].
  destruct (c_sender_taken c); [discriminate|].
  match goal with |- context [st_add_user nick ?u0 s] => set (u := u0) end.
  destruct (lusers_lines _ _); cbn [rbind]; [|discriminate]. intros [= <-]. cbn [h_sh].
  apply (st_add_user_fields nick u s).
Qed.

Lemma unauth_dispatch_chans i s c cmd msg r : c_auth c = false -> needs_registration cmd = false ->
  dispatch cfg verify i s c cmd msg = Ok r -> chans (h_sh r) = chans s.
Proof.
  intros A Hn. destruct cmd; try discriminate Hn; cbn [dispatch].
  - unfold process_cap. destruct sub.
    + intros [= <-]; reflexivity.
    + intros [= <-]; reflexivity.
    + destruct caps as [cs|]; [destruct (forallb _ cs)|]; intros [= <-]; reflexivity.
    + rewrite A. apply authenticate_chans.
  - intros [= <-]; reflexivity.
  - unfold process_pass. rewrite A. apply authenticate_chans.
  - unfold process_nick. rewrite A. cbn [negb]. destruct (users s !! nickname); [intros [= <-]; reflexivity|apply authenticate_chans].
  - unfold process_user. rewrite A. apply authenticate_chans.
  - intros [= <-]; reflexivity.
Qed.

Definition mode_line_for (c : conn) (l : str) (ch : str) : Prop :=
  c_auth c = true /\ exists msg modes, tokenize l = inl msg /\ command_of_message msg = inl (MODE ch modes).

Theorem line_settings i s c l r : InvS s -> conn_ok i s c ->
  process_line cfg verify i s c l = Ok r ->
  forall ch co co', chans s !! ch = Some co -> chans (h_sh r) !! ch = Some co' -> chs co' = chs co \/ mode_line_for c l ch.
Proof.
  intros I C H ch co co' H1 H2.
  assert (forall o, Ok {| h_sh := s; h_conn := c; h_out := o; h_quit := false |} = Ok r -> chs co' = chs co \/ mode_line_for c l ch) as Same.
  { intros o [= <-]. cbn in H2. left. congruence. }
  unfold process_line in H. destruct (tokenize l) as [msg|[| |]] eqn:Ht; try (eapply Same; exact H).
  destruct (command_of_message msg) as [cmd|e] eqn:Hcmd; [|eapply Same; exact H].
  destruct (needs_registration cmd && negb (c_auth c)) eqn:G; [eapply Same; exact H|].
  destruct (c_auth c) eqn:A.
  - destruct (match cmd with MODE _ _ => true | _ => false end) eqn:Em.
    + destruct cmd; try discriminate Em. cbn [dispatch] in H.
      destruct (decide (ch = target)) as [->|Hne]; [right; split; [exact A|eauto]|].
      destruct (own_user i s c C A) as [nick [u [Hn [Hu [Hc [Ho Hg]]]]]].
      left. eapply (mode_skeeps_others cfg i s c target modes r nick Ho H); eauto.
    + left. eapply (dispatch_settings cfg verify i s c cmd msg r I C A H); eauto. intros t m ->. discriminate Em.
  - cbn in G. rewrite andb_true_r in G. left. rewrite (unauth_dispatch_chans i s c cmd msg r A G H) in H2. congruence.
Qed.

Theorem settings_change_only_by_mode w i e w' o cl : Inv w -> step cfg verify w i e = Ok (w', o, cl) ->
  forall ch co co', chans (sh w) !! ch = Some co -> chans (sh w') !! ch = Some co' ->
  chs co' = chs co \/
  exists c l, conns w !! i = Some c /\ e = EvLine l /\ mode_line_for c l ch.
Proof.
  intros I H ch co co' H1 H2. pose proof (InvK_of_Inv w I) as K. unfold step in H.
  destruct (step_raw cfg verify w i e) as [[[w1 o1] c1]|] eqn:Hr; [|discriminate]. cbn [rbind] in H.
  destruct (deliver_kills cfg w1) as [[[w2 o2] c2]|] eqn:Hk; [|discriminate]. cbn [rbind] in H. injection H as <- _ _.
  destruct (deliver_kills_sshrink cfg w1 w2 o2 c2 Hk ch co' H2) as [cx [Hx Ex]]. rewrite Ex. clear H2 Ex Hk co'.
  assert (forall c, conns w !! i = Some c -> forall (o0 : outl) (cl0 : list nat),
            (let! wx := teardown i w in Ok (wx, o0, cl0)) = Ok (w1, o1, c1) -> chs cx = chs co) as TD.
  { intros c Hc o0 cl0 E. destruct (teardown i w) as [wx|] eqn:Ht; cbn [rbind] in E; [|discriminate]. injection E as <- _ _.
    destruct (teardown_sshrink i w wx Ht ch cx Hx) as [c0 [H0 E0]]. congruence. }
  assert (Ok (w, @nil (nat * str), @nil nat) = Ok (w1, o1, c1) -> chs cx = chs co) as Same.
  { intros [= <- _ _]. congruence. }
  destruct e; cbn [step_raw] in Hr.
  - left. destruct (conns w !! i); [now apply Same|]. destruct (server_quit (sh w)); [injection Hr as <- _ _; congruence|].
    destruct (match cfg_max_connections cfg with Some m => N.ltb (nconns w) m | None => true end); injection Hr as <- _ _; cbn in Hx; congruence.
  - destruct (conns w !! i) as [c|] eqn:Hc; [|left; now apply Same].
    destruct (process_line cfg verify i (sh w) c l) as [r|] eqn:Hl; cbn [rbind] in Hr; [|discriminate].
    assert (exists c1', chans (h_sh r) !! ch = Some c1' /\ chs cx = chs c1') as [c1' [Hc1 E1]].
    { destruct (h_quit r).
      - destruct (teardown i _) as [wx|] eqn:Ht; cbn [rbind] in Hr; [|discriminate]. injection Hr as <- _ _.
        destruct (teardown_sshrink i _ wx Ht ch cx Hx) as [c0 [H0 E0]]. cbn in H0. eauto.
      - injection Hr as <- _ _. cbn in Hx. eauto. }
    rewrite E1. destruct (line_settings i (sh w) c l r (ik_s w K) (ik_cu w K i c Hc) Hl ch co c1' H1 Hc1) as [L|R]; [now left|].
    right. exists c, l. auto.
  - left. destruct (conns w !! i) as [c|] eqn:Hc; [|now apply Same]. eapply TD; eauto.
  - left. destruct (conns w !! i) as [c|] eqn:Hc; [|now apply Same]. eapply TD; eauto.
  - left. destruct (conns w !! i) as [c|] eqn:Hc; [|now apply Same]. eapply TD; eauto.
  - left. destruct (conns w !! i) as [c|] eqn:Hc; [|now apply Same]. injection Hr as <- _ _. congruence.
  - left. destruct (conns w !! i) as [c|] eqn:Hc; [|now apply Same]. eapply TD; eauto.
Qed.

End global.
