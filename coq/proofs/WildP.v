(* WildP.v - the model of match_wildcard computes exactly the glob specification. *)
From Coq Require Import List NArith Bool Arith Lia.
From IRC Require Import Str Wild Glob.
Import ListNotations.
Open Scope N_scope.

Definition nostar (m : str) : Prop := Forall (fun c => c <> c_star) m.

(* ------------------------------------------------------------------ unfolding glob *)
Lemma glob_nil t : glob [] t = is_empty t.
Proof. reflexivity. Qed.

Lemma glob_star_unfold q t :
  glob (c_star :: q) t = glob q t || match t with [] => false | _ :: t' => glob (c_star :: q) t' end.
Proof. destruct t; reflexivity. Qed.

Lemma glob_char_nil c q : c <> c_star -> glob (c :: q) [] = false.
Proof.
  intros Hc. cbn [glob]. destruct (N.eqb_spec c c_star) as [E|_]; [contradiction|reflexivity].
Qed.

Lemma glob_char_cons c q d t :
  c <> c_star -> glob (c :: q) (d :: t) = (N.eqb c c_qmark || N.eqb c d) && glob q t.
Proof.
  intros Hc. cbn [glob]. destruct (N.eqb_spec c c_star) as [E|_]; [contradiction|reflexivity].
Qed.

(* ------------------------------------------------------------------ "some suffix satisfies f" *)
Fixpoint any_suffix (f : str -> bool) (t : str) : bool :=
  f t || match t with [] => false | _ :: t' => any_suffix f t' end.

Lemma glob_star_any q t : glob (c_star :: q) t = any_suffix (glob q) t.
Proof.
  induction t as [|d t IH]; [reflexivity|].
  rewrite glob_star_unfold, IH. reflexivity.
Qed.

Lemma any_suffix_iff f t :
  any_suffix f t = true <-> exists k, (k <= length t)%nat /\ f (skipn k t) = true.
Proof.
  induction t as [|d t IH]; cbn [any_suffix].
  - rewrite orb_false_r. split.
    + intros H. exists O. split; [apply le_n|exact H].
    + intros [k [Hk H]]. destruct k; cbn in *; [exact H|lia].
  - rewrite orb_true_iff, IH. split.
    + intros [H|[k [Hk H]]].
      * exists O. split; [cbn; lia|exact H].
      * exists (S k). split; [cbn; lia|exact H].
    + intros [k [Hk H]]. destruct k as [|k].
      * left. exact H.
      * right. exists k. split; [cbn in Hk; lia|exact H].
Qed.

Lemma skipn_add {A} (j k : nat) (t : list A) : skipn (j + k) t = skipn k (skipn j t).
Proof.
  revert t. induction j as [|j IH]; intros t; [reflexivity|].
  destruct t as [|x t]; cbn [skipn Nat.add]; [now rewrite skipn_nil|apply IH].
Qed.

Lemma any_suffix_skipn f j t : any_suffix f (skipn j t) = true -> any_suffix f t = true.
Proof.
  rewrite !any_suffix_iff. intros [k [Hk H]].
  destruct (le_lt_dec j (length t)) as [Hj|Hj].
  - exists (j + k)%nat. rewrite skipn_length in Hk. split; [lia|].
    rewrite skipn_add. exact H.
  - rewrite (@skipn_all2 _ j t) in H by lia. rewrite skipn_nil in H.
    exists (length t). split; [lia|]. rewrite skipn_all. exact H.
Qed.

Lemma any_suffix_ext f g t : (forall x, f x = g x) -> any_suffix f t = any_suffix g t.
Proof.
  intros E. induction t as [|d t IH]; cbn [any_suffix]; rewrite E; [reflexivity|now rewrite IH].
Qed.

(* ------------------------------------------------------------------ a star-free run *)
Lemma starts_single_length m t : starts_single m t = true -> (length m <= length t)%nat.
Proof.
  revert t. induction m as [|c m IH]; intros t H; cbn; [lia|].
  destruct t as [|d t]; [discriminate|]. cbn in H. apply andb_true_iff in H as [_ H].
  apply IH in H. cbn. lia.
Qed.

Lemma glob_app_nostar m q t :
  nostar m -> glob (m ++ q) t = starts_single m t && glob q (skipn (length m) t).
Proof.
  intros Hm. revert t. induction Hm as [|c m Hc Hm IH]; intros t; [reflexivity|].
  cbn [app length]. destruct t as [|d t].
  - rewrite glob_char_nil by exact Hc. reflexivity.
  - rewrite glob_char_cons by exact Hc. cbn [starts_single skipn]. rewrite IH.
    now rewrite andb_assoc.
Qed.

Lemma glob_nostar m t :
  nostar m -> glob m t = starts_single m t && Nat.eqb (length m) (length t).
Proof.
  intros Hm. rewrite <- (app_nil_r m) at 1. rewrite glob_app_nostar by exact Hm.
  rewrite glob_nil. destruct (starts_single m t) eqn:E; [|reflexivity]. cbn [andb].
  apply starts_single_length in E.
  destruct (Nat.eqb_spec (length m) (length t)) as [L|L].
  - rewrite L, skipn_all. reflexivity.
  - destruct (skipn (length m) t) eqn:S; [|reflexivity].
    assert (length (skipn (length m) t) = 0%nat) as Z by now rewrite S.
    rewrite skipn_length in Z. lia.
Qed.

(* ------------------------------------------------------------------ segments *)
Lemma split_on_spec p :
  exists m rest, split_on c_star p = m :: rest /\ nostar m /\
    ((rest = [] /\ p = m) \/
     (exists p', p = m ++ c_star :: p' /\ rest = split_on c_star p')).
Proof.
  induction p as [|c p IH].
  - exists [], []. repeat split; [constructor|left; split; reflexivity].
  - cbn [split_on]. destruct (N.eqb_spec c c_star) as [E|E].
    + subst c. exists [], (split_on c_star p). repeat split; [constructor|].
      right. exists p. split; reflexivity.
    + destruct IH as [m [rest [S [Hm H]]]]. rewrite S.
      exists (c :: m), rest. repeat split; [constructor; assumption|].
      destruct H as [[R P]|[p' [P R]]].
      * left. subst. split; reflexivity.
      * right. exists p'. subst p. split; [reflexivity|exact R].
Qed.

Lemma split_on_nonempty p : split_on c_star p <> [].
Proof. destruct (split_on_spec p) as [m [rest [S _]]]. rewrite S. discriminate. Qed.

(* ------------------------------------------------------------------ leftmost occurrence *)
Lemma find_seg_some m t t' :
  find_seg m t = Some t' ->
  exists k, (k <= length t)%nat /\ starts_single m (skipn k t) = true /\
            t' = skipn (length m) (skipn k t).
Proof.
  revert t'. induction t as [|d t IH]; intros t'; cbn [find_seg].
  - destruct (starts_single m []) eqn:E; [|discriminate].
    intros [= <-]. exists O. repeat split; [lia|exact E].
  - destruct (starts_single m (d :: t)) eqn:E.
    + intros [= <-]. exists O. repeat split; [cbn; lia|exact E].
    + intros H. destruct (IH _ H) as [k [Hk [Hs T]]].
      exists (S k). repeat split; [cbn; lia|exact Hs|exact T].
Qed.

Lemma find_seg_first m t t' k :
  find_seg m t = Some t' -> starts_single m (skipn k t) = true ->
  exists j, t' = skipn (length m) (skipn j t) /\ (j <= k)%nat.
Proof.
  revert t' k. induction t as [|d t IH]; intros t' k; cbn [find_seg].
  - destruct (starts_single m []) eqn:E; [|discriminate].
    intros [= <-] _. exists O. split; [reflexivity|lia].
  - destruct (starts_single m (d :: t)) eqn:E.
    + intros [= <-] _. exists O. split; [reflexivity|lia].
    + intros H Hs. destruct k as [|k]; [cbn in Hs; congruence|].
      cbn [skipn] in Hs. destruct (IH _ _ H Hs) as [j [T L]].
      exists (S j). split; [exact T|lia].
Qed.

Lemma find_seg_none m t k :
  find_seg m t = None -> starts_single m (skipn k t) = false.
Proof.
  revert k. induction t as [|d t IH]; intros k; cbn [find_seg].
  - destruct (starts_single m []) eqn:E; [discriminate|].
    intros _. now rewrite skipn_nil.
  - destruct (starts_single m (d :: t)) eqn:E; [discriminate|].
    intros H. destruct k as [|k]; [exact E|]. cbn [skipn]. apply IH. exact H.
Qed.

(* ------------------------------------------------------------------ the segments after a '*' *)
Lemma last_segment m t :
  nostar m ->
  (if is_empty m then true
   else Nat.leb (length m) (length t) && starts_single m (skipn (length t - length m) t))
  = any_suffix (glob m) t.
Proof.
  intros Hm. destruct m as [|c m]; cbn [is_empty].
  - symmetry. apply any_suffix_iff. exists (length t). split; [lia|]. now rewrite skipn_all.
  - apply eq_true_iff_eq. rewrite andb_true_iff, any_suffix_iff. split.
    + intros [L S]. apply Nat.leb_le in L.
      exists (length t - length (c :: m))%nat. split; [lia|].
      rewrite glob_nostar by exact Hm. rewrite S. cbn [andb].
      apply Nat.eqb_eq. rewrite skipn_length. lia.
    + intros [k [Hk G]]. rewrite glob_nostar in G by exact Hm.
      apply andb_true_iff in G as [S L]. apply Nat.eqb_eq in L. rewrite skipn_length in L.
      assert (k = length t - length (c :: m))%nat as -> by lia.
      split; [apply Nat.leb_le; lia|exact S].
Qed.

Lemma wm_rest_cons2 m s rest t :
  wm_rest (m :: s :: rest) t =
  if is_empty m then wm_rest (s :: rest) t
  else match find_seg m t with Some t' => wm_rest (s :: rest) t' | None => false end.
Proof. reflexivity. Qed.

Lemma wm_rest_glob n : forall p', (length p' <= n)%nat ->
  forall t, wm_rest (split_on c_star p') t = glob (c_star :: p') t.
Proof.
  induction n as [|n IH]; intros p' Hn t.
  - destruct p'; [|cbn in Hn; lia]. cbn [split_on wm_rest is_empty].
    rewrite glob_star_any. symmetry. apply any_suffix_iff.
    exists (length t). split; [lia|]. now rewrite skipn_all.
  - destruct (split_on_spec p') as [m [rest [S [Hm H]]]]. rewrite S.
    destruct H as [[-> ->]|[p'' [-> ->]]].
    + cbn [wm_rest]. rewrite glob_star_any. apply last_segment. exact Hm.
    + assert (length p'' <= n)%nat as Hn'.
      { rewrite app_length in Hn. cbn in Hn. lia. }
      pose proof (IH p'' Hn') as IHp.
      destruct (split_on c_star p'') as [|s1 rest1] eqn:S2;
        [exfalso; exact (split_on_nonempty p'' S2)|].
      rewrite wm_rest_cons2. rewrite glob_star_any.
      destruct m as [|c m]; cbn [is_empty].
      * (* empty segment: "**" is "*" *)
        rewrite IHp. cbn [app]. rewrite glob_star_any.
        apply eq_true_iff_eq. rewrite !any_suffix_iff. split.
        -- intros [k [Hk G]]. exists k. split; [exact Hk|].
           rewrite glob_star_any. apply any_suffix_iff. exists O. split; [lia|exact G].
        -- intros [k [Hk G]]. rewrite glob_star_any in G.
           apply any_suffix_skipn in G. apply any_suffix_iff in G. exact G.
      * apply eq_true_iff_eq. rewrite any_suffix_iff. split.
        -- destruct (find_seg (c :: m) t) as [t'|] eqn:F; [|discriminate].
           intros W. rewrite IHp in W.
           destruct (find_seg_some _ _ _ F) as [k [Hk [St ->]]].
           exists k. split; [exact Hk|].
           rewrite glob_app_nostar by exact Hm. rewrite St. exact W.
        -- intros [k [Hk G]]. rewrite glob_app_nostar in G by exact Hm.
           apply andb_true_iff in G as [St G].
           destruct (find_seg (c :: m) t) as [t'|] eqn:F.
           ++ rewrite IHp. destruct (find_seg_first _ _ _ _ F St) as [j [-> Hj]].
              rewrite glob_star_any in *.
              replace k with (j + (k - j))%nat in G by lia.
              rewrite skipn_add in G.
              rewrite <- (skipn_add (k - j) (length (c :: m))) in G.
              rewrite Nat.add_comm, skipn_add in G.
              apply any_suffix_skipn in G. exact G.
           ++ rewrite (find_seg_none _ _ k F) in St. discriminate.
Qed.

(* ------------------------------------------------------------------ the theorem *)
Theorem wild_match_glob p t : wild_match p t = glob p t.
Proof.
  unfold wild_match, segments.
  destruct (split_on_spec p) as [m [rest [S [Hm H]]]]. rewrite S.
  destruct H as [[-> ->]|[p' [-> ->]]].
  - symmetry. apply glob_nostar. exact Hm.
  - destruct (split_on c_star p') as [|s1 rest1] eqn:S2;
      [exfalso; exact (split_on_nonempty p' S2)|].
    rewrite <- S2, (wm_rest_glob (length p') p' (le_n _)).
    symmetry. apply glob_app_nostar. exact Hm.
Qed.

(* glob as a relation *)
Lemma glob_matches p t : glob p t = true <-> matches p t.
Proof.
  split.
  - revert t. induction p as [|c p IH]; intros t H.
    + destruct t; [constructor|discriminate].
    + destruct (N.eq_dec c c_star) as [->|Hc].
      * induction t as [|d t IHt].
        -- rewrite glob_star_unfold, orb_false_r in H. apply m_star_skip, IH, H.
        -- rewrite glob_star_unfold in H. apply orb_true_iff in H as [H|H].
           ++ apply m_star_skip, IH, H.
           ++ apply m_star_eat, IHt, H.
      * destruct t as [|d t]; [rewrite glob_char_nil in H by exact Hc; discriminate|].
        rewrite glob_char_cons in H by exact Hc. apply andb_true_iff in H as [E G].
        apply orb_true_iff in E as [E|E]; apply N.eqb_eq in E; subst.
        -- apply m_qmark, IH, G.
        -- apply m_char; [exact Hc|apply IH, G].
  - intros M. induction M as [|p t M IH|p d t M IH|p d t M IH|c p t Hc M IH].
    + reflexivity.
    + rewrite glob_star_unfold, IH. reflexivity.
    + rewrite glob_star_unfold, IH. apply orb_true_r.
    + rewrite glob_char_cons by discriminate. rewrite IH. reflexivity.
    + rewrite glob_char_cons by exact Hc. rewrite IH, N.eqb_refl, orb_true_r. reflexivity.
Qed.
