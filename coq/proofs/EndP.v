(* EndP.v - whole steps that end the sender's own session: a closing event (EOF / reset, invalid
   text, over-long line, pong timeout) or a QUIT line.  The result is the teardown of exactly that
   connection and nothing else. *)
From IRC Require Import Str Wild Glob Mask Parse Reply State Handlers Step.
From IRCP Require Import StrP InvDefs InvPrims InvHandlers InvStep Reach CloseP.
From stdpp Require Import gmap.
Open Scope N_scope.

Local Arguments lit : simpl never.

Section ending.
Context (cfg : config) (verify : str -> str -> bool).

Theorem closing_event_effect w i e c n w' o cl :
  Inv w -> conns w !! i = Some c -> c_auth c = true -> c_nick c = Some n -> closing_event e = true ->
  step cfg verify w i e = Ok (w', o, cl) ->
  exists u, users (sh w) !! n = Some u /\ u_conn u = i /\ cl = [i] /\
    teardown i w = Ok w' /\
    conns w' = delete i (conns w) /\ nconns w' + 1 = nconns w /\
    users (sh w') = delete n (users (sh w)) /\
    wallops (sh w') = wallops (sh w) ∖ {[n]} /\
    histories (sh w') = <[n := default [] (histories (sh w) !! n) ++ [u_hist u]]> (histories (sh w)) /\
    (forall ch, ch ∉ u_chans u -> chans (sh w') !! ch = chans (sh w) !! ch) /\
    (forall ch co, ch ∈ u_chans u -> chans (sh w) !! ch = Some co ->
       exists co', chan_remove_user n co = Ok co' /\ chans (sh w') !! ch = chan_after_leave co').
Proof.
  intros I Hc A Hn He H. pose proof (InvK_of_Inv w I) as K.
  destruct (teardown_registered w i c n K Hc A Hn) as [u [w1 [Hu [Hcu [Htd [K1 [Hcs [Hnc [Hus [Hw [Hh [_ [Hch1 Hch2]]]]]]]]]]]]].
  assert (forall n0 u0, users (sh w1) !! n0 = Some u0 -> u_kill u0 = None) as NK.
  { intros n0 u0 H0. rewrite Hus in H0. destruct (decide (n0 = n)) as [->|Hne]; [now rewrite lookup_delete in H0|].
    rewrite lookup_delete_ne in H0 by congruence. eapply (iw_nk w I); eauto. }
  assert (w' = w1 /\ cl = [i]) as [-> ->].
  { unfold step in H. destruct e; try discriminate He; cbn [step_raw] in H; rewrite Hc, Htd in H; cbn [rbind] in H;
      rewrite (deliver_nil cfg w1 NK) in H; cbn [rbind] in H; injection H as <- _ <-; auto. }
  exists u. repeat split; auto.
Qed.

Theorem quit_effect w i c n l msg w' o cl :
  Inv w -> conns w !! i = Some c -> c_auth c = true -> c_nick c = Some n ->
  tokenize l = inl msg -> command_of_message msg = inl QUIT ->
  step cfg verify w i (EvLine l) = Ok (w', o, cl) ->
  cl = [i] /\ o = [(i, srv cfg (lit "ERROR: Closing connection"))] /\
  users (sh w') = delete n (users (sh w)) /\ conns w' = delete i (conns w).
Proof.
  intros I Hc A Hn Ht Hcmd H. pose proof (InvK_of_Inv w I) as K.
  unfold step in H. cbn [step_raw] in H. rewrite Hc in H. unfold process_line in H. rewrite Ht, Hcmd in H.
  cbn [needs_registration andb dispatch] in H. unfold process_quit in H. cbn [rbind h_quit h_sh h_conn h_out] in H.
  set (wl := {| sh := sh w; conns := <[i := c]> (conns w); nconns := nconns w |}) in *.
  assert (wl = w) as Ewl.
  { unfold wl. destruct w as [s0 cs0 n0]. cbn in *. f_equal. now apply insert_id. }
  rewrite Ewl in H.
  destruct (teardown_registered w i c n K Hc A Hn) as [u [w1 [Hu [Hcu [Htd [K1 [Hcs [Hnc [Hus _]]]]]]]]].
  rewrite Htd in H. cbn [rbind] in H. rewrite deliver_nil in H.
  - cbn [rbind app] in H. injection H as <- <- <-. auto.
  - intros n0 u0 H0. rewrite Hus in H0. destruct (decide (n0 = n)) as [->|Hne]; [now rewrite lookup_delete in H0|].
    rewrite lookup_delete_ne in H0 by congruence. eapply (iw_nk w I); eauto.
Qed.

End ending.
