(* InvisibleP.v - a user with mode +i is not revealed by WHO to a client sharing no channel with it: its entry in
   every WHO answer is empty, and the answer to a wildcard WHO is - up to the order of the 352 lines, which is
   hash-map order in the implementation - the answer in the world where the user is not connected. *)
From IRC Require Import Str Wild Glob Mask Parse Reply State Handlers Step.
From IRCP Require Import StrP InvDefs InvHandlers SecretP.
From stdpp Require Import gmap.
From Coq Require Import Permutation.
Open Scope N_scope.

Local Arguments lit : simpl never.

Section invisible.
Context (cfg : config) (i : nat).

(* the entry of an invisible user in any WHO answer (by nick, by mask, by channel) of a client sharing no channel *)
Theorem who_line_invisible c client channel unick u viewer :
  um_invisible (u_modes u) = true -> sets_disjoint (u_chans u) (u_chans viewer) = true ->
  who_line cfg c client channel unick u viewer = [].
Proof. intros Hi Hd. unfold who_line. now rewrite Hi, Hd. Qed.

(* the world in which the user is not connected (the user table; its channels are not asked for by a wildcard WHO) *)
Definition without_user (n : str) (s : shared) : shared := set_users (delete n) s.

Theorem who_wildcard_hides_invisible s c nick viewer mask n u :
  c_nick c = Some nick -> users s !! nick = Some viewer -> n <> nick -> users s !! n = Some u ->
  um_invisible (u_modes u) = true -> sets_disjoint (u_chans u) (u_chans viewer) = true ->
  contains c_star mask || contains c_qmark mask = true ->
  exists body body', body ≡ₚ body' /\
    outs (process_who cfg i s c mask) = Some (mine cfg i (body ++ [rpl_endofwho (client_name c) mask])) /\
    outs (process_who cfg i (without_user n s) c mask) = Some (mine cfg i (body' ++ [rpl_endofwho (client_name c) mask])).
Proof.
  intros Hn Hv Hne Hu Hi Hd Hw. unfold process_who, own_nick, get_user, without_user. rewrite Hn. cbn [rbind users set_users].
  rewrite lookup_delete_ne by congruence. rewrite Hv. cbn [rbind]. rewrite Hw. cbn [rbind hr outs h_out].
  set (f := fun '(unick, u0) => if wild_match mask unick || wild_match mask (u_source u0) || wild_match mask (u_real u0)
                                then who_line cfg c (client_name c) None unick u0 viewer else []).
  exists (concat (List.map f (map_to_list (users s)))), (concat (List.map f (map_to_list (delete n (users s))))).
  split; [|split; reflexivity].
  rewrite <- !flat_map_concat_map. rewrite <- (Permutation_flat_map f (map_to_list_delete (users s) n u Hu)).
  cbn [flat_map]. unfold f at 1. rewrite (who_line_invisible c (client_name c) None n u viewer Hi Hd).
  destruct (wild_match mask n || wild_match mask (u_source u) || wild_match mask (u_real u)); cbn [app]; reflexivity.
Qed.

(* WHO <nick> for the invisible user itself: the bare 315, as for a nick that is not connected *)
Theorem who_nick_hides_invisible s c nick viewer n u :
  c_nick c = Some nick -> users s !! nick = Some viewer -> n <> nick -> users s !! n = Some u ->
  um_invisible (u_modes u) = true -> sets_disjoint (u_chans u) (u_chans viewer) = true ->
  contains c_star n || contains c_qmark n = false -> validate_channel n = false ->
  outs (process_who cfg i (without_user n s) c n) = outs (process_who cfg i s c n).
Proof.
  intros Hn Hv Hne Hu Hi Hd Hw Hc. unfold process_who, own_nick, get_user, without_user. rewrite Hn. cbn [rbind users set_users].
  rewrite lookup_delete_ne by congruence. rewrite Hv. cbn [rbind]. rewrite Hw, Hc.
  destruct (validate_username n); [|reflexivity]. rewrite lookup_delete, Hu.
  rewrite (who_line_invisible c (client_name c) None n u viewer Hi Hd). reflexivity.
Qed.

End invisible.

(* ---------------------------------------------------------------- NAMES without argument and the secret channel *)
Section names_all.
Context (cfg : config) (i : nat).

Definition names_block (s : shared) (c : conn) (nick : str) (x : str * chan) : list str :=
  match names_lines s c (client_name c) nick x.1 x.2 false with Ok l => l | Panic _ => [] end.

Lemma names_fold_concat s c nick xs : forall acc r,
  rfold (fun acc '(cn, co) => let! l := names_lines s c (client_name c) nick cn co false in Ok (acc ++ l)) xs acc = Ok r ->
  r = acc ++ concat (List.map (names_block s c nick) xs).
Proof.
  induction xs as [|[cn co] xs IH]; intros acc r; cbn [rfold List.map concat].
  - intros [= <-]. now rewrite app_nil_r.
  - unfold names_block at 1. cbn [fst snd]. destruct (names_lines s c (client_name c) nick cn co false) as [l|]; cbn [rbind]; [|discriminate].
    intros H. rewrite (IH _ _ H). now rewrite app_assoc.
Qed.

(* NAMES (all channels) from a client that is not on the secret channel: the same lines - up to the order of the
   channels, which is hash-map order in the implementation - as in the world without the channel *)
Theorem names_all_hides s c nick ch co r r' :
  c_nick c = Some nick -> chans s !! ch = Some co -> cm_secret (ch_modes co) = true -> nick ∉ dom (ch_users co) ->
  process_names cfg i s c [] = Ok r -> process_names cfg i (without ch s) c [] = Ok r' ->
  exists body body', body ≡ₚ body' /\
    h_out r = mine cfg i (body ++ [rpl_endofnames (client_name c) (lit "*")]) /\
    h_out r' = mine cfg i (body' ++ [rpl_endofnames (client_name c) (lit "*")]).
Proof.
  intros Hn Hco Hs Hm. unfold process_names, own_nick. rewrite Hn. cbn [rbind is_empty].
  destruct (rfold _ (map_to_list (chans s)) []) as [ls|] eqn:E; cbn [rbind]; [|discriminate]. intros [= <-].
  unfold without. cbn [chans set_chans].
  match goal with |- context [rfold ?F (map_to_list (delete ch (chans s))) []] =>
    destruct (rfold F (map_to_list (delete ch (chans s))) []) as [ls'|] eqn:E' end; cbn [rbind]; [|discriminate]. intros [= <-].
  cbn [h_out].
  apply names_fold_concat in E. cbn [app] in E.
  assert (ls' = concat (List.map (names_block s c nick) (map_to_list (delete ch (chans s))))) as E2.
  { revert E'. generalize (map_to_list (delete ch (chans s))). intros xs.
    assert (forall acc r0, rfold (fun acc '(cn, co0) => let! l := names_lines (set_chans (delete ch) s) c (client_name c) nick cn co0 false in Ok (acc ++ l)) xs acc = Ok r0 ->
              r0 = acc ++ concat (List.map (names_block s c nick) xs)) as G.
    { induction xs as [|[cn co0] xs IH]; intros acc r0; cbn [rfold List.map concat].
      - intros [= <-]. now rewrite app_nil_r.
      - unfold names_block at 1. cbn [fst snd].
        change (names_lines (set_chans (delete ch) s) c (client_name c) nick cn co0 false) with (names_lines s c (client_name c) nick cn co0 false).
        destruct (names_lines s c (client_name c) nick cn co0 false) as [l|]; cbn [rbind]; [|discriminate].
        intros H. rewrite (IH _ _ H). now rewrite app_assoc. }
    intros H. apply G in H. exact H. }
  exists ls, ls'. split; [|split; reflexivity]. subst ls ls'.
  rewrite <- !flat_map_concat_map. rewrite <- (Permutation_flat_map (names_block s c nick) (map_to_list_delete (chans s) ch co Hco)).
  cbn [flat_map]. unfold names_block at 1. cbn [fst snd]. rewrite (names_secret_outsider s c (client_name c) nick ch co false Hs Hm). reflexivity.
Qed.

End names_all.
