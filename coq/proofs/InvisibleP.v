(* InvisibleP.v - a user with mode +i is not revealed by WHO to a client sharing no channel with it: its entry in
   every WHO answer is empty, and the answer to a wildcard WHO is - up to the order of the 352 lines, which is
   hash-map order in the implementation - the answer in the world where the user is not connected. *)
From IRC Require Import Str Wild Glob Mask Parse Reply State Handlers Step.
From IRCP Require Import StrP InvDefs InvHandlers SecretP.
From stdpp Require Import gmap.
From Coq Require Import Permutation.
Open Scope N_scope.

Local Arguments lit : simpl never.

Section invisible.
Context (cfg : config) (i : nat).

(* the entry of an invisible user in any WHO answer (by nick, by mask, by channel) of a client sharing no channel *)
Theorem who_line_invisible c client channel unick u viewer :
  um_invisible (u_modes u) = true -> sets_disjoint (u_chans u) (u_chans viewer) = true ->
  who_line cfg c client channel unick u viewer = [].
Proof. intros Hi Hd. unfold who_line. now rewrite Hi, Hd. Qed.

(* the world in which the user is not connected (the user table; its channels are not asked for by a wildcard WHO) *)
Definition without_user (n : str) (s : shared) : shared := set_users (delete n) s.

Theorem who_wildcard_hides_invisible s c nick viewer mask n u :
  c_nick c = Some nick -> users s !! nick = Some viewer -> n <> nick -> users s !! n = Some u ->
  um_invisible (u_modes u) = true -> sets_disjoint (u_chans u) (u_chans viewer) = true ->
  contains c_star mask || contains c_qmark mask = true ->
  exists body body', body ≡ₚ body' /\
    outs (process_who cfg i s c mask) = Some (mine cfg i (body ++ [rpl_endofwho (client_name c) mask])) /\
    outs (process_who cfg i (without_user n s) c mask) = Some (mine cfg i (body' ++ [rpl_endofwho (client_name c) mask])).
Proof.
  intros Hn Hv Hne Hu Hi Hd Hw. unfold process_who, own_nick, get_user, without_user. rewrite Hn. cbn [rbind users set_users].
  rewrite lookup_delete_ne by congruence. rewrite Hv. cbn [rbind]. rewrite Hw. cbn [rbind hr outs h_out].
  set (f := fun '(unick, u0) => if wild_match mask unick || wild_match mask (u_source u0) || wild_match mask (u_real u0)
                                then who_line cfg c (client_name c) None unick u0 viewer else []).
  exists (concat (List.map f (map_to_list (users s)))), (concat (List.map f (map_to_list (delete n (users s))))).
  split; [|split; reflexivity].
  rewrite <- !flat_map_concat_map. rewrite <- (Permutation_flat_map f (map_to_list_delete (users s) n u Hu)).
  cbn [flat_map]. unfold f at 1. rewrite (who_line_invisible c (client_name c) None n u viewer Hi Hd).
  destruct (wild_match mask n || wild_match mask (u_source u) || wild_match mask (u_real u)); cbn [app]; reflexivity.
Qed.

(* WHO <nick> for the invisible user itself: the bare 315, as for a nick that is not connected *)
Theorem who_nick_hides_invisible s c nick viewer n u :
  c_nick c = Some nick -> users s !! nick = Some viewer -> n <> nick -> users s !! n = Some u ->
  um_invisible (u_modes u) = true -> sets_disjoint (u_chans u) (u_chans viewer) = true ->
  contains c_star n || contains c_qmark n = false -> validate_channel n = false ->
  outs (process_who cfg i (without_user n s) c n) = outs (process_who cfg i s c n).
Proof.
  intros Hn Hv Hne Hu Hi Hd Hw Hc. unfold process_who, own_nick, get_user, without_user. rewrite Hn. cbn [rbind users set_users].
  rewrite lookup_delete_ne by congruence. rewrite Hv. cbn [rbind]. rewrite Hw, Hc.
  destruct (validate_username n); [|reflexivity]. rewrite lookup_delete, Hu.
  rewrite (who_line_invisible c (client_name c) None n u viewer Hi Hd). reflexivity.
Qed.

End invisible.

(* ---------------------------------------------------------------- NAMES without argument and the secret channel *)
Section names_all.
Context (cfg : config) (i : nat).

Definition names_block (s : shared) (c : conn) (nick : str) (x : str * chan) : list str :=
  match names_lines s c (client_name c) nick x.1 x.2 false with Ok l => l | Panic _ => [] end.

Lemma names_fold_concat s c nick xs : forall acc r,
  rfold (fun acc '(cn, co) => let! l := names_lines s c (client_name c) nick cn co false in Ok (acc ++ l)) xs acc = Ok r ->
  r = acc ++ concat (List.map (names_block s c nick) xs).
Proof.
  induction xs as [|[cn co] xs IH]; intros acc r; cbn [rfold List.map concat].
  - intros [= <-]. now rewrite app_nil_r.
  - unfold names_block at 1. cbn [fst snd]. destruct (names_lines s c (client_name c) nick cn co false) as [l|]; cbn [rbind]; [|discriminate].
    intros H. rewrite (IH _ _ H). now rewrite app_assoc.
Qed.

(* NAMES (all channels) from a client that is not on the secret channel: the same lines - up to the order of the
   channels, which is hash-map order in the implementation - as in the world without the channel *)
Theorem names_all_hides s c nick ch co r r' :
  c_nick c = Some nick -> chans s !! ch = Some co -> cm_secret (ch_modes co) = true -> nick ∉ dom (ch_users co) ->
  process_names cfg i s c [] = Ok r -> process_names cfg i (without ch s) c [] = Ok r' ->
  exists body body', body ≡ₚ body' /\
    h_out r = mine cfg i (body ++ [rpl_endofnames (client_name c) (lit "*")]) /\
    h_out r' = mine cfg i (body' ++ [rpl_endofnames (client_name c) (lit "*")]).
Proof.
  intros Hn Hco Hs Hm. unfold process_names, own_nick. rewrite Hn. cbn [rbind is_empty].
  destruct (rfold _ (map_to_list (chans s)) []) as [ls|] eqn:E; cbn [rbind]; [|discriminate]. intros [= <-].
  unfold without. cbn [chans set_chans].
  match goal with |- context [rfold ?F (map_to_list (delete ch (chans s))) []] =>
    destruct (rfold F (map_to_list (delete ch (chans s))) []) as [ls'|] eqn:E' end; cbn [rbind]; [|discriminate]. intros [= <-].
  cbn [h_out].
  apply names_fold_concat in E. cbn [app] in E.
  assert (ls' = concat (List.map (names_block s c nick) (map_to_list (delete ch (chans s))))) as E2.
  { revert E'. generalize (map_to_list (delete ch (chans s))). intros xs.
    assert (forall acc r0, rfold (fun acc '(cn, co0) => let! l := names_lines (set_chans (delete ch) s) c (client_name c) nick cn co0 false in Ok (acc ++ l)) xs acc = Ok r0 ->
              r0 = acc ++ concat (List.map (names_block s c nick) xs)) as G.
    { induction xs as [|[cn co0] xs IH]; intros acc r0; cbn [rfold List.map concat].
      - intros [= <-]. now rewrite app_nil_r.
      - unfold names_block at 1. cbn [fst snd].
        change (names_lines (set_chans (delete ch) s) c (client_name c) nick cn co0 false) with (names_lines s c (client_name c) nick cn co0 false).
        destruct (names_lines s c (client_name c) nick cn co0 false) as [l|]; cbn [rbind]; [|discriminate].
        intros H. rewrite (IH _ _ H). now rewrite app_assoc. }
    intros H. apply G in H. exact H. }
  exists ls, ls'. split; [|split; reflexivity]. subst ls ls'.
  rewrite <- !flat_map_concat_map. rewrite <- (Permutation_flat_map (names_block s c nick) (map_to_list_delete (chans s) ch co Hco)).
  cbn [flat_map]. unfold names_block at 1. cbn [fst snd]. rewrite (names_secret_outsider s c (client_name c) nick ch co false Hs Hm). reflexivity.
Qed.

End names_all.

(* ---------------------------------------------------------------- WHOIS and the invisible user *)
Section whois_invisible.
Context (cfg : config) (i : nat).

Definition whois_block (s : shared) (c : conn) (viewer : user) (n : str) : list str :=
  match whois_one cfg s c (client_name c) viewer n with Ok l => l | Panic _ => [] end.

Lemma whois_fold_concat s c viewer xs : forall acc r,
  rfold (fun acc n => let! l := whois_one cfg s c (client_name c) viewer n in Ok (acc ++ l)) xs acc = Ok r ->
  r = acc ++ concat (List.map (whois_block s c viewer) xs).
Proof.
  induction xs as [|n xs IH]; intros acc r; cbn [rfold List.map concat].
  - intros [= <-]. now rewrite app_nil_r.
  - unfold whois_block at 1. destruct (whois_one cfg s c (client_name c) viewer n) as [l|]; cbn [rbind]; [|discriminate].
    intros H. rewrite (IH _ _ H). now rewrite app_assoc.
Qed.

Lemma whois_one_other s c client viewer n m : m <> n ->
  whois_one cfg (without_user n s) c client viewer m = whois_one cfg s c client viewer m.
Proof.
  intros Hne. unfold whois_one, get_user, without_user. cbn [users set_users]. rewrite lookup_delete_ne by congruence. reflexivity.
Qed.

(* the set of users a WHOIS answers for, as a predicate *)
Definition whois_targets (us : gmap str user) (masks : list str) : gset str :=
  let is_wild (m : str) := contains c_star m || contains c_qmark m in
  let wilds := List.filter is_wild masks in
  (list_to_set (List.filter (fun m => negb (is_wild m) && is_Some_b (us !! m)) masks) : gset str)
  ∪ (if is_empty wilds then ∅ else
     list_to_set (List.filter (fun n => existsb (fun m => wild_match m n) wilds) (List.map fst (map_to_list us)))).

Lemma whois_targets_delete us masks n : whois_targets (delete n us) masks = whois_targets us masks ∖ {[n]}.
Proof.
  unfold whois_targets. apply leibniz_equiv. intros x.
  rewrite elem_of_difference, !elem_of_union, not_elem_of_singleton.
  assert (forall (m : gmap str user), x ∈ List.map fst (map_to_list m) <-> is_Some (m !! x)) as Hdom.
  { intros m. rewrite elem_of_list_In, in_map_iff. split.
    - intros [[k v] [<- Hin]]. apply elem_of_list_In, elem_of_map_to_list in Hin. cbn. eauto.
    - intros [v Hv]. exists (x, v). split; [reflexivity|]. apply elem_of_list_In, elem_of_map_to_list. exact Hv. }
  assert (forall (m : gmap str user), is_Some_b (m !! x) = true <-> is_Some (m !! x)) as Hb.
  { intros m. destruct (m !! x); cbn; split; intros H; eauto; try discriminate. destruct H; discriminate. }
  destruct (is_empty (List.filter _ masks)).
  - rewrite !elem_of_list_to_set, !elem_of_list_In, !filter_In, !andb_true_iff, !Hb. rewrite !elem_of_empty.
    destruct (decide (x = n)) as [->|Hne].
    + rewrite lookup_delete. split; [intros [[_ [_ [v Hv]]]|[]]; discriminate|intros [_ Hn]; congruence].
    + rewrite lookup_delete_ne by congruence. tauto.
  - rewrite !elem_of_list_to_set, !elem_of_list_In, !filter_In, !andb_true_iff, !Hb, <- !elem_of_list_In, !Hdom.
    destruct (decide (x = n)) as [->|Hne].
    + rewrite lookup_delete. split; [intros [[_ [_ [v Hv]]]|[[v Hv] _]]; discriminate|intros [_ Hn]; congruence].
    + rewrite lookup_delete_ne by congruence. tauto.
Qed.

(* WHOIS - explicit nicks, comma lists, wildcard masks - from a client sharing no channel with the invisible user: the same
   lines, up to the order of the answered users, as in the world where the user is not connected *)
Theorem whois_hides_invisible s c nick viewer masks n u r r' :
  c_nick c = Some nick -> users s !! nick = Some viewer -> n <> nick -> users s !! n = Some u ->
  um_invisible (u_modes u) = true -> sets_disjoint (u_chans u) (u_chans viewer) = true ->
  process_whois cfg i s c None masks = Ok r -> process_whois cfg i (without_user n s) c None masks = Ok r' ->
  exists body body', body ≡ₚ body' /\
    h_out r = mine cfg i (body ++ [rpl_endofwhois (client_name c) (Str.join [c_comma] masks)]) /\
    h_out r' = mine cfg i (body' ++ [rpl_endofwhois (client_name c) (Str.join [c_comma] masks)]).
Proof.
  intros Hn Hv Hne Hu Hi Hd. unfold process_whois, own_nick, get_user. rewrite Hn. cbn [rbind].
  unfold without_user at 1. cbn [users set_users]. rewrite lookup_delete_ne by congruence. rewrite Hv. cbn [rbind].
  fold (whois_targets (users s) masks). 
  change (users (without_user n s)) with (delete n (users s)). fold (whois_targets (delete n (users s)) masks).
  rewrite whois_targets_delete.
  destruct (rfold _ (elements (whois_targets (users s) masks)) []) as [b1|] eqn:E1; cbn [rbind]; [|discriminate]. intros [= <-].
  destruct (rfold _ (elements (whois_targets (users s) masks ∖ {[n]})) []) as [b2|] eqn:E2; cbn [rbind]; [|discriminate]. intros [= <-].
  cbn [h_out]. exists b1, b2. split; [|split; reflexivity].
  apply whois_fold_concat in E1. cbn [app] in E1.
  assert (b2 = concat (List.map (whois_block s c viewer) (elements (whois_targets (users s) masks ∖ {[n]})))) as E2'.
  { assert (forall xs acc r0, Forall (fun m => m <> n) xs ->
              rfold (fun acc m => let! l := whois_one cfg (without_user n s) c (client_name c) viewer m in Ok (acc ++ l)) xs acc = Ok r0 ->
              r0 = acc ++ concat (List.map (whois_block s c viewer) xs)) as G.
    { induction xs as [|m xs IH]; intros acc r0 Hall; cbn [rfold List.map concat].
      - intros [= <-]. now rewrite app_nil_r.
      - inversion Hall as [|? ? Hm Hxs]; subst. rewrite (whois_one_other s c (client_name c) viewer n m Hm).
        unfold whois_block at 1. destruct (whois_one cfg s c (client_name c) viewer m) as [l|]; cbn [rbind]; [|discriminate].
        intros H. rewrite (IH _ _ Hxs H). now rewrite app_assoc. }
    apply (G _ [] b2); [|exact E2]. apply Forall_forall. intros m Hm. apply elem_of_elements in Hm. set_solver. }
  subst b1 b2. set (X := whois_targets (users s) masks).
  destruct (decide (n ∈ X)) as [Hin|Hnin].
  - assert (elements X ≡ₚ n :: elements (X ∖ {[n]})) as P.
    { rewrite <- (elements_union_singleton (X ∖ {[n]}) n) by set_solver.
      apply elements_proper. apply set_equiv. intros y. destruct (decide (y = n)); set_solver. }
    rewrite <- !flat_map_concat_map. rewrite (Permutation_flat_map (whois_block s c viewer) P). cbn [flat_map].
    unfold whois_block at 1.
    assert (whois_one cfg s c (client_name c) viewer n = Ok []) as ->; [|reflexivity].
    unfold whois_one, get_user. rewrite Hu. cbn [rbind]. now rewrite Hi, Hd.
  - assert (X ∖ {[n]} = X) as -> by (apply leibniz_equiv; set_solver). reflexivity.
Qed.

End whois_invisible.
