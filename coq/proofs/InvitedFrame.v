(* InvitedFrame.v - pending invitations: the set of a user record changes only through an INVITE naming that user
   (it gains the channel) and through the user's own JOIN (it only shrinks); no other command touches it. *)
From IRC Require Import Str Wild Glob Mask Parse Reply State Handlers Step.
From IRCP Require Import StrP ChanP InvDefs InvPrims InvNick InvHandlers InvStep Reach NickP OperP ModesFrame MembersFrame.
From stdpp Require Import gmap.
Open Scope N_scope.

Local Arguments lit : simpl never.

Definition ichg (P : mrel) (s s' : shared) : Prop :=
  forall n u', users s' !! n = Some u' ->
    exists u, users s !! n = Some u /\ u_conn u' = u_conn u /\ P n (u_invited u) (u_invited u').

(* INVITE nickname ch: that user's set gains the channel *)
Definition minv (nickname ch : str) : mrel := fun n a b => b = a \/ (n = nickname /\ b = {[ch]} ∪ a).
Lemma minv_refl nickname ch : mrefl (minv nickname ch). Proof. intros n a. now left. Qed.

Lemma ichg_refl P s : mrefl P -> ichg P s s.
Proof. intros R n u H. exists u. auto. Qed.

Lemma ichg_trans P s1 s2 s3 : mtrans P -> ichg P s1 s2 -> ichg P s2 s3 -> ichg P s1 s3.
Proof.
  intros T A B n u3 H3. destruct (B n u3 H3) as [u2 [H2 [C2 P2]]]. destruct (A n u2 H2) as [u1 [H1 [C1 P1]]].
  exists u1. split; [exact H1|]. split; [congruence|]. eapply T; eauto.
Qed.

Lemma ichg_users_eq P s s' : mrefl P -> users s' = users s -> ichg P s s'.
Proof. intros R E n u H. rewrite E in H. exists u. auto. Qed.

Lemma ichg_insert P s s' n u u' : mrefl P ->
  users s' = <[n := u']> (users s) -> users s !! n = Some u -> u_conn u' = u_conn u -> P n (u_invited u) (u_invited u') ->
  ichg P s s'.
Proof.
  intros R E Hu Hc Hp n0 u0 H. rewrite E in H. destruct (decide (n0 = n)) as [->|Hne].
  - rewrite lookup_insert in H. injection H as <-. eauto.
  - rewrite lookup_insert_ne in H by congruence. exists u0. auto.
Qed.

Lemma rfold_ichg {A} P (f : shared -> A -> res shared) l : mrefl P -> mtrans P ->
  (forall s x s', f s x = Ok s' -> ichg P s s') -> forall s s', rfold f l s = Ok s' -> ichg P s s'.
Proof.
  intros R T Hf. induction l as [|x l IH]; intros s s'; cbn [rfold].
  - intros [= <-]. now apply ichg_refl.
  - destruct (f s x) as [s1|] eqn:E; cbn [rbind]; [|discriminate]. intros H.
    eapply ichg_trans; [exact T|eapply Hf; eauto|eapply IH; eauto].
Qed.

(* leaving a channel does not touch anybody's invitations *)
Lemma remove_from_channel_ichg P ch nick s s' : mrefl P ->
  st_remove_user_from_channel ch nick s = Ok s' -> ichg P s s'.
Proof.
  intros R. unfold st_remove_user_from_channel.
  assert (forall s1, users s1 = users s ->
            match users s1 !! nick with
            | Some u => Ok (set_users (fun us => <[nick := u_set_chans (fun cs => cs ∖ {[ch]}) u]> us) s1)
            | None => Ok s1
            end = Ok s' -> ichg P s s') as K.
  { intros s1 E. destruct (users s1 !! nick) as [u|] eqn:Hu; intros [= <-].
    - eapply (ichg_insert P s _ nick u); cbn; [exact R|now rewrite E|now rewrite <- E|destruct u; reflexivity|destruct u; cbn; apply R].
    - now apply ichg_users_eq. }
  destruct (chans s !! ch) as [co|]; cbn [rbind]; [|now apply K].
  destruct (chan_remove_user nick co) as [co'|]; cbn [rbind]; [|discriminate].
  destruct (_ && _); cbn [rbind]; apply K; reflexivity.
Qed.

Lemma join_insert_ichg nick s x s' : join_insert nick s x = Ok s' -> ichg (mshrink nick) s s'.
Proof.
  destruct x as [ch [j cr]]. unfold join_insert. destruct (negb j); [intros [= <-]; apply ichg_refl, mshrink_refl|].
  unfold get_user. destruct (users s !! nick) as [u|] eqn:Hu; cbn [rbind]; [|discriminate].
  assert (mshrink nick nick (u_invited u) (u_invited u ∖ {[ch]})) as G.
  { unfold mshrink. destruct (decide (nick = nick)); [set_solver|congruence]. }
  destruct cr.
  - intros [= <-]. eapply (ichg_insert _ s _ nick u); cbn; [apply mshrink_refl|reflexivity|exact Hu|destruct u; reflexivity|destruct u; exact G].
  - unfold get_chan. cbn [chans set_users]. destruct (chans s !! ch); cbn [rbind]; [|discriminate].
    intros [= <-]. eapply (ichg_insert _ s _ nick u); cbn; [apply mshrink_refl|reflexivity|exact Hu|destruct u; reflexivity|destruct u; exact G].
Qed.

Section frame.
Context (cfg : config) (verify : str -> str -> bool) (i : nat).

Ltac same H := injection H as <-; cbn [h_sh]; apply ichg_refl; first [apply meq_refl|apply mgrow_refl|apply mshrink_refl|apply mkick_refl].

(* JOIN: only the sender's record, and its pending invitations only shrink *)
Lemma join_ichg s c chs keys r nick : own_nick c = Ok nick ->
  process_join cfg i s c chs keys = Ok r -> ichg (mshrink nick) s (h_sh r).
Proof.
  intros Ho. unfold process_join. rewrite Ho. cbn [rbind].
  destruct (get_user s nick) as [u|]; cbn [rbind]; [|discriminate].
  destruct (join_phase1 _ _ _ _ _ _ _ _ _ _ _) as [[[plan o1] q]|]; cbn [rbind]; [|discriminate].
  destruct (rfold (join_insert nick) plan s) as [s'|] eqn:E; cbn [rbind]; [|discriminate].
  match goal with |- context [rfold ?G plan []] => destruct (rfold G plan []) as [o2|] end; cbn [rbind]; [|discriminate].
  intros [= <-]. cbn [h_sh]. eapply rfold_ichg; [apply mshrink_refl|apply mshrink_trans| |exact E].
  intros; eapply join_insert_ichg; eauto.
Qed.

Lemma part_ichg s c chs reason r : process_part cfg i s c chs reason = Ok r -> ichg meq s (h_sh r).
Proof.
  unfold process_part. destruct (own_nick c) as [nick|]; cbn [rbind]; [|discriminate].
  match goal with |- context [rfold ?F chs (s, [])] => set (F0 := F) end.
  assert (forall l s0 o0 s1 o1, rfold F0 l (s0, o0) = Ok (s1, o1) -> ichg meq s0 s1) as G.
  { induction l as [|ch l IH]; intros s0 o0 s1 o1; cbn [rfold]; [intros [= <- _]; apply ichg_refl, meq_refl|].
    unfold F0 at 1. destruct (chans s0 !! ch) as [co|]; [|cbn [rbind]; apply IH].
    destruct (bool_decide _); [|cbn [rbind]; apply IH].
    destruct (send_all _ _ _); cbn [rbind]; [|discriminate].
    destruct (st_remove_user_from_channel ch nick s0) as [s2|] eqn:E; cbn [rbind]; [|discriminate].
    intros H. eapply ichg_trans; [apply meq_trans| |eapply IH; eauto].
    eapply remove_from_channel_ichg; [apply meq_refl|exact E]. }
  destruct (rfold F0 chs (s, [])) as [[s' o]|] eqn:E; cbn [rbind]; [|discriminate].
  destruct (get_user s' nick); cbn [rbind]; [|discriminate]. intros [= <-]. cbn [h_sh]. eapply G; eauto.
Qed.

Lemma kick_ichg s c ch victims comment r : process_kick cfg i s c ch victims comment = Ok r -> ichg meq s (h_sh r).
Proof.
  unfold process_kick. destruct (own_nick c) as [nick|]; cbn [rbind]; [|discriminate].
  destruct (kick_decide s nick (client_name c) ch victims) as [kicked o1].
  destruct (rfold (fun s v => st_remove_user_from_channel ch v s) kicked s) as [s'|] eqn:E; cbn [rbind]; [|discriminate].
  match goal with |- context [rfold ?G kicked []] => destruct (rfold G kicked []) end; cbn [rbind]; [|discriminate]. intros [= <-]. cbn [h_sh].
  eapply rfold_ichg; [apply meq_refl|apply meq_trans| |exact E].
  intros s0 x s1 H; cbn beta in H. eapply remove_from_channel_ichg; [apply meq_refl|exact H].
Qed.

Lemma topic_ichg s c ch topic msg r : process_topic cfg i s c ch topic msg = Ok r -> ichg meq s (h_sh r).
Proof.
  unfold process_topic. destruct (own_nick c) as [nick|]; cbn [rbind]; [|discriminate].
  destruct topic as [t|].
  - destruct (chans s !! ch) as [co|]; [|intros H; same H].
    destruct (ch_users co !! nick) as [rk|]; [|intros H; same H].
    destruct (topic_allowed co rk); [|intros H; same H].
    destruct (send_all _ _ _); cbn [rbind]; [|discriminate]. intros [= <-]. cbn [h_sh]. now apply ichg_users_eq; [apply meq_refl|].
  - destruct (chans s !! ch) as [co|]; [|intros H; same H].
    destruct (bool_decide _); [|intros H; same H]. destruct (ch_topic co) as [[t w]|]; intros H; same H.
Qed.

Lemma invite_ichg s c nickname ch msg r : process_invite cfg i s c nickname ch msg = Ok r -> ichg (minv nickname ch) s (h_sh r).
Proof.
  unfold process_invite. destruct (own_nick c) as [nick|]; cbn [rbind]; [|discriminate].
  destruct (chans s !! ch) as [co|]; [|intros [= <-]; apply ichg_refl, minv_refl].
  destruct (ch_users co !! nick) as [rk|]; [|intros [= <-]; apply ichg_refl, minv_refl].
  destruct (_ && _); [intros [= <-]; apply ichg_refl, minv_refl|]. destruct (bool_decide _); [intros [= <-]; apply ichg_refl, minv_refl|].
  destruct (users s !! nickname) as [inv|] eqn:Hu; [|intros [= <-]; apply ichg_refl, minv_refl].
  intros [= <-]. cbn [h_sh]. eapply (ichg_insert _ s _ nickname inv); cbn; [apply minv_refl|reflexivity|exact Hu|destruct inv; reflexivity|].
  destruct inv; cbn. right. auto.
Qed.

Lemma mode_channel_ichg s c target nick co rk modes r :
  process_mode_channel cfg i s c target nick co rk modes = Ok r -> ichg meq s (h_sh r).
Proof.
  unfold process_mode_channel. destruct (is_empty modes); [intros H; same H|].
  match goal with |- context [rfold ?G modes ?m0] => destruct (rfold G modes m0) as [m|] end; cbn [rbind]; [|discriminate].
  destruct (match mode_announcement target m with Some _ => _ | None => _ end); cbn [rbind]; [|discriminate].
  intros [= <-]. cbn [h_sh]. now apply ichg_users_eq; [apply meq_refl|].
Qed.

Lemma kill_ichg s c nickname comment r : process_kill cfg i s c nickname comment = Ok r -> ichg meq s (h_sh r).
Proof.
  unfold process_kill. destruct (own_nick c) as [nick|]; cbn [rbind]; [|discriminate].
  destruct (get_user s nick) as [u|]; cbn [rbind]; [|discriminate].
  destruct (um_oper (u_modes u)); [|intros H; same H].
  destruct (users s !! nickname) as [v|] eqn:Hv; [|intros H; same H].
  destruct (u_kill v); [intros H; same H|].
  intros [= <-]. cbn [h_sh]. eapply (ichg_insert _ s _ nickname v); cbn; [apply meq_refl|reflexivity|exact Hv|destruct v; reflexivity|destruct v; reflexivity].
Qed.

Lemma die_ichg s c message r : process_die cfg i s c message = Ok r -> ichg meq s (h_sh r).
Proof.
  unfold process_die. destruct (own_nick c) as [nick|]; cbn [rbind]; [|discriminate].
  destruct (get_user s nick) as [u|]; cbn [rbind]; [|discriminate].
  destruct (um_oper (u_modes u)); [|intros H; same H].
  intros [= <-]. cbn [h_sh]. intros n u' H. cbn in H. rewrite lookup_fmap in H.
  destruct (users s !! n) as [v|] eqn:Hv; [|discriminate]. cbn in H. injection H as <-.
  exists v. split; [reflexivity|]. unfold meq. destruct (u_kill v); [auto|]. destruct v; auto.
Qed.

Lemma away_ichg s c text r : process_away cfg i s c text = Ok r -> ichg meq s (h_sh r).
Proof.
  unfold process_away. destruct (own_nick c) as [nick|]; cbn [rbind]; [|discriminate].
  unfold get_user. destruct (users s !! nick) as [u|] eqn:Hu; cbn [rbind]; [|discriminate].
  intros [= <-]. cbn [h_sh]. eapply (ichg_insert _ s _ nick u); cbn; [apply meq_refl|reflexivity|exact Hu|destruct u; reflexivity|destruct u; reflexivity].
Qed.

(* what one command of a registered connection may do to the pending invitations *)
Inductive invited_effect (nick : str) : command -> mrel -> Prop :=
| ie_join chs keys : invited_effect nick (JOIN chs keys) (mshrink nick)
| ie_invite nickname ch : invited_effect nick (INVITE nickname ch) (minv nickname ch)
| ie_other cmd : (forall chs keys, cmd <> JOIN chs keys) -> (forall nickname ch, cmd <> INVITE nickname ch) ->
                 (forall n, cmd <> NICK n) -> invited_effect nick cmd meq.

Theorem dispatch_invited s c cmd msg r nick :
  InvS s -> conn_ok i s c -> c_auth c = true -> c_nick c = Some nick ->
  dispatch cfg verify i s c cmd msg = Ok r -> (forall n, cmd <> NICK n) ->
  exists P, invited_effect nick cmd P /\ ichg P s (h_sh r).
Proof.
  intros I C A Hnick H Hnn.
  destruct (own_user i s c C A) as [nick0 [u [Hn [Hu [Hc [Ho Hg]]]]]].
  assert (nick0 = nick) as -> by congruence.
  assert (forall cmd0, (forall chs keys, cmd0 <> JOIN chs keys) -> (forall nickname ch, cmd0 <> INVITE nickname ch) -> (forall n, cmd0 <> NICK n) ->
            ichg meq s (h_sh r) -> exists P, invited_effect nick cmd0 P /\ ichg P s (h_sh r)) as Other.
  { intros cmd0 N1 N2 N3 M. exists meq. split; [now apply ie_other|exact M]. }
  assert (forall r0, same_result s c r0 -> ichg meq s (h_sh r0)) as Same.
  { intros r0 [E _]. rewrite E. apply ichg_refl, meq_refl. }
  assert (forall (P : res hres), (exists r0, P = Ok r0 /\ same_result s c r0) -> P = Ok r -> ichg meq s (h_sh r)) as S2.
  { intros P [r0 [-> Hs]] [= <-]. now apply Same. }
  assert (forall o, Ok {| h_sh := s; h_conn := c; h_out := o; h_quit := false |} = Ok r -> ichg meq s (h_sh r)) as S3.
  { intros o [= <-]. apply ichg_refl, meq_refl. }
  destruct cmd; cbn [dispatch] in H;
    try (apply Other; [intros; discriminate|intros; discriminate|intros; discriminate|]).
  - (* CAP *) unfold process_cap in H. destruct sub.
    + injection H as <-. apply ichg_refl, meq_refl.
    + injection H as <-. apply ichg_refl, meq_refl.
    + destruct caps as [cs|]; [destruct (forallb _ cs)|]; injection H as <-; apply ichg_refl, meq_refl.
    + rewrite A in H. injection H as <-. apply ichg_refl, meq_refl.
  - injection H as <-. apply ichg_refl, meq_refl.
  - unfold process_pass in H. rewrite A in H. injection H as <-. apply ichg_refl, meq_refl.
  - exfalso. eapply Hnn. reflexivity.
  - unfold process_user in H. rewrite A in H. injection H as <-. apply ichg_refl, meq_refl.
  - injection H as <-. apply ichg_refl, meq_refl.
  - injection H as <-. apply ichg_refl, meq_refl.
  - (* OPER *)
    destruct (oper_spec cfg verify i s c name password nick u Hn Hu) as [r0 [Hr [_ [_ Hacc]]]].
    rewrite Hr in H. injection H as <-. destruct (oper_accepted cfg verify c name password).
    + destruct Hacc as [Hus _]. eapply (ichg_insert _ s _ nick u); [apply meq_refl|exact Hus|exact Hu|destruct u; reflexivity|destruct u; reflexivity].
    + destruct Hacc as [E _]. rewrite E. apply ichg_refl, meq_refl.
  - (* QUIT *) injection H as <-. apply ichg_refl, meq_refl.
  - exists (mshrink nick). split; [constructor|]. eapply join_ichg; eauto.
  - eapply part_ichg; eauto.
  - eapply topic_ichg; eauto.
  - eapply S2; [|exact H]. now apply process_names_ok.
  - unfold process_list in H. destruct server; eapply S3; exact H.
  - exists (minv nickname channel). split; [constructor|]. eapply invite_ichg; eauto.
  - eapply kick_ichg; eauto.
  - unfold process_motd in H. destruct target; eapply S3; exact H.
  - unfold process_version in H. destruct target; eapply S3; exact H.
  - unfold process_admin in H. destruct target; eapply S3; exact H.
  - eapply S3; exact H.
  - unfold process_lusers in H. destruct (lusers_lines s (client_name c)); cbn [rbind] in H; [|discriminate]. eapply S3; exact H.
  - unfold process_time in H. destruct server; eapply S3; exact H.
  - unfold process_stats in H. destruct server; [eapply S3; exact H|].
    rewrite Ho in H. cbn [rbind] in H. rewrite Hg in H. cbn [rbind] in H. destruct (is_local_oper _); eapply S3; exact H.
  - unfold process_links in H. destruct remote_server, server_mask; eapply S3; exact H.
  - unfold process_help in H. destruct (help_topic _); eapply S3; exact H.
  - eapply S3; exact H.
  - (* MODE *)
    unfold process_mode in H. rewrite Ho in H. cbn [rbind] in H. destruct (validate_channel target).
    + destruct (chans s !! target) as [co|]; [|eapply S3; exact H].
      destruct (ch_users co !! nick) as [rk|]; [|eapply S3; exact H].
      eapply mode_channel_ichg; eauto.
    + destruct (bool_decide (nick = target)).
      * destruct (mode_user_no_grant cfg i s c nick modes r u Hu H) as [m' [Hus _]].
        eapply (ichg_insert _ s _ nick u); [apply meq_refl|exact Hus|exact Hu|destruct u; reflexivity|destruct u; reflexivity].
      * destruct (users s !! target); eapply S3; exact H.
  - eapply S2; [|exact H]. now apply process_privmsg_ok.
  - eapply S2; [|exact H]. now apply process_privmsg_ok.
  - eapply S2; [|exact H]. now apply process_who_ok.
  - eapply S2; [|exact H]. now apply process_whois_ok.
  - unfold process_whowas in H. destruct server; eapply S3; exact H.
  - eapply kill_ichg; eauto.
  - eapply S3; exact H.
  - eapply S3; exact H.
  - unfold process_squit in H. destruct (bool_decide _); [eapply die_ichg; eauto|eapply S3; exact H].
  - eapply away_ichg; eauto.
  - eapply S3; exact H.
  - eapply S2; [|exact H]. now apply process_wallops_ok.
  - eapply S3; exact H.
  - eapply die_ichg; eauto.
Qed.

End frame.
