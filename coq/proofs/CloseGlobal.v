(* CloseGlobal.v - every way a session ends leaves no trace in the live state, as one statement over every event: a connection
   that is closed by a step - the sender of QUIT, of an over-long or ill-encoded line, a peer that closed or timed out, a refused
   connection, the victim of an operator's KILL, everybody at DIE - has no connection record afterwards, owns no user, and nobody
   it owned is left on any channel's roster or rank list. *)
From IRC Require Import Str Wild Glob Mask Parse Reply State Handlers Step.
From IRCP Require Import StrP InvDefs InvPrims InvNick InvHandlers InvStep Reach.
From stdpp Require Import gmap.
Open Scope N_scope.

Local Arguments lit : simpl never.

Section global.
Context (cfg : config) (verify : str -> str -> bool).

Theorem closed_leaves_nothing w i e w' o cl j : Inv w -> step cfg verify w i e = Ok (w', o, cl) -> j ∈ cl ->
  conns w' !! j = None /\
  (forall n u, users (sh w') !! n = Some u -> u_conn u <> j) /\
  (forall ch co n, chans (sh w') !! ch = Some co -> n ∈ dom (ch_users co) ->
     exists u, users (sh w') !! n = Some u /\ u_conn u <> j).
Proof.
  intros I H Hj. pose proof (InvK_of_Inv w I) as K.
  destruct (step_frame cfg verify w i e w' o cl I H) as [I' _].
  unfold step in H.
  destruct (step_raw cfg verify w i e) as [[[w1 o1] c1]|] eqn:H1; [|discriminate]. cbn [rbind] in H.
  destruct (step_raw_frame cfg verify w i e w1 o1 c1 K H1) as [K1 [_ [_ [Hci [Hcl _]]]]].
  destruct (deliver_kills_ok cfg w1 K1) as [w2 [o2 [c2 [H2 [_ [_ [_ [_ [Hkeep Hgone]]]]]]]]].
  rewrite H2 in H. cbn [rbind] in H. injection H as <- _ <-.
  assert (conns w2 !! j = None) as Hnone.
  { destruct (decide (j ∈ c2)) as [Hin|Hnin]; [exact (Hgone j Hin)|].
    apply elem_of_app in Hj as [Hj|Hj]; [|contradiction].
    rewrite (Hkeep j Hnin). pose proof (Hci j Hj) as ->. exact (Hcl Hj). }
  assert (forall n u, users (sh w2) !! n = Some u -> u_conn u <> j) as Hown.
  { intros n u Hu E. destruct (iw_uc w2 I' n u Hu) as [c [Hc _]]. rewrite E, Hnone in Hc. discriminate. }
  split; [exact Hnone|]. split; [exact Hown|].
  intros ch co n Hco Hin. destruct (is_cu (sh w2) (iw_s w2 I') ch co n Hco Hin) as [u [Hu _]]. exists u. split; [exact Hu|]. eapply Hown; eauto.
Qed.

End global.
