(* Reach.v - consequences of the step invariant for every reachable world: frames for
   ownership and connections, the connection limit, reachability. *)
From IRC Require Import Str Wild Glob Mask Parse Reply State Handlers Step.
From IRCP Require Import StrP ChanP InvDefs InvPrims InvHandlers InvStep.
From stdpp Require Import gmap.
Open Scope N_scope.

Local Arguments lit : simpl never.

Definition owner (s : shared) (n : str) : option nat := option_map u_conn (users s !! n).

Section reach.
Context (cfg : config) (verify : str -> str -> bool).

(* what a line of connection i does to the nick -> connection map of everybody else: nothing *)
Lemma line_owner i s c r : conn_ok i s c -> line_result i s c r ->
  forall n j, j <> i -> (owner (h_sh r) n = Some j <-> owner s n = Some j).
Proof.
  intros C R n j Hj. unfold line_result in R. unfold owner. destruct (c_auth c) eqn:A.
  - destruct R as [_ [_ [_ [_ [old [Hold Hcase]]]]]]. destruct (C A) as [nick0 [u0 [Hn0 [Hu0 Hc0]]]].
    assert (nick0 = old) by congruence. subst nick0.
    destruct Hcase as [[O _]|[new [_ [Hne [Hfree Hown]]]]]; [now rewrite (O n)|].
    rewrite (Hown n). destruct (decide (n = new)) as [->|N1].
    + rewrite Hfree. cbn. split; [intros E; congruence|discriminate].
    + destruct (decide (n = old)) as [->|N2]; [|reflexivity]. rewrite Hu0. cbn. split; [discriminate|intros E; congruence].
  - destruct R as [[-> _]|[nick [u [_ [_ [_ [Hfree [Hus [Hcu _]]]]]]]]]; [reflexivity|].
    rewrite Hus. destruct (decide (n = nick)) as [->|N1].
    + rewrite lookup_insert, Hfree. cbn. split; [intros E; congruence|discriminate].
    + now rewrite lookup_insert_ne by congruence.
Qed.

Lemma teardown_frame i w c w' : InvK w -> conns w !! i = Some c -> teardown i w = Ok w' ->
  InvK w' /\ conns w' = delete i (conns w) /\
  (forall n j, j <> i -> (owner (sh w') n = Some j <-> owner (sh w) n = Some j)).
Proof.
  intros K Hc Ht. destruct (teardown_ok i w c K Hc) as [w2 [Ht2 [K2 [Hcs [Hsub Hkeep]]]]].
  rewrite Ht in Ht2. injection Ht2 as <-. split; [exact K2|]. split; [exact Hcs|].
  intros n j Hj. unfold owner. split.
  - destruct (users (sh w') !! n) as [u|] eqn:E; [|discriminate]. cbn. intros H. destruct (Hsub n u E) as [-> _]. exact H.
  - destruct (users (sh w) !! n) as [u|] eqn:E; [|discriminate]. cbn. intros H. rewrite (Hkeep n u E); [exact H|]. congruence.
Qed.

Definition is_open (e : event) : bool := match e with EvOpen _ => true | _ => false end.

Lemma step_raw_frame w i e w1 o cl : InvK w -> step_raw cfg verify w i e = Ok (w1, o, cl) ->
  InvK w1 /\
  (forall n j, j <> i -> (owner (sh w1) n = Some j <-> owner (sh w) n = Some j)) /\
  (forall j, j <> i -> conns w1 !! j = conns w !! j) /\
  (forall j, j ∈ cl -> j = i) /\
  (i ∈ cl -> conns w1 !! i = None) /\
  (is_open e = false -> (nconns w1 <= nconns w)) /\
  (is_open e = true -> sh w1 = sh w /\
     (nconns w1 = nconns w \/
      nconns w1 = nconns w + 1 /\ match cfg_max_connections cfg with Some m => nconns w < m | None => True end)).
Proof.
  intros K H.
  assert (InvK w1) as KK.
  { destruct (step_raw_ok cfg verify w i e K) as [w2 [o2 [cl2 [E K2]]]]. rewrite H in E. injection E as <- _ _. exact K2. }
  assert (forall c (o0 : outl) (cl0 : list nat), conns w !! i = Some c ->
            (let! w1 := teardown i w in Ok (w1, o0, cl0)) = Ok (w1, o, cl) ->
            InvK w1 /\
            (forall n j, j <> i -> (owner (sh w1) n = Some j <-> owner (sh w) n = Some j)) /\
            (forall j, j <> i -> conns w1 !! j = conns w !! j) /\
            conns w1 !! i = None /\ cl = cl0 /\ nconns w1 <= nconns w) as TD.
  { intros c o0 cl0 Hc E. destruct (teardown i w) as [w2|] eqn:Ht; [|discriminate]. cbn [rbind] in E. injection E as -> _ <-.
    destruct (teardown_frame i w c w1 K Hc Ht) as [K1 [Hcs Hown]]. split; [exact K1|]. split; [exact Hown|].
    split; [intros j Hj; rewrite Hcs; now rewrite lookup_delete_ne by congruence|]. split; [rewrite Hcs; apply lookup_delete|].
    split; [reflexivity|]. rewrite (ik_nc w1 K1), (ik_nc w K), Hcs. rewrite map_size_delete_Some by eauto. lia. }
  assert (forall (P : Prop), P -> (w1, o, cl) = (w1, o, cl) -> P) as _ by auto.
  assert ((w, @nil (nat * str), @nil nat) = (w1, o, cl) ->
            InvK w1 /\
            (forall n j, j <> i -> (owner (sh w1) n = Some j <-> owner (sh w) n = Some j)) /\
            (forall j, j <> i -> conns w1 !! j = conns w !! j) /\
            (forall j, j ∈ cl -> j = i) /\ (i ∈ cl -> conns w1 !! i = None) /\
            (is_open e = false -> (nconns w1 <= nconns w)) /\
            (is_open e = true -> sh w1 = sh w /\
               (nconns w1 = nconns w \/
                nconns w1 = nconns w + 1 /\ match cfg_max_connections cfg with Some m => nconns w < m | None => True end))) as Same.
  { intros E. injection E as <- <- <-. split; [exact K|]. split; [reflexivity|]. split; [reflexivity|].
    split; [intros j Hj; now apply elem_of_nil in Hj|]. split; [intros Hj; now apply elem_of_nil in Hj|]. split; [lia|auto]. }
  assert (forall c (o0 : outl), conns w !! i = Some c -> is_open e = false ->
            (let! w1 := teardown i w in Ok (w1, o0, [i])) = Ok (w1, o, cl) ->
            InvK w1 /\
            (forall n j, j <> i -> (owner (sh w1) n = Some j <-> owner (sh w) n = Some j)) /\
            (forall j, j <> i -> conns w1 !! j = conns w !! j) /\
            (forall j, j ∈ cl -> j = i) /\ (i ∈ cl -> conns w1 !! i = None) /\
            (is_open e = false -> (nconns w1 <= nconns w)) /\
            (is_open e = true -> sh w1 = sh w /\
               (nconns w1 = nconns w \/
                nconns w1 = nconns w + 1 /\ match cfg_max_connections cfg with Some m => nconns w < m | None => True end))) as TD'.
  { intros c o0 Hc He E. destruct (TD c o0 [i] Hc E) as [K1 [Ho [Hcs [Hi [-> Hn]]]]].
    split; [exact K1|]. split; [exact Ho|]. split; [exact Hcs|]. split; [intros j Hj; now apply elem_of_list_singleton in Hj|].
    split; [auto|]. split; [auto|]. intros He'. congruence. }
  destruct e; cbn [step_raw] in H.
  - destruct (conns w !! i) as [c|] eqn:Hc; [apply Same; congruence|].
    destruct (server_quit (sh w)).
    { injection H as <- <- <-. split; [exact K|]. split; [reflexivity|]. split; [reflexivity|].
      split; [intros j Hj; now apply elem_of_list_singleton in Hj|]. split; [auto|]. split; [discriminate|]. intros _. auto. }
    destruct (match cfg_max_connections cfg with Some m => N.ltb (nconns w) m | None => true end) eqn:G.
    + injection H as <- <- <-. split; [exact KK|]. cbn. split; [reflexivity|].
      split; [intros j Hj; now rewrite lookup_insert_ne by congruence|]. split; [intros j Hj; now apply elem_of_nil in Hj|].
      split; [intros Hj; now apply elem_of_nil in Hj|]. split; [discriminate|]. intros _. split; [reflexivity|]. right. split; [reflexivity|].
      destruct (cfg_max_connections cfg); [now apply N.ltb_lt|exact Logic.I].
    + injection H as <- <- <-. split; [exact K|]. split; [reflexivity|]. split; [reflexivity|].
      split; [intros j Hj; now apply elem_of_list_singleton in Hj|]. split; [auto|]. split; [discriminate|]. intros _. auto.
  - destruct (conns w !! i) as [c|] eqn:Hc; [|apply Same; congruence].
    destruct (process_line_ok cfg verify i (sh w) c l (ik_s w K) (ik_cu w K i c Hc) (ik_st w K i c Hc)) as [r [Hr R]].
    rewrite Hr in H. cbn [rbind] in H. pose proof (InvK_line i w c r K Hc R) as K1.
    pose proof (line_owner i (sh w) c r (ik_cu w K i c Hc) R) as Hown.
    set (wl := {| sh := h_sh r; conns := <[i := h_conn r]> (conns w); nconns := nconns w |}) in *.
    destruct (h_quit r).
    + assert (conns wl !! i = Some (h_conn r)) as Hcl by (cbn; now rewrite lookup_insert).
      destruct (teardown i wl) as [w2|] eqn:Ht; [|discriminate]. cbn [rbind] in H. injection H as -> <- <-.
      destruct (teardown_frame i wl _ w1 K1 Hcl Ht) as [K2 [Hcs Hown2]]. split; [exact K2|].
      split; [intros n j Hj; rewrite (Hown2 n j Hj); now apply Hown|].
      split; [intros j Hj; rewrite Hcs; rewrite lookup_delete_ne by congruence; cbn; now rewrite lookup_insert_ne by congruence|].
      split; [intros j Hj; now apply elem_of_list_singleton in Hj|]. split; [intros _; rewrite Hcs; apply lookup_delete|].
      split; [|discriminate]. intros _. rewrite (ik_nc w1 K2), Hcs. rewrite map_size_delete_Some by eauto.
      change (nconns w) with (nconns wl). rewrite (ik_nc wl K1). lia.
    + injection H as <- <- <-. split; [exact K1|]. split; [exact Hown|].
      split; [intros j Hj; cbn; now rewrite lookup_insert_ne by congruence|]. split; [intros j Hj; now apply elem_of_nil in Hj|].
      split; [intros Hj; now apply elem_of_nil in Hj|]. split; [cbn; lia|discriminate].
  - destruct (conns w !! i) as [c|] eqn:Hc; [|apply Same; congruence]. eapply TD'; eauto.
  - destruct (conns w !! i) as [c|] eqn:Hc; [|apply Same; congruence]. eapply TD'; eauto.
  - destruct (conns w !! i) as [c|] eqn:Hc; [|apply Same; congruence]. eapply TD'; eauto.
  - destruct (conns w !! i) as [c|] eqn:Hc; [|apply Same; congruence].
    injection H as <- <- <-. split; [exact K|]. split; [reflexivity|]. split; [reflexivity|].
    split; [intros j Hj; now apply elem_of_nil in Hj|]. split; [intros Hj; now apply elem_of_nil in Hj|]. split; [lia|discriminate].
  - destruct (conns w !! i) as [c|] eqn:Hc; [|apply Same; congruence]. eapply TD'; eauto.
Qed.

Definition conn_bound (w : world) : Prop :=
  match cfg_max_connections cfg with Some m => nconns w <= m | None => True end.

Theorem step_frame w i e w' o cl : Inv w -> step cfg verify w i e = Ok (w', o, cl) ->
  Inv w' /\
  (forall n j, j <> i -> owner (sh w') n = Some j -> owner (sh w) n = Some j) /\
  (forall n j, j <> i -> owner (sh w) n = Some j -> owner (sh w') n = Some j \/ j ∈ cl) /\
  (forall j, j <> i -> j ∉ cl -> conns w' !! j = conns w !! j) /\
  (forall j, j ∈ cl -> conns w' !! j = None) /\
  (conn_bound w -> conn_bound w').
Proof.
  intros I H. unfold step in H. destruct (step_raw cfg verify w i e) as [[[w1 o1] c1]|] eqn:H1; [|discriminate]. cbn [rbind] in H.
  destruct (step_raw_frame w i e w1 o1 c1 (InvK_of_Inv w I) H1) as [K1 [Hown [Hcs [Hc1 [Hc1i [Hn1 Hn2]]]]]].
  destruct (deliver_kills_ok cfg w1 K1) as [w2 [o2 [c2 [H2 [I2 [Hsub [Hkeep [Hc2 [Hsame Hgone]]]]]]]]].
  rewrite H2 in H. cbn [rbind] in H. injection H as <- <- <-.
  split; [exact I2|]. split; [|split; [|split; [|split]]].
  - intros n j Hj Ho. apply (Hown n j Hj). unfold owner in *. destruct (users (sh w2) !! n) as [u|] eqn:E; [|discriminate].
    destruct (Hsub n u E) as [-> _]. exact Ho.
  - intros n j Hj Ho. apply (Hown n j Hj) in Ho. unfold owner in *. destruct (users (sh w1) !! n) as [u|] eqn:E; [|discriminate].
    cbn in Ho. injection Ho as Ho. destruct (u_kill u) as [kc|] eqn:Hk.
    + right. apply elem_of_app. right. apply Hc2. exists n, u. rewrite Hk. auto.
    + left. rewrite (Hkeep n u E Hk). cbn. congruence.
  - intros j Hj Hn. apply not_elem_of_app in Hn as [Hn1' Hn2']. rewrite (Hsame j Hn2'). now apply Hcs.
  - intros j Hj. apply elem_of_app in Hj as [Hj|Hj]; [|now apply Hgone].
    pose proof (Hc1 j Hj) as ->. destruct (decide (i ∈ c2)) as [Hi|Hi]; [now apply Hgone|]. rewrite (Hsame i Hi). now apply Hc1i.
  - unfold conn_bound. destruct (cfg_max_connections cfg) as [m|]; [|auto]. intros Hb.
    assert (nconns w2 <= nconns w1) as Hle.
    { rewrite (iw_nc w2 I2), (ik_nc w1 K1). assert (conns w2 ⊆ conns w1) as Hss.
      { apply map_subseteq_spec. intros j c Hj. destruct (decide (j ∈ c2)) as [Hi|Hi]; [rewrite (Hgone j Hi) in Hj; discriminate|].
        now rewrite <- (Hsame j Hi). }
      assert (size (conns w2) <= size (conns w1))%nat as Hsz.
      { rewrite <- (size_dom (D:=gset nat) (conns w2)), <- (size_dom (D:=gset nat) (conns w1)). apply subseteq_size. now apply subseteq_dom. }
      lia. }
    destruct (is_open e) eqn:Eo.
    + destruct (Hn2 eq_refl) as [_ [E|[E Hlt]]]; lia.
    + specialize (Hn1 eq_refl). lia.
Qed.

(* ---------------------------------------------------------------- reachability *)
Definition reachable (w : world) : Prop :=
  exists evs outs, run cfg verify (world_init cfg) evs = Ok (w, outs).

Lemma run_inv evs : forall w w' outs, Inv w -> conn_bound w -> run cfg verify w evs = Ok (w', outs) -> Inv w' /\ conn_bound w'.
Proof.
  induction evs as [|[i e] evs IH]; intros w w' outs I B H; cbn [run] in H.
  - injection H as <- _. auto.
  - destruct (step cfg verify w i e) as [[[w1 o] cl]|] eqn:Hs; [|discriminate]. cbn [rbind] in H.
    destruct (step_frame w i e w1 o cl I Hs) as [I1 [_ [_ [_ [_ B1]]]]].
    destruct (run cfg verify w1 evs) as [[w2 rest]|] eqn:Hr; [|discriminate]. cbn [rbind] in H. injection H as <- _.
    eapply IH; eauto.
Qed.

Lemma conn_bound_init : conn_bound (world_init cfg).
Proof. unfold conn_bound. destruct (cfg_max_connections cfg); [cbn; lia|auto]. Qed.

Theorem reachable_inv w : reachable w -> Inv w /\ conn_bound w.
Proof. intros [evs [outs H]]. eapply run_inv; [apply Inv_init|apply conn_bound_init|exact H]. Qed.

Theorem run_total evs : exists w outs, run cfg verify (world_init cfg) evs = Ok (w, outs).
Proof. destruct (run_ok cfg verify evs (world_init cfg) (Inv_init cfg)) as [w [outs [H _]]]. eauto. Qed.

Theorem reachable_step w i e : reachable w -> exists w' o cl, step cfg verify w i e = Ok (w', o, cl) /\ reachable w'.
Proof.
  intros R. destruct (step_ok cfg verify w i e (proj1 (reachable_inv w R))) as [w' [o [cl [H _]]]].
  exists w', o, cl. split; [exact H|]. destruct R as [evs [outs Hr]]. exists (evs ++ [(i, e)]).
  clear -Hr H. revert Hr. generalize (world_init cfg). revert outs. induction evs as [|[j f] evs IH]; intros outs w0 Hr; cbn [run app] in *.
  - injection Hr as -> _. rewrite H. cbn [rbind]. eauto.
  - destruct (step cfg verify w0 j f) as [[[w1 o1] cl1]|]; [|discriminate]. cbn [rbind] in *.
    destruct (run cfg verify w1 evs) as [[w2 rest]|] eqn:E; [|discriminate]. cbn [rbind] in Hr. injection Hr as -> _.
    destruct (IH _ _ E) as [outs' ->]. cbn [rbind]. eauto.
Qed.

(* ---------------------------------------------------------------- a connection that is not registered *)
Lemma pending_nil s : (forall n u, users s !! n = Some u -> u_kill u = None) -> pending_kills s = [].
Proof.
  intros H. unfold pending_kills.
  assert (forall x, x ∈ map_to_list (users s) -> u_kill x.2 = None) as Hl.
  { intros [n u] Hx. apply elem_of_map_to_list in Hx. cbn. eauto. }
  induction (map_to_list (users s)) as [|[n u] l IH]; [reflexivity|]. cbn [omap list_omap].
  pose proof (Hl (n, u) (elem_of_list_here _ _)) as E. cbn in E. rewrite E. apply IH. intros x Hx. apply Hl. now apply elem_of_list_further.
Qed.

Lemma deliver_nil w : (forall n u, users (sh w) !! n = Some u -> u_kill u = None) -> deliver_kills cfg w = Ok (w, [], []).
Proof. intros H. unfold deliver_kills. now rewrite pending_nil. Qed.

Theorem unregistered_inert w i c e w' o cl : Inv w -> conns w !! i = Some c -> c_auth c = false ->
  step cfg verify w i e = Ok (w', o, cl) ->
  sh w' = sh w \/
  exists nick u c', conns w' !! i = Some c' /\ c_auth c' = true /\ c_nick c' = Some nick /\
    users (sh w) !! nick = None /\ users (sh w') = <[nick := u]> (users (sh w)) /\ u_conn u = i.
Proof.
  intros I Hc A H. pose proof (InvK_of_Inv w I) as K. unfold step in H.
  assert (forall wx, conns wx !! i = Some c -> sh wx = sh w -> forall wy, teardown i wx = Ok wy -> sh wy = sh w) as TDs.
  { intros wx Hx Hs wy Ht. unfold teardown in Ht. rewrite Hx, A in Ht. cbn [rbind] in Ht.
    destruct (dec_counter (nconns wx)); [|discriminate]. cbn [rbind] in Ht. injection Ht as <-. exact Hs. }
  assert (forall w1 o1 c1, sh w1 = sh w -> (let! (w2, o2, c2) := deliver_kills cfg w1 in Ok (w2, o1 ++ o2, c1 ++ c2)) = Ok (w', o, cl) -> sh w' = sh w) as DK.
  { intros w1 o1 c1 Hs E. rewrite deliver_nil in E; [|rewrite Hs; apply (iw_nk w I)]. cbn [rbind] in E. injection E as <- _ _. exact Hs. }
  destruct e; cbn [step_raw] in H; rewrite Hc in H.
  - left. eapply DK; [|exact H]. reflexivity.
  - destruct (process_line_ok cfg verify i (sh w) c l (ik_s w K) (ik_cu w K i c Hc) (ik_st w K i c Hc)) as [r [Hr R]].
    rewrite Hr in H. cbn [rbind] in H. unfold line_result in R. rewrite A in R.
    destruct R as [[Hs [Ha Ht]]|[nick [u [Hn [Ha [Ht [Hfree [Hus [Hcu [Hk [Hq Ir]]]]]]]]]]].
    + left. destruct (h_quit r).
      * destruct (teardown i _) as [w1|] eqn:Htd; [|discriminate]. cbn [rbind] in H. eapply DK; [|exact H].
        unfold teardown in Htd. cbn [conns] in Htd. rewrite lookup_insert, Ha in Htd. cbn [rbind sh] in Htd.
        destruct (dec_counter _); [|discriminate]. cbn [rbind] in Htd. injection Htd as <-. exact Hs.
      * cbn [rbind] in H. eapply DK; [|exact H]. exact Hs.
    + right. rewrite Hq in H. cbn [rbind] in H. rewrite deliver_nil in H.
      * cbn [rbind] in H. injection H as <- _ _. exists nick, u, (h_conn r). cbn. rewrite lookup_insert. auto 10.
      * cbn. intros n u' Hu'. rewrite Hus in Hu'. destruct (decide (n = nick)) as [->|N1].
        -- rewrite lookup_insert in Hu'. congruence.
        -- rewrite lookup_insert_ne in Hu' by congruence. eapply (iw_nk w I); eauto.
  - left. destruct (teardown i w) as [w1|] eqn:Htd; [|discriminate]. cbn [rbind] in H. eapply DK; [|exact H]. eapply TDs; eauto.
  - left. destruct (teardown i w) as [w1|] eqn:Htd; [|discriminate]. cbn [rbind] in H. eapply DK; [|exact H]. eapply TDs; eauto.
  - left. destruct (teardown i w) as [w1|] eqn:Htd; [|discriminate]. cbn [rbind] in H. eapply DK; [|exact H]. eapply TDs; eauto.
  - left. cbn [rbind] in H. eapply DK; [|exact H]. reflexivity.
  - left. destruct (teardown i w) as [w1|] eqn:Htd; [|discriminate]. cbn [rbind] in H. eapply DK; [|exact H]. eapply TDs; eauto.
Qed.

(* ---------------------------------------------------------------- the end of a registered session, in full *)
Theorem teardown_registered w i c n : InvK w -> conns w !! i = Some c -> c_auth c = true -> c_nick c = Some n ->
  exists u w', users (sh w) !! n = Some u /\ u_conn u = i /\ teardown i w = Ok w' /\ InvK w' /\
    conns w' = delete i (conns w) /\ nconns w' + 1 = nconns w /\
    users (sh w') = delete n (users (sh w)) /\
    wallops (sh w') = wallops (sh w) ∖ {[n]} /\
    histories (sh w') = <[n := default [] (histories (sh w) !! n) ++ [u_hist u]]> (histories (sh w)) /\
    server_quit (sh w') = server_quit (sh w) /\
    (forall ch, ch ∉ u_chans u -> chans (sh w') !! ch = chans (sh w) !! ch) /\
    (forall ch co, ch ∈ u_chans u -> chans (sh w) !! ch = Some co ->
       exists co', chan_remove_user n co = Ok co' /\ chans (sh w') !! ch = chan_after_leave co').
Proof.
  intros K Hc A Hn. destruct (ik_cu w K i c Hc A) as [n0 [u [Hn0 [Hu Hcu]]]]. assert (n0 = n) by congruence. subst n0.
  destruct (teardown_ok i w c K Hc) as [w' [Ht [K' [Hcs _]]]]. exists u, w'. split; [exact Hu|]. split; [exact Hcu|]. split; [exact Ht|].
  split; [exact K'|]. split; [exact Hcs|].
  unfold teardown in Ht. rewrite Hc, A, Hn in Ht.
  destruct (st_remove_user_inv (sh w) n u (ik_s w K) Hu) as [s' [Hs' [I' [Hus [Hch [Hw [Hh [Hq [Hm [s1 [Hf Hcs1]]]]]]]]]]].
  rewrite Hs' in Ht. cbn [rbind] in Ht. unfold dec_counter in Ht. destruct (N.eqb_spec (nconns w) 0) as [Z|NZ]; [discriminate|].
  cbn [rbind] in Ht. injection Ht as <-. cbn. split; [lia|]. split; [exact Hus|]. split; [exact Hw|]. split; [exact Hh|]. split; [exact Hq|].
  split; [exact Hch|]. intros ch co Hin Hco. rewrite Hcs1.
  eapply (fold_remove_chan n (elements (u_chans u)) (sh w) u s1 (ik_s w K) Hu (NoDup_elements _)); eauto.
  - intros c0 Hc0. now apply elem_of_elements.
  - now apply elem_of_elements.
Qed.

(* a nick that names no user appears nowhere in the live state *)
Lemma absent_everywhere s n : InvS s -> users s !! n = None ->
  n ∉ wallops s /\ forall ch co, chans s !! ch = Some co -> n ∉ dom (ch_users co) /\ forall l, n ∉ cm_get_rankset l (ch_modes co).
Proof.
  intros I Hn. split.
  - intros H. apply (is_wl s I) in H as [u [Hu _]]. congruence.
  - intros ch co Hco. assert (n ∉ dom (ch_users co)) as Hd.
    { intros H. destruct (is_cu s I ch co n Hco H) as [u [Hu _]]. congruence. }
    split; [exact Hd|]. intros l H. apply (is_rk s I ch co Hco) in H as [r [Hr _]]. apply Hd. now apply elem_of_dom_2 in Hr.
Qed.

(* ---------------------------------------------------------------- LUSERS *)
Definition n_users (s : shared) : N := N.of_nat (size (users s)).
Definition n_invisible (s : shared) : N := N.of_nat (cnt (fun u => um_invisible (u_modes u)) (users s)).
Definition n_opers (s : shared) : N := N.of_nat (cnt (fun u => is_local_oper (u_modes u)) (users s)).

Theorem lusers_true s client : InvS s ->
  lusers_lines s client =
  Ok [ rpl_luserclient client (n_users s - n_invisible s) (n_invisible s);
       rpl_luserop client (n_opers s);
       rpl_luserunknown client;
       rpl_luserchannels client (N.of_nat (size (chans s)));
       rpl_luserme client (n_users s);
       rpl_localusers client (n_users s) (max_users s);
       rpl_globalusers client (n_users s) (max_users s) ] /\ n_invisible s <= n_users s.
Proof.
  intros I. unfold lusers_lines, n_users, n_invisible, n_opers. rewrite (is_ci s I), (is_co s I).
  pose proof (cnt_le_size (fun u => um_invisible (u_modes u)) (users s)).
  destruct (N.ltb_spec (N.of_nat (size (users s))) (N.of_nat (cnt (fun u => um_invisible (u_modes u)) (users s)))); [lia|].
  split; [reflexivity|lia].
Qed.

End reach.
