(* HighWater.v - max_users is the true high-water mark of the number of registered users:
   after every step it is the maximum of its previous value and the current user count. *)
From IRC Require Import Str Wild Glob Mask Parse Reply State Handlers Step.
From IRCP Require Import StrP InvDefs InvPrims InvNick InvHandlers InvStep Reach NickP OperP ModesFrame.
From stdpp Require Import gmap.
Open Scope N_scope.

Local Arguments lit : simpl never.

(* the mark does not move and the population does not grow *)
Definition mxsz (s s' : shared) : Prop :=
  max_users s' = max_users s /\ (size (users s') <= size (users s))%nat.

Lemma mxsz_refl s : mxsz s s. Proof. split; [reflexivity|lia]. Qed.
Lemma mxsz_trans a b c : mxsz a b -> mxsz b c -> mxsz a c.
Proof. intros [A1 A2] [B1 B2]. split; [congruence|lia]. Qed.
Lemma keeps_mxsz s s' : keeps_nk s s' -> mxsz s s'.
Proof. intros K. split; [apply K|now apply keeps_size]. Qed.

Lemma size_insert_existing (m : gmap str user) n u u' : m !! n = Some u -> size (<[n := u']> m) = size m.
Proof. intros H. apply map_size_insert_Some. eauto. Qed.

Section hw.
Context (cfg : config) (verify : str -> str -> bool).

Lemma umode_char_max c client nick ch set_ m m' :
  umode_char c client nick ch set_ m = Ok m' -> max_users (us_sh m') = max_users (us_sh m).
Proof.
  unfold umode_char.
  destruct (N.eqb ch 105).
  { destruct set_.
    - destruct (um_invisible (us_modes m)); intros [= <-]; reflexivity.
    - destruct (um_invisible (us_modes m)); [|intros [= <-]; reflexivity].
      destruct (dec_counter _); cbn [rbind]; [|discriminate]. intros [= <-]; reflexivity. }
  destruct (N.eqb ch 114).
  { destruct set_.
    - destruct (um_registered (us_modes m)); [intros [= <-]; reflexivity|].
      destruct (c_registered c); intros [= <-]; reflexivity.
    - destruct (um_registered (us_modes m)); intros [= <-]; reflexivity. }
  destruct (N.eqb ch 119).
  { destruct set_; destruct (um_wallops (us_modes m)); intros [= <-]; reflexivity. }
  destruct (N.eqb ch 111).
  { destruct set_.
    - destruct (um_oper (us_modes m)); intros [= <-]; reflexivity.
    - destruct (um_oper (us_modes m)); [|intros [= <-]; reflexivity].
      destruct (um_local_oper (us_modes m)); [intros [= <-]; reflexivity|].
      destruct (dec_counter _); cbn [rbind]; [|discriminate]. intros [= <-]; reflexivity. }
  destruct (N.eqb ch 79).
  { destruct set_.
    - destruct (um_local_oper (us_modes m)); intros [= <-]; reflexivity.
    - destruct (is_local_oper (us_modes m)); [|intros [= <-]; reflexivity].
      destruct (dec_counter _); cbn [rbind]; [|discriminate]. intros [= <-]; reflexivity. }
  intros [= <-]. reflexivity.
Qed.

Lemma umode_chars_max c client nick cs : forall set_ m m',
  umode_chars c client nick cs set_ m = Ok m' -> max_users (us_sh m') = max_users (us_sh m).
Proof.
  induction cs as [|ch cs IH]; intros set_ m m'; cbn [umode_chars]; [intros [= <-]; reflexivity|].
  destruct (N.eqb ch c_plus); [apply IH|]. destruct (N.eqb ch c_minus); [apply IH|].
  destruct (umode_char c client nick ch set_ m) as [m1|] eqn:E; cbn [rbind]; [|discriminate].
  intros H. apply IH in H. apply umode_char_max in E. congruence.
Qed.

Lemma mode_user_mxsz i s c nick modes r u :
  users s !! nick = Some u -> process_mode_user cfg i s c nick modes = Ok r -> mxsz s (h_sh r).
Proof.
  intros Hu H. destruct (mode_user_no_grant cfg i s c nick modes r u Hu H) as [m' [Hus _]].
  split; [|rewrite Hus, (size_insert_existing _ _ u) by exact Hu; lia].
  revert H. unfold process_mode_user, get_user. rewrite Hu. cbn [rbind].
  destruct (is_empty modes); [intros [= <-]; reflexivity|].
  match goal with |- context [rfold ?F modes ?m0] => set (F0 := F); set (st0 := m0) end.
  assert (forall l m m1, rfold F0 l m = Ok m1 -> max_users (us_sh m1) = max_users (us_sh m)) as G.
  { induction l as [|[mc args] l IH]; intros m m1; cbn [rfold]; [intros [= <-]; reflexivity|].
    unfold F0 at 1. destruct (umode_chars c (client_name c) nick mc false m) as [m2|] eqn:E; cbn [rbind]; [|discriminate].
    intros H. apply IH in H. apply umode_chars_max in E. congruence. }
  destruct (rfold F0 modes st0) as [m|] eqn:E; cbn [rbind]; [|discriminate]. intros [= <-]. cbn. exact (G _ _ _ E).
Qed.

Lemma oper_mxsz i s c name password nick u r :
  c_nick c = Some nick -> users s !! nick = Some u -> process_oper cfg verify i s c name password = Ok r -> mxsz s (h_sh r).
Proof.
  intros Hn Hu. unfold process_oper, own_nick, get_user. rewrite Hn. cbn [rbind].
  destruct (find_opercfg cfg name) as [oc|]; [|intros [= <-]; apply mxsz_refl].
  rewrite Hu. cbn [rbind]. destruct (negb (verify password (oc_password oc))); [intros [= <-]; apply mxsz_refl|].
  destruct (negb _); [intros [= <-]; apply mxsz_refl|].
  intros [= <-]. cbn [h_sh]. destruct (is_local_oper (u_modes u)); (split; [reflexivity|cbn; rewrite (size_insert_existing _ _ u) by exact Hu; lia]).
Qed.

(* every command of a registered connection: the mark stays, the population does not grow *)
Theorem dispatch_mxsz i s c cmd msg r :
  InvS s -> conn_ok i s c -> c_auth c = true -> dispatch cfg verify i s c cmd msg = Ok r -> mxsz s (h_sh r).
Proof.
  intros I C A H. destruct (own_user i s c C A) as [nick [u [Hn [Hu [Hc [Ho Hg]]]]]].
  destruct (match cmd with OPER _ _ | NICK _ | MODE _ _ => true | _ => false end) eqn:E.
  - destruct cmd; try discriminate E; cbn [dispatch] in H.
    + (* NICK *)
      destruct (decide (nickname = nick)) as [->|Hne].
      { rewrite (process_nick_same cfg verify i s c msg nick A Hn) in H. injection H as <-. apply mxsz_refl. }
      destruct (users s !! nickname) as [x|] eqn:Hx.
      { rewrite (process_nick_refused cfg verify i s c nickname msg nick x A Hn Hne Hx) in H. injection H as <-. apply mxsz_refl. }
      destruct (process_nick_effect cfg verify i s c nickname msg nick u I A Hn Hu Hne Hx) as [r0 [Hr [_ [_ [Hus [_ [_ [_ [_ [_ [Hmx _]]]]]]]]]]].
      rewrite Hr in H. injection H as <-. split; [exact Hmx|]. rewrite Hus.
      rewrite map_size_insert_None by (rewrite lookup_delete_ne by congruence; exact Hx).
      rewrite map_size_delete_Some by eauto.
      assert (size (users s) <> 0%nat); [|lia]. intros Z. apply map_size_empty_inv in Z. rewrite Z in Hu. now rewrite lookup_empty in Hu.
    + eapply oper_mxsz; eauto.
    + (* MODE *)
      unfold process_mode in H. rewrite Ho in H. cbn [rbind] in H. destruct (validate_channel target).
      * destruct (chans s !! target) as [co|]; [|injection H as <-; apply mxsz_refl].
        destruct (ch_users co !! nick) as [rk|]; [|injection H as <-; apply mxsz_refl].
        apply keeps_mxsz, keeps_weaken. eapply mode_channel_keeps; eauto.
      * destruct (bool_decide (nick = target)); [eapply mode_user_mxsz; eauto|].
        destruct (users s !! target); injection H as <-; apply mxsz_refl.
  - (* every other command keeps records and mark: ModesFrame *)
    assert (forall name pw, cmd <> OPER name pw) as Hno by (intros name pw ->; discriminate E).
    assert (forall r0, same_result s c r0 -> mxsz s (h_sh r0)) as Same by (intros r0 [E0 _]; rewrite E0; apply mxsz_refl).
    assert (forall (P : res hres), (exists r0, P = Ok r0 /\ same_result s c r0) -> P = Ok r -> mxsz s (h_sh r)) as S2.
    { intros P [r0 [-> Hs]] [= <-]. now apply Same. }
    assert (forall o, Ok {| h_sh := s; h_conn := c; h_out := o; h_quit := false |} = Ok r -> mxsz s (h_sh r)) as S3
      by (intros o [= <-]; apply mxsz_refl).
    destruct cmd; try discriminate E; cbn [dispatch] in H.
    + unfold process_cap in H. destruct sub.
      * injection H as <-. apply mxsz_refl.
      * injection H as <-. apply mxsz_refl.
      * destruct caps as [cs|]; [destruct (forallb _ cs)|]; injection H as <-; apply mxsz_refl.
      * rewrite A in H. injection H as <-. apply mxsz_refl.
    + injection H as <-. apply mxsz_refl.
    + unfold process_pass in H. rewrite A in H. injection H as <-. apply mxsz_refl.
    + unfold process_user in H. rewrite A in H. injection H as <-. apply mxsz_refl.
    + injection H as <-. apply mxsz_refl.
    + injection H as <-. apply mxsz_refl.
    + injection H as <-. apply mxsz_refl.
    + apply keeps_mxsz, keeps_weaken. eapply join_keeps; eauto.
    + apply keeps_mxsz, keeps_weaken. eapply part_keeps; eauto.
    + apply keeps_mxsz, keeps_weaken. eapply topic_keeps; eauto.
    + eapply S2; [|exact H]. now apply process_names_ok.
    + unfold process_list in H. destruct server; eapply S3; exact H.
    + apply keeps_mxsz, keeps_weaken. eapply invite_keeps; eauto.
    + apply keeps_mxsz, keeps_weaken. eapply kick_keeps; eauto.
    + unfold process_motd in H. destruct target; eapply S3; exact H.
    + unfold process_version in H. destruct target; eapply S3; exact H.
    + unfold process_admin in H. destruct target; eapply S3; exact H.
    + eapply S3; exact H.
    + unfold process_lusers in H. destruct (lusers_lines s (client_name c)); cbn [rbind] in H; [|discriminate]. eapply S3; exact H.
    + unfold process_time in H. destruct server; eapply S3; exact H.
    + unfold process_stats in H. destruct server; [eapply S3; exact H|].
      rewrite Ho in H. cbn [rbind] in H. rewrite Hg in H. cbn [rbind] in H. destruct (is_local_oper _); eapply S3; exact H.
    + unfold process_links in H. destruct remote_server, server_mask; eapply S3; exact H.
    + unfold process_help in H. destruct (help_topic _); eapply S3; exact H.
    + eapply S3; exact H.
    + eapply S2; [|exact H]. now apply process_privmsg_ok.
    + eapply S2; [|exact H]. now apply process_privmsg_ok.
    + eapply S2; [|exact H]. now apply process_who_ok.
    + eapply S2; [|exact H]. now apply process_whois_ok.
    + unfold process_whowas in H. destruct server; eapply S3; exact H.
    + apply keeps_mxsz. eapply kill_keeps; eauto.
    + eapply S3; exact H.
    + eapply S3; exact H.
    + unfold process_squit in H. destruct (bool_decide _); [apply keeps_mxsz; eapply die_keeps; eauto|eapply S3; exact H].
    + apply keeps_mxsz, keeps_weaken. eapply away_keeps; eauto.
    + eapply S3; exact H.
    + eapply S2; [|exact H]. now apply process_wallops_ok.
    + eapply S3; exact H.
    + apply keeps_mxsz. eapply die_keeps; eauto.
Qed.

(* ---------------------------------------------------------------- registration raises the mark exactly when the population exceeds it *)
Definition grows (s s' : shared) : Prop :=
  exists nick u, users s !! nick = None /\ users s' = <[nick := u]> (users s) /\
    max_users s' = N.max (max_users s) (N.of_nat (S (size (users s)))).

Lemma st_add_user_max nick u s : users s !! nick = None ->
  max_users (st_add_user nick u s) = N.max (max_users s) (N.of_nat (S (size (users s)))).
Proof.
  intros Hn. unfold st_add_user.
  destruct (um_invisible (u_modes u)), (um_wallops (u_modes u)), (is_local_oper (u_modes u)); cbn;
    rewrite map_size_insert_None by exact Hn;
    (destruct (N.ltb_spec (max_users s) (N.of_nat (S (size (users s))))); cbn; lia).
Qed.

Lemma authenticate_mx i s c r : authenticate cfg verify i s c = Ok r -> mxsz s (h_sh r) \/ grows s (h_sh r).
Proof.
  unfold authenticate. destruct (c_capneg c); [intros [= <-]; left; apply mxsz_refl|].
  destruct (c_nick c) as [nick|]; [|intros [= <-]; left; apply mxsz_refl].
  destruct (c_name c) as [name|]; [|intros [= <-]; left; apply mxsz_refl].
  destruct (negb _); [intros [= <-]; left; apply mxsz_refl|].
  match goal with |- (if ?g then _ else _) = _ -> _ => destruct g end; [|intros [= <-]; left; apply mxsz_refl].
  destruct (users s !! nick) eqn:Hn; [intros [= <-]; left; apply mxsz_refl|].
  destruct (c_sender_taken c); [discriminate|].
  match goal with |- context [st_add_user nick ?u0 s] => set (u := u0) end.
  destruct (lusers_lines _ _); cbn [rbind]; [|discriminate]. intros [= <-]. cbn [h_sh]. right.
  exists nick, u. split; [exact Hn|]. split; [apply st_add_user_fields|now apply st_add_user_max].
Qed.

Lemma unauth_dispatch_mx i s c cmd msg r : c_auth c = false -> needs_registration cmd = false ->
  dispatch cfg verify i s c cmd msg = Ok r -> mxsz s (h_sh r) \/ grows s (h_sh r).
Proof.
  intros A Hn. destruct cmd; try discriminate Hn; cbn [dispatch].
  - unfold process_cap. destruct sub.
    + intros [= <-]; left; apply mxsz_refl.
    + intros [= <-]; left; apply mxsz_refl.
    + destruct caps as [cs|]; [destruct (forallb _ cs)|]; intros [= <-]; left; apply mxsz_refl.
    + rewrite A. apply authenticate_mx.
  - intros [= <-]; left; apply mxsz_refl.
  - unfold process_pass. rewrite A. apply authenticate_mx.
  - unfold process_nick. rewrite A. cbn [negb]. destruct (users s !! nickname); [intros [= <-]; left; apply mxsz_refl|apply authenticate_mx].
  - unfold process_user. rewrite A. apply authenticate_mx.
  - intros [= <-]; left; apply mxsz_refl.
Qed.

Lemma line_mx i s c l r : InvS s -> conn_ok i s c -> c_sender_taken c = c_auth c ->
  process_line cfg verify i s c l = Ok r ->
  mxsz s (h_sh r) \/ (grows s (h_sh r) /\ h_quit r = false /\ c_auth c = false).
Proof.
  intros I C T H.
  assert (forall o, Ok {| h_sh := s; h_conn := c; h_out := o; h_quit := false |} = Ok r -> mxsz s (h_sh r)) as Same
    by (intros o [= <-]; apply mxsz_refl).
  unfold process_line in H. destruct (tokenize l) as [msg|[| |]]; try (left; eapply Same; exact H).
  destruct (command_of_message msg) as [cmd|e]; [|left; eapply Same; exact H].
  destruct (needs_registration cmd && negb (c_auth c)) eqn:G; [left; eapply Same; exact H|].
  destruct (c_auth c) eqn:A.
  - left. eapply dispatch_mxsz; eauto.
  - cbn in G. rewrite andb_true_r in G.
    destruct (unauth_dispatch_mx i s c cmd msg r A G H) as [M|Gr]; [now left|]. right. split; [exact Gr|]. split; [|reflexivity].
    destruct (unauth_line_ok cfg verify i s c cmd msg I A T G) as [r' [Hr' U]].
    rewrite H in Hr'. injection Hr' as <-. destruct U as [[E _]|[nick [u [_ [_ [_ [_ [_ [_ [_ [Hq _]]]]]]]]]]]; [|exact Hq].
    exfalso. destruct Gr as [nick [u [Hfree [Hus _]]]]. rewrite E in Hus.
    assert (<[nick := u]> (users s) !! nick = users s !! nick) as E2 by now rewrite <- Hus.
    rewrite lookup_insert, Hfree in E2. discriminate.
Qed.

(* ---------------------------------------------------------------- teardown and KILL delivery only shrink *)
Lemma teardown_mxsz i w c w' : InvK w -> conns w !! i = Some c -> teardown i w = Ok w' -> mxsz (sh w) (sh w').
Proof.
  intros K Hc. unfold teardown. rewrite Hc. destruct (c_auth c) eqn:A.
  - destruct (ik_cu w K i c Hc A) as [nick [u [Hn [Hu _]]]]. rewrite Hn.
    destruct (st_remove_user_inv (sh w) nick u (ik_s w K) Hu) as [s' [-> [_ [Hus [_ [_ [_ [_ [Hm _]]]]]]]]]. cbn [rbind].
    destruct (dec_counter (nconns w)); cbn [rbind]; [|discriminate]. intros [= <-]. cbn [sh]. split; [exact Hm|].
    rewrite Hus. rewrite map_size_delete_Some by eauto. lia.
  - cbn [rbind]. destruct (dec_counter (nconns w)); cbn [rbind]; [|discriminate]. intros [= <-]. apply mxsz_refl.
Qed.

Lemma kills_fold_mxsz L : forall w o cl w' o' cl', InvK w -> NoDup (kill_conn <$> L) ->
  (forall x, x ∈ L -> exists c, conns w !! kill_conn x = Some c) ->
  rfold (kill_f cfg) L (w, o, cl) = Ok (w', o', cl') -> mxsz (sh w) (sh w').
Proof.
  induction L as [|[[j k] cm] L IH]; intros w o cl w' o' cl' K ND Hex; cbn [rfold].
  - intros [= <- _ _]. apply mxsz_refl.
  - rewrite fmap_cons in ND. cbn [kill_conn fst] in ND. apply NoDup_cons in ND as [Hj ND].
    destruct (Hex (j, k, cm) (elem_of_list_here _ _)) as [c Hc]. cbn [kill_conn fst] in Hc.
    destruct (teardown_ok j w c K Hc) as [w1 [Ht [K1 [Hcs _]]]].
    cbn [kill_f]. rewrite Ht. cbn [rbind]. intros H.
    eapply mxsz_trans; [eapply teardown_mxsz; eauto|]. eapply IH; [exact K1|exact ND| |exact H].
    intros x Hx. destruct (Hex x (elem_of_list_further _ _ _ Hx)) as [cx Hcx]. exists cx. rewrite Hcs. rewrite lookup_delete_ne; [exact Hcx|].
    intros E. apply Hj. rewrite E. apply elem_of_list_fmap. eauto.
Qed.

Lemma deliver_kills_mxsz w w' o cl : InvK w -> deliver_kills cfg w = Ok (w', o, cl) -> mxsz (sh w) (sh w').
Proof.
  intros K. unfold deliver_kills.
  change (pending_kills (sh w)) with (omap kill_g (map_to_list (users (sh w)))).
  apply kills_fold_mxsz; [exact K| |].
  - apply (pending_nodup w); [exact K|apply NoDup_fst_map_to_list|].
    intros n u H. apply elem_of_map_to_list in H. exact H.
  - intros [[j k] cm] Hx. apply elem_of_list_omap in Hx as [[n u] [Hx Hg]].
    apply elem_of_map_to_list in Hx. unfold kill_g in Hg. destruct (u_kill u) as [[k2 cm2]|]; [|discriminate]. injection Hg as <- _ _.
    destruct (ik_uc w K _ _ Hx) as [c [Hc _]]. exists c. exact Hc.
Qed.

(* ---------------------------------------------------------------- the step theorem *)
Definition hw (w : world) : Prop := N.of_nat (size (users (sh w))) <= max_users (sh w).

Theorem step_high_water w i e w' o cl : Inv w -> hw w -> step cfg verify w i e = Ok (w', o, cl) ->
  hw w' /\ max_users (sh w') = N.max (max_users (sh w)) (N.of_nat (size (users (sh w')))).
Proof.
  intros I Hh H. pose proof (InvK_of_Inv w I) as K. unfold step in H.
  destruct (step_raw cfg verify w i e) as [[[w1 o1] c1]|] eqn:H1; [|discriminate]. cbn [rbind] in H.
  destruct (step_raw_frame cfg verify w i e w1 o1 c1 K H1) as [K1 _].
  destruct (deliver_kills cfg w1) as [[[w2 o2] c2]|] eqn:H2; [|discriminate]. cbn [rbind] in H. injection H as <- _ _.
  pose proof (deliver_kills_mxsz w1 w2 o2 c2 K1 H2) as M2.
  (* a shrinking step keeps the mark; the mark already dominates *)
  assert (forall wa wb, hw wa -> mxsz (sh wa) (sh wb) ->
            hw wb /\ max_users (sh wb) = N.max (max_users (sh wa)) (N.of_nat (size (users (sh wb))))) as Shrink.
  { intros wa wb Ha [Em Es]. unfold hw in *. rewrite Em. split; lia. }
  assert (mxsz (sh w) (sh w1) -> hw w2 /\ max_users (sh w2) = N.max (max_users (sh w)) (N.of_nat (size (users (sh w2))))) as Fin.
  { intros M1. apply Shrink; [exact Hh|]. eapply mxsz_trans; eauto. }
  assert (forall c, conns w !! i = Some c -> forall (o0 : outl) (cl0 : list nat),
            (let! wx := teardown i w in Ok (wx, o0, cl0)) = Ok (w1, o1, c1) -> mxsz (sh w) (sh w1)) as TD.
  { intros c Hc o0 cl0 E. destruct (teardown i w) as [wx|] eqn:Ht; [|discriminate]. cbn [rbind] in E. injection E as <- _ _.
    eapply teardown_mxsz; eauto. }
  destruct e; cbn [step_raw] in H1.
  - apply Fin. destruct (conns w !! i); [injection H1 as <- _ _; apply mxsz_refl|].
    destruct (server_quit (sh w)); [injection H1 as <- _ _; apply mxsz_refl|].
    destruct (match cfg_max_connections cfg with Some m => N.ltb (nconns w) m | None => true end); injection H1 as <- _ _; apply mxsz_refl.
  - destruct (conns w !! i) as [c|] eqn:Hc; [|apply Fin; injection H1 as <- _ _; apply mxsz_refl].
    destruct (process_line cfg verify i (sh w) c l) as [r|] eqn:Hr; cbn [rbind] in H1; [|discriminate].
    destruct (line_mx i (sh w) c l r (ik_s w K) (ik_cu w K i c Hc) (ik_st w K i c Hc) Hr) as [M|[[nick [u [Hfree [Hus Hmx]]]] [Hq A]]].
    + apply Fin. destruct (h_quit r).
      * set (wl := {| sh := h_sh r; conns := <[i := h_conn r]> (conns w); nconns := nconns w |}) in *.
        destruct (process_line_ok cfg verify i (sh w) c l (ik_s w K) (ik_cu w K i c Hc) (ik_st w K i c Hc)) as [r' [Hr' R]].
        rewrite Hr in Hr'. injection Hr' as <-. pose proof (InvK_line i w c r K Hc R) as Kl.
        assert (conns wl !! i = Some (h_conn r)) as Hcl by (cbn; now rewrite lookup_insert).
        destruct (teardown i wl) as [wx|] eqn:Ht; [|discriminate]. cbn [rbind] in H1. injection H1 as <- _ _.
        eapply mxsz_trans; [exact M|]. exact (teardown_mxsz i wl _ wx Kl Hcl Ht).
      * injection H1 as <- _ _. exact M.
    + (* the registration: nothing is killed in this step, the population is the old one plus one *)
      rewrite Hq in H1. injection H1 as <- _ _. cbn [sh] in *.
      rewrite deliver_nil in H2.
      * injection H2 as <- _ _. cbn [sh]. unfold hw in *. cbn [sh]. rewrite Hmx, Hus. rewrite map_size_insert_None by exact Hfree. split; lia.
      * cbn [sh]. intros n u0 Hu0. rewrite Hus in Hu0. destruct (decide (n = nick)) as [->|N1].
        -- rewrite lookup_insert in Hu0. injection Hu0 as <-.
           destruct (process_line_ok cfg verify i (sh w) c l (ik_s w K) (ik_cu w K i c Hc) (ik_st w K i c Hc)) as [r' [Hr' R]].
           rewrite Hr in Hr'. injection Hr' as <-. unfold line_result in R. rewrite A in R.
           destruct R as [[E _]|[nick' [u' [_ [_ [_ [Hfree' [Hus' [_ [Hk _]]]]]]]]]].
           ++ exfalso. rewrite E in Hus. assert (<[nick := u]> (users (sh w)) !! nick = users (sh w) !! nick) as E2 by now rewrite <- Hus.
              rewrite lookup_insert, Hfree in E2. discriminate.
           ++ rewrite Hus in Hus'. assert (<[nick := u]> (users (sh w)) !! nick' = <[nick' := u']> (users (sh w)) !! nick') as E2 by now rewrite Hus'.
              rewrite lookup_insert in E2. destruct (decide (nick' = nick)) as [->|N2].
              ** rewrite lookup_insert in E2. congruence.
              ** rewrite lookup_insert_ne, Hfree' in E2 by congruence. discriminate.
        -- rewrite lookup_insert_ne in Hu0 by congruence. eapply (iw_nk w I); eauto.
  - destruct (conns w !! i) as [c|] eqn:Hc; [|apply Fin; injection H1 as <- _ _; apply mxsz_refl]. apply Fin. eapply TD; eauto.
  - destruct (conns w !! i) as [c|] eqn:Hc; [|apply Fin; injection H1 as <- _ _; apply mxsz_refl]. apply Fin. eapply TD; eauto.
  - destruct (conns w !! i) as [c|] eqn:Hc; [|apply Fin; injection H1 as <- _ _; apply mxsz_refl]. apply Fin. eapply TD; eauto.
  - destruct (conns w !! i) as [c|] eqn:Hc; apply Fin; injection H1 as <- _ _; apply mxsz_refl.
  - destruct (conns w !! i) as [c|] eqn:Hc; [|apply Fin; injection H1 as <- _ _; apply mxsz_refl]. apply Fin. eapply TD; eauto.
Qed.

Lemma hw_init : hw (world_init cfg).
Proof. unfold hw. cbn. rewrite map_size_empty. lia. Qed.

Theorem reachable_hw w : reachable cfg verify w -> hw w.
Proof.
  intros [evs [outs H]]. revert H. generalize (Inv_init cfg) hw_init. generalize (world_init cfg). revert outs.
  induction evs as [|[i e] evs IH]; intros outs w0 I0 H0 H; cbn [run] in H.
  - injection H as <- _. exact H0.
  - destruct (step cfg verify w0 i e) as [[[w1 o] cl]|] eqn:Hs; [|discriminate]. cbn [rbind] in H.
    destruct (run cfg verify w1 evs) as [[w2 rest]|] eqn:Hr; [|discriminate]. cbn [rbind] in H. injection H as <- _.
    destruct (step_high_water w0 i e w1 o cl I0 H0 Hs) as [H1 _].
    destruct (step_frame cfg verify w0 i e w1 o cl I0 Hs) as [I1 _]. eapply IH; eauto.
Qed.

End hw.
