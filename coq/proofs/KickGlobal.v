(* KickGlobal.v - nobody is removed from a channel by KICK except by rank.  A KICK line of a registered connection, as a
   whole step: a user who was on the channel before and is connected but not on it afterwards was named in the line, the
   sender was a member holding half-operator rank or above, and the sender's rank may remove the victim's ([kickable]:
   not founder, not protected, and not half-operator-or-above when the sender is a mere half-operator). *)
From IRC Require Import Str Wild Glob Mask Parse Reply State Handlers Step.
From IRCP Require Import StrP ChanP InvDefs InvPrims InvNick InvHandlers InvStep Reach NickP OperP ModesFrame RankP
  MembersFrame MembersGlobal ConnFrame.
From stdpp Require Import gmap.
Open Scope N_scope.

Local Arguments lit : simpl never.

(* a set loses the channel only for a nick of the list *)
Definition mk (L : list str) (ch : str) : mrel := fun n a b => b = a \/ (n ∈ L /\ b = a ∖ {[ch]}).

Lemma mk_refl L ch : mrefl (mk L ch). Proof. intros n a. now left. Qed.
Lemma mk_trans L ch : mtrans (mk L ch).
Proof.
  intros n a b c [->|[H1 ->]] [->|[H2 ->]]; [now left|right; auto|right; auto|right]. split; [exact H1|]. set_solver.
Qed.

Lemma rfold_remove_mk L ch : forall l s s', (forall v, v ∈ l -> v ∈ L) ->
  rfold (fun s v => st_remove_user_from_channel ch v s) l s = Ok s' -> mchg (mk L ch) s s'.
Proof.
  induction l as [|v l IH]; intros s s' Hl; cbn [rfold].
  - intros [= <-]. apply mchg_refl, mk_refl.
  - destruct (st_remove_user_from_channel ch v s) as [s1|] eqn:E; cbn [rbind]; [|discriminate]. intros H.
    eapply mchg_trans; [apply mk_trans| |eapply IH; [|exact H]].
    + eapply (remove_from_channel_mchg (mk L ch) ch v); [apply mk_refl| |exact E].
      intros a. right. split; [apply Hl; left|reflexivity].
    + intros x Hx. apply Hl. now right.
Qed.

Section global.
Context (cfg : config) (verify : str -> str -> bool).

(* a line whose handler neither quits nor marks anybody for KILL, as a whole step: the world afterwards is the handler's *)
Lemma plain_line_step w i l c r w' o cl : Inv w -> step cfg verify w i (EvLine l) = Ok (w', o, cl) ->
  conns w !! i = Some c -> process_line cfg verify i (sh w) c l = Ok r -> h_quit r = false -> keeps (sh w) (h_sh r) ->
  sh w' = h_sh r /\ conns w' = <[i := h_conn r]> (conns w).
Proof.
  intros I H Hc Hr Q [Kp _]. unfold step in H. cbn [step_raw] in H. rewrite Hc, Hr in H. cbn [rbind] in H. rewrite Q in H. cbn [rbind] in H.
  rewrite deliver_nil in H.
  - cbn [rbind] in H. injection H as <- _ _. auto.
  - cbn [sh]. intros n u0 Hu0. destruct (Kp n u0 Hu0) as [u1 [Hu1 [_ [_ Hk]]]]. rewrite Hk. eapply (iw_nk w I); eauto.
Qed.

Theorem kicked_only_by_rank w i l msg ch vs comment c w' o cl n u' n0 u : Inv w -> step cfg verify w i (EvLine l) = Ok (w', o, cl) ->
  conns w !! i = Some c -> c_auth c = true -> tokenize l = inl msg -> command_of_message msg = inl (KICK ch vs comment) ->
  users (sh w') !! n = Some u' -> users (sh w) !! n0 = Some u -> u_conn u = u_conn u' ->
  ch ∈ u_chans u -> ch ∉ u_chans u' ->
  n = n0 /\ n ∈ vs /\
  exists kicker co r vr, c_nick c = Some kicker /\ chans (sh w) !! ch = Some co /\ ch_users co !! kicker = Some r /\
    rk_is_half_operator r = true /\ ch_users co !! n = Some vr /\ kickable r vr = true.
Proof.
  intros I H Hc A Ht Hcmd Hu' Hu Ho Hin Hnin. pose proof (InvK_of_Inv w I) as K.
  destruct (own_user i (sh w) c (ik_cu w K i c Hc) A) as [kicker [uk [Hn [Huk [Hcu [Hon Hg]]]]]].
  assert (process_line cfg verify i (sh w) c l = process_kick cfg i (sh w) c ch vs comment) as El.
  { unfold process_line. rewrite Ht, Hcmd, A. reflexivity. }
  destruct (process_line cfg verify i (sh w) c l) as [r|] eqn:Hr.
  2:{ exfalso. unfold step in H. cbn [step_raw] in H. rewrite Hc, Hr in H. discriminate H. }
  symmetry in El.
  destruct (process_kick_state cfg i (sh w) c ch vs comment r kicker Hn El) as [Hf [_ Q]].
  pose proof (kick_keeps cfg i (sh w) c ch vs comment r El) as Kp.
  destruct (plain_line_step w i l c r w' o cl I H Hc Hr Q Kp) as [Es _].
  set (L := (kick_decide (sh w) kicker (client_name c) ch vs).1) in *.
  pose proof (rfold_remove_mk L ch L (sh w) (h_sh r) (fun v Hv => Hv) Hf) as M.
  rewrite Es in Hu'. destruct (M n u' Hu') as [ub [Hub [Hcb P]]].
  assert (n = n0) as <-.
  { eapply (owner_inj w n ub n0 u K); eauto. congruence. }
  assert (ub = u) as -> by congruence.
  split; [reflexivity|].
  destruct P as [E|[HL E]]; [rewrite E in Hnin; contradiction|].
  pose proof (kick_decide_spec (sh w) kicker (client_name c) ch vs) as Sp. cbn zeta in Sp. fold L in Sp.
  destruct (chans (sh w) !! ch) as [co|] eqn:Hco.
  2:{ exfalso. unfold L in HL. rewrite Sp in HL. cbn in HL. inversion HL. }
  destruct (ch_users co !! kicker) as [rk|] eqn:Hrk.
  2:{ exfalso. unfold L in HL. rewrite Sp in HL. cbn in HL. inversion HL. }
  destruct (rk_is_half_operator rk) eqn:Hh.
  2:{ exfalso. unfold L in HL. rewrite Sp in HL. cbn in HL. inversion HL. }
  destruct Sp as [_ Sp]. apply Sp in HL as [Hv [vr [Hvr Hk]]].
  split; [exact Hv|]. exists kicker, co, rk, vr. repeat split; assumption.
Qed.

(* a KICK line that selects nobody (absent channel, sender not on it, sender below half-operator, no named member its rank may
   remove), as a whole step: the state is unchanged, nobody is closed, only the sender hears anything *)
Theorem kick_refused_step w i l msg ch vs comment c nick w' o cl : Inv w -> step cfg verify w i (EvLine l) = Ok (w', o, cl) ->
  conns w !! i = Some c -> c_auth c = true -> c_nick c = Some nick -> tokenize l = inl msg ->
  command_of_message msg = inl (KICK ch vs comment) -> (kick_decide (sh w) nick (client_name c) ch vs).1 = [] ->
  sh w' = sh w /\ conns w' = conns w /\ Forall (fun x => x.1 = i) o.
Proof.
  intros I H Hc A Hn Ht Hcmd Hd.
  assert (process_line cfg verify i (sh w) c l = process_kick cfg i (sh w) c ch vs comment) as El.
  { unfold process_line. rewrite Ht, Hcmd, A. reflexivity. }
  destruct (process_line cfg verify i (sh w) c l) as [r|] eqn:Hr.
  2:{ exfalso. unfold step in H. cbn [step_raw] in H. rewrite Hc, Hr in H. discriminate H. }
  symmetry in El.
  destruct (process_kick_nobody cfg i (sh w) c ch vs comment r nick Hn Hd El) as [Es [Ec Ho]].
  destruct (process_kick_state cfg i (sh w) c ch vs comment r nick Hn El) as [_ [_ Q]].
  assert (keeps (sh w) (h_sh r)) as Kp by (rewrite Es; apply keeps_refl).
  destruct (plain_line_step w i l c r w' o cl I H Hc Hr Q Kp) as [E1 E2].
  split; [congruence|]. split; [rewrite E2, Ec; apply insert_id; exact Hc|].
  (* the step's output is the handler's: nothing is delivered for a KILL either *)
  unfold step in H. cbn [step_raw] in H. rewrite Hc, Hr in H. cbn [rbind] in H. rewrite Q in H. cbn [rbind] in H.
  rewrite deliver_nil in H.
  - cbn [rbind] in H. injection H as _ Eo _. rewrite <- Eo, app_nil_r. exact Ho.
  - cbn [sh]. intros n u0 Hu0. destruct Kp as [Kp _]. destruct (Kp n u0 Hu0) as [u1 [Hu1 [_ [_ Hk]]]]. rewrite Hk. eapply (iw_nk w I); eauto.
Qed.

(* every event: a user who stays connected leaves a channel only by its own PART line or by a KICK line whose sender holds the
   rank the removal needs *)
Theorem removed_only_by_part_or_ranked_kick w i e w' o cl n u' n0 u ch : Inv w -> step cfg verify w i e = Ok (w', o, cl) ->
  users (sh w') !! n = Some u' -> users (sh w) !! n0 = Some u -> u_conn u = u_conn u' ->
  ch ∈ u_chans u -> ch ∉ u_chans u' ->
  exists c l msg, conns w !! i = Some c /\ c_auth c = true /\ e = EvLine l /\ tokenize l = inl msg /\
    ((u_conn u' = i /\ exists chs reason, command_of_message msg = inl (PART chs reason)) \/
     (exists vs comment, command_of_message msg = inl (KICK ch vs comment) /\ n = n0 /\ n ∈ vs /\
        exists kicker co r vr, c_nick c = Some kicker /\ chans (sh w) !! ch = Some co /\ ch_users co !! kicker = Some r /\
          rk_is_half_operator r = true /\ ch_users co !! n = Some vr /\ kickable r vr = true)).
Proof.
  intros I H Hu' Hu Ho Hin Hnin.
  destruct (membership_lost_only_by_part_or_kick cfg verify w i e w' o cl n u' n0 u ch I H Hu' Hu Ho Hin Hnin)
    as [c [l [msg [Hc [A [-> [Ht [[Hi P]|[vs [comment Hk]]]]]]]]]]; exists c, l, msg; repeat (split; [assumption || reflexivity|]).
  - left. auto.
  - right. exists vs, comment. split; [exact Hk|].
    destruct (kicked_only_by_rank w i l msg ch vs comment c w' o cl n u' n0 u I H Hc A Ht Hk Hu' Hu Ho Hin Hnin) as [E [Hv R]]. auto.
Qed.

End global.
