(* PreconfP.v - channels declared in the configuration persist: a channel marked preconfigured is never
   removed, keeps the mark and keeps its configured rank lists (ch_default) - through every command, every way
   a session ends, every event; hence in every reachable world each configured channel exists with the rank
   lists of the configuration, which is what a joiner's ranks are read from (C16_configured_ranks_on_join). *)
From IRC Require Import Str Wild Glob Mask Parse Reply State Handlers Step.
From IRCP Require Import StrP ChanP InvDefs InvPrims InvNick InvHandlers InvStep Reach NickP OperP ModesFrame ModeP SettingsFrame SettingsGlobal.
From stdpp Require Import gmap.
Open Scope N_scope.

Local Arguments lit : simpl never.

Definition pmark (co : chan) := (ch_preconf co, ch_default co).

Definition pkeeps (s s' : shared) : Prop :=
  forall ch co, chans s !! ch = Some co -> ch_preconf co = true ->
    exists co', chans s' !! ch = Some co' /\ ch_preconf co' = true /\ ch_default co' = ch_default co.

Lemma pkeeps_refl s : pkeeps s s. Proof. intros ch co H P. eauto. Qed.
Lemma pkeeps_trans s1 s2 s3 : pkeeps s1 s2 -> pkeeps s2 s3 -> pkeeps s1 s3.
Proof.
  intros A B ch c1 H1 P1. destruct (A ch c1 H1 P1) as [c2 [H2 [P2 D2]]]. destruct (B ch c2 H2 P2) as [c3 [H3 [P3 D3]]].
  exists c3. split; [exact H3|]. split; [exact P3|congruence].
Qed.
Lemma pkeeps_chans_eq s s' : chans s' = chans s -> pkeeps s s'.
Proof. intros E ch co H P. rewrite E. eauto. Qed.

Lemma rfold_pkeeps {A} (f : shared -> A -> res shared) l :
  (forall s x s', f s x = Ok s' -> pkeeps s s') -> forall s s', rfold f l s = Ok s' -> pkeeps s s'.
Proof.
  intros Hf. induction l as [|x l IH]; intros s s'; cbn [rfold].
  - intros [= <-]. apply pkeeps_refl.
  - destruct (f s x) as [s1|] eqn:E; cbn [rbind]; [|discriminate]. intros H.
    eapply pkeeps_trans; [eapply Hf; eauto|eapply IH; eauto].
Qed.

(* ---------------------------------------------------------------- the channel primitives *)
Lemma chan_set_rank_mark l b nick co co' : chan_set_rank l b nick co = Ok co' -> pmark co' = pmark co.
Proof. unfold chan_set_rank. destruct (ch_users co !! nick); [|discriminate]. intros [= <-]. reflexivity. Qed.

Lemma chan_remove_user_mark nick co co' : chan_remove_user nick co = Ok co' -> pmark co' = pmark co.
Proof.
  unfold chan_remove_user.
  assert (forall ls c0 c1, rfold (fun c l => chan_set_rank l false nick c) ls c0 = Ok c1 -> pmark c1 = pmark c0) as G.
  { induction ls as [|l ls IH]; intros c0 c1; cbn [rfold]; [intros [= <-]; reflexivity|].
    destruct (chan_set_rank l false nick c0) as [c2|] eqn:E; cbn [rbind]; [|discriminate]. intros H.
    rewrite (IH _ _ H). eapply chan_set_rank_mark; eauto. }
  destruct (rfold _ all_rankletters co) as [c1|] eqn:E; cbn [rbind]; [|discriminate]. intros [= <-].
  rewrite <- (G _ _ _ E). reflexivity.
Qed.

Lemma chan_add_user_mark nick co : pmark (chan_add_user nick co) = pmark co.
Proof.
  unfold chan_add_user.
  match goal with |- context [fold_left ?F ?L ?A] => destruct (fold_left F L A) as [m r] end. reflexivity.
Qed.

Lemma mark_split co co' : pmark co' = pmark co -> ch_preconf co' = ch_preconf co /\ ch_default co' = ch_default co.
Proof. unfold pmark. intros [= A B]. auto. Qed.

Lemma remove_from_channel_pkeeps ch nick s s' : st_remove_user_from_channel ch nick s = Ok s' -> pkeeps s s'.
Proof.
  unfold st_remove_user_from_channel.
  assert (forall s1, pkeeps s s1 ->
            match users s1 !! nick with
            | Some u => Ok (set_users (fun us => <[nick := u_set_chans (fun cs => cs ∖ {[ch]}) u]> us) s1)
            | None => Ok s1
            end = Ok s' -> pkeeps s s') as K.
  { intros s1 S1. destruct (users s1 !! nick); intros [= <-]; [|exact S1].
    intros c0 co H P. destruct (S1 c0 co H P) as [co' H']. exists co'. exact H'. }
  destruct (chans s !! ch) as [co|] eqn:Hco; cbn [rbind]; [|apply K, pkeeps_refl].
  destruct (chan_remove_user nick co) as [co1|] eqn:E; cbn [rbind]; [|discriminate].
  destruct (mark_split _ _ (chan_remove_user_mark nick co co1 E)) as [M1 M2].
  destruct (Nat.eqb (size (ch_users co1)) 0 && negb (ch_preconf co1)) eqn:Eb; cbn [rbind]; apply K.
  - intros c0 c1 H P. cbn. destruct (decide (c0 = ch)) as [->|N1].
    + exfalso. assert (c1 = co) as -> by congruence. rewrite M1, P in Eb. cbn in Eb. now rewrite andb_false_r in Eb.
    + rewrite lookup_delete_ne by congruence. eauto.
  - intros c0 c1 H P. cbn. destruct (decide (c0 = ch)) as [->|N1].
    + rewrite lookup_insert. assert (c1 = co) as -> by congruence. exists co1. split; [reflexivity|]. split; congruence.
    + rewrite lookup_insert_ne by congruence. eauto.
Qed.

Lemma st_remove_user_pkeeps nick s s' : st_remove_user nick s = Ok s' -> pkeeps s s'.
Proof.
  unfold st_remove_user. destruct (users s !! nick) as [u|]; [|intros [= <-]; apply pkeeps_refl].
  set (s0 := set_users (delete nick) s).
  destruct (if is_local_oper (u_modes u) then _ else Ok s0) as [s1|] eqn:E1; cbn [rbind]; [|discriminate].
  assert (chans s1 = chans s) as C1.
  { destruct (is_local_oper (u_modes u)); [|injection E1 as <-; reflexivity].
    destruct (dec_counter (op_count s0)); cbn [rbind] in E1; [|discriminate]. injection E1 as <-. reflexivity. }
  destruct (if um_invisible (u_modes u) then _ else Ok s1) as [s2|] eqn:E2; cbn [rbind]; [|discriminate].
  assert (chans s2 = chans s) as C2.
  { destruct (um_invisible (u_modes u)); [|injection E2 as <-; exact C1].
    destruct (dec_counter (inv_count s1)); cbn [rbind] in E2; [|discriminate]. injection E2 as <-. exact C1. }
  destruct (rfold _ (elements (u_chans u)) _) as [s4|] eqn:E4; cbn [rbind]; [|discriminate]. intros [= <-].
  eapply pkeeps_trans; [apply (pkeeps_chans_eq s (set_wallops (fun w => w ∖ {[nick]}) s2)); exact C2|].
  eapply pkeeps_trans; [eapply rfold_pkeeps; [|exact E4]; intros sa x sb H; cbn beta in H; eapply remove_from_channel_pkeeps; exact H|].
  apply pkeeps_chans_eq. reflexivity.
Qed.

Section frame.
Context (cfg : config) (verify : str -> str -> bool).

Lemma teardown_pkeeps i w w' : teardown i w = Ok w' -> pkeeps (sh w) (sh w').
Proof.
  unfold teardown. destruct (conns w !! i) as [c|]; [|intros [= <-]; apply pkeeps_refl].
  destruct (if c_auth c then _ else Ok (sh w)) as [s'|] eqn:E; cbn [rbind]; [|discriminate].
  destruct (dec_counter (nconns w)); cbn [rbind]; [|discriminate]. intros [= <-]. cbn [sh].
  destruct (c_auth c); [|injection E as <-; apply pkeeps_refl].
  destruct (c_nick c) as [n|]; [|injection E as <-; apply pkeeps_refl]. eapply st_remove_user_pkeeps; eauto.
Qed.

Lemma deliver_kills_pkeeps w w' o cl : deliver_kills cfg w = Ok (w', o, cl) -> pkeeps (sh w) (sh w').
Proof.
  unfold deliver_kills.
  match goal with |- rfold ?F ?L ?A = _ -> _ => set (F0 := F); generalize L end. intros l.
  assert (forall l wa oa ca wb ob cb, rfold F0 l (wa, oa, ca) = Ok (wb, ob, cb) -> pkeeps (sh wa) (sh wb)) as G.
  { clear. induction l as [|[[j k] cm] l IH]; intros wa oa ca wb ob cb; cbn [rfold]; [intros [= <- _ _]; apply pkeeps_refl|].
    unfold F0 at 1. destruct (teardown j wa) as [w1|] eqn:E; cbn [rbind]; [|discriminate]. intros H.
    eapply pkeeps_trans; [eapply teardown_pkeeps; eauto|eapply IH; eauto]. }
  apply G.
Qed.

Lemma join_insert_mark nick s x s' ch0 co :
  chans s !! ch0 = Some co -> (forall j, x <> (ch0, (j, true))) -> join_insert nick s x = Ok s' ->
  exists co', chans s' !! ch0 = Some co' /\ pmark co' = pmark co.
Proof.
  intros Hco Hx. destruct x as [ch [j cr]]. unfold join_insert. destruct (negb j); [intros [= <-]; eauto|].
  destruct (get_user s nick) as [u|]; cbn [rbind]; [|discriminate]. destruct cr.
  - intros [= <-]. cbn. destruct (decide (ch0 = ch)) as [->|N1]; [exfalso; eapply Hx; reflexivity|].
    rewrite lookup_insert_ne by congruence. eauto.
  - unfold get_chan. cbn [chans set_users]. destruct (chans s !! ch) as [c1|] eqn:H1; cbn [rbind]; [|discriminate].
    intros [= <-]. cbn. destruct (decide (ch0 = ch)) as [->|N1].
    + rewrite lookup_insert. eexists. split; [reflexivity|]. rewrite chan_add_user_mark. congruence.
    + rewrite lookup_insert_ne by congruence. eauto.
Qed.

Lemma join_pkeeps i s c chs0 keys r : process_join cfg i s c chs0 keys = Ok r -> pkeeps s (h_sh r).
Proof.
  unfold process_join. destruct (own_nick c) as [nick|]; cbn [rbind]; [|discriminate].
  destruct (get_user s nick) as [u|]; cbn [rbind]; [|discriminate].
  destruct (join_phase1 _ _ _ _ _ _ _ _ _ _ _) as [[[plan o1] q]|] eqn:Ep; cbn [rbind]; [|discriminate].
  destruct (rfold (join_insert nick) plan s) as [s'|] eqn:E; cbn [rbind]; [|discriminate].
  match goal with |- context [rfold ?G plan []] => destruct (rfold G plan []) as [o2|] end; cbn [rbind]; [|discriminate].
  intros [= <-]. cbn [h_sh]. intros ch0 co Hco P.
  assert (forall j, (ch0, (j, true)) ∉ plan) as Hnc.
  { intros j Hin. pose proof (phase1_create_absent cfg s c u nick (client_name c) keys chs0 _ _ _ _ _ _ Ep ch0 j Hin). congruence. }
  clear Ep. assert (exists co', chans s' !! ch0 = Some co' /\ pmark co' = pmark co) as [co' [H' M']].
  { revert s co Hco P E. induction plan as [|x plan IH]; intros s co Hco P; cbn [rfold].
    - intros [= <-]. eauto.
    - destruct (join_insert nick s x) as [s1|] eqn:E1; cbn [rbind]; [|discriminate]. intros E.
      destruct (join_insert_mark nick s x s1 ch0 co Hco) as [c1 [H1 S1]]; [|exact E1|].
      { intros j ->. apply (Hnc j). left. }
      destruct (mark_split _ _ S1) as [Sa Sb].
      destruct (IH (fun j Hin => Hnc j (elem_of_list_further _ _ _ Hin)) s1 c1 H1 ltac:(congruence) E) as [c2 [H2 S2]].
      exists c2. split; [exact H2|congruence]. }
  destruct (mark_split _ _ M') as [Ma Mb]. exists co'. split; [exact H'|]. split; congruence.
Qed.

Lemma part_pkeeps i s c chs0 reason r : process_part cfg i s c chs0 reason = Ok r -> pkeeps s (h_sh r).
Proof.
  unfold process_part. destruct (own_nick c) as [nick|]; cbn [rbind]; [|discriminate].
  match goal with |- context [rfold ?F chs0 (s, [])] => set (F0 := F) end.
  assert (forall l s0 o0 s1 o1, rfold F0 l (s0, o0) = Ok (s1, o1) -> pkeeps s0 s1) as G.
  { induction l as [|ch l IH]; intros s0 o0 s1 o1; cbn [rfold]; [intros [= <- _]; apply pkeeps_refl|].
    unfold F0 at 1. destruct (chans s0 !! ch) as [co|]; [|cbn [rbind]; apply IH].
    destruct (bool_decide _); [|cbn [rbind]; apply IH].
    destruct (send_all _ _ _); cbn [rbind]; [|discriminate].
    destruct (st_remove_user_from_channel ch nick s0) as [s2|] eqn:E; cbn [rbind]; [|discriminate].
    intros H. eapply pkeeps_trans; [eapply remove_from_channel_pkeeps; eauto|eapply IH; eauto]. }
  destruct (rfold F0 chs0 (s, [])) as [[s' o]|] eqn:E; cbn [rbind]; [|discriminate].
  destruct (get_user s' nick); cbn [rbind]; [|discriminate]. intros [= <-]. cbn [h_sh]. eapply G; eauto.
Qed.

Lemma kick_pkeeps i s c ch victims comment r : process_kick cfg i s c ch victims comment = Ok r -> pkeeps s (h_sh r).
Proof.
  unfold process_kick. destruct (own_nick c) as [nick|]; cbn [rbind]; [|discriminate].
  destruct (kick_decide s nick (client_name c) ch victims) as [kicked o1].
  destruct (rfold (fun s v => st_remove_user_from_channel ch v s) kicked s) as [s'|] eqn:E; cbn [rbind]; [|discriminate].
  match goal with |- context [rfold ?G kicked []] => destruct (rfold G kicked []) end; cbn [rbind]; [|discriminate]. intros [= <-]. cbn [h_sh].
  eapply rfold_pkeeps; [|exact E]. intros s0 x s1 H; cbn beta in H. eapply remove_from_channel_pkeeps; exact H.
Qed.

Lemma topic_pkeeps i s c ch topic msg r : process_topic cfg i s c ch topic msg = Ok r -> pkeeps s (h_sh r).
Proof.
  assert (forall o, Ok {| h_sh := s; h_conn := c; h_out := o; h_quit := false |} = Ok r -> pkeeps s (h_sh r)) as Same.
  { intros o [= <-]. apply pkeeps_refl. }
  unfold process_topic. destruct (own_nick c) as [nick|]; cbn [rbind]; [|discriminate].
  destruct topic as [t|].
  - destruct (chans s !! ch) as [co|] eqn:Hco; [|apply Same].
    destruct (ch_users co !! nick) as [rk|]; [|apply Same].
    destruct (topic_allowed co rk); [|apply Same].
    destruct (send_all _ _ _); cbn [rbind]; [|discriminate]. intros [= <-]. cbn [h_sh].
    intros c0 c1 H1 P. cbn. destruct (decide (c0 = ch)) as [->|N1].
    + rewrite lookup_insert. assert (c1 = co) as -> by congruence. eexists. split; [reflexivity|]. cbn. auto.
    + rewrite lookup_insert_ne by congruence. eauto.
  - destruct (chans s !! ch) as [co|]; [|apply Same].
    destruct (bool_decide _); [|apply Same]. destruct (ch_topic co) as [[t w]|]; apply Same.
Qed.

Lemma mode_channel_pkeeps i s c target nick co rk modes r : chans s !! target = Some co ->
  process_mode_channel cfg i s c target nick co rk modes = Ok r -> pkeeps s (h_sh r).
Proof.
  intros Hco. unfold process_mode_channel. destruct modes as [|m0 ms]; [cbn; intros [= <-]; apply pkeeps_refl|]. cbn [is_empty].
  match goal with |- (let! m := ?x in _) = _ -> _ => destruct x as [m|] eqn:Hf end; cbn [rbind]; [|discriminate].
  match goal with |- (let! ann := ?x in _) = _ -> _ => destruct x as [ann|] end; cbn [rbind]; [|discriminate].
  intros [= <-]. cbn [h_sh].
  assert (forall l m0 m1, rfold (fun m '(mchars, margs) => mode_chars c (client_name c) target nick rk mchars false margs m) l m0 = Ok m1 ->
            ch_preconf (ms_chan m1) = ch_preconf (ms_chan m0) /\ ch_default (ms_chan m1) = ch_default (ms_chan m0)) as Hgen.
  { induction l as [|[mc ma] l IH]; intros ma0 ma1; cbn [rfold].
    - intros [= <-]. auto.
    - destruct (mode_chars _ _ _ _ _ mc false ma ma0) as [m2|] eqn:H2; cbn [rbind]; [|discriminate].
      intros H. apply IH in H as [A B]. apply mode_chars_frame in H2 as [_ [_ [C2 D2]]]. split; congruence. }
  apply Hgen in Hf. cbn in Hf. destruct Hf as [A B].
  intros c0 c1 H1 P. cbn. destruct (decide (c0 = target)) as [->|N1].
  - rewrite lookup_insert. assert (c1 = co) as -> by congruence. eexists. split; [reflexivity|]. split; congruence.
  - rewrite lookup_insert_ne by congruence. eauto.
Qed.

(* every command of a registered connection *)
Theorem dispatch_pkeeps i s c cmd msg r :
  InvS s -> conn_ok i s c -> c_auth c = true ->
  dispatch cfg verify i s c cmd msg = Ok r -> pkeeps s (h_sh r).
Proof.
  intros I C A H.
  assert (forall r0, same_result s c r0 -> pkeeps s (h_sh r0)) as Same.
  { intros r0 [E _]. rewrite E. apply pkeeps_refl. }
  assert (forall (P : res hres), (exists r0, P = Ok r0 /\ same_result s c r0) -> P = Ok r -> pkeeps s (h_sh r)) as S2.
  { intros P [r0 [-> Hs]] [= <-]. now apply Same. }
  assert (forall o, Ok {| h_sh := s; h_conn := c; h_out := o; h_quit := false |} = Ok r -> pkeeps s (h_sh r)) as S3.
  { intros o [= <-]. apply pkeeps_refl. }
  assert (forall s1, chans s1 = chans s -> pkeeps s s1) as SC by (intros s1 E; now apply pkeeps_chans_eq).
  destruct (own_user i s c C A) as [nick [u [Hn [Hu [Hc [Ho Hg]]]]]].
  destruct cmd; cbn [dispatch] in H.
  - (* CAP *) unfold process_cap in H. destruct sub.
    + injection H as <-. apply SC. reflexivity.
    + injection H as <-. apply SC. reflexivity.
    + destruct caps as [cs|]; [destruct (forallb _ cs)|]; injection H as <-; apply SC; reflexivity.
    + rewrite A in H. injection H as <-. apply SC. reflexivity.
  - injection H as <-. apply SC. reflexivity.
  - unfold process_pass in H. rewrite A in H. injection H as <-. apply SC. reflexivity.
  - (* NICK: channels are renamed in place *)
    destruct (decide (nickname = nick)) as [->|Hne].
    { rewrite (process_nick_same cfg verify i s c msg nick A Hn) in H. injection H as <-. apply SC. reflexivity. }
    destruct (users s !! nickname) as [x|] eqn:Hx.
    { rewrite (process_nick_refused cfg verify i s c nickname msg nick x A Hn Hne Hx) in H. injection H as <-. apply SC. reflexivity. }
    destruct (process_nick_effect cfg verify i s c nickname msg nick u I A Hn Hu Hne Hx) as [r0 [Hr [_ [_ [_ [Hch _]]]]]].
    rewrite Hr in H. injection H as <-. intros ch co H1 P. rewrite Hch, H1.
    destruct (bool_decide _); cbn; eexists; (split; [reflexivity|]); cbn; auto.
  - unfold process_user in H. rewrite A in H. injection H as <-. apply SC. reflexivity.
  - injection H as <-. apply SC. reflexivity.
  - injection H as <-. apply SC. reflexivity.
  - (* OPER *)
    destruct (oper_spec cfg verify i s c name password nick u Hn Hu) as [r0 [Hr [_ [_ Hacc]]]].
    rewrite Hr in H. injection H as <-. destruct (oper_accepted cfg verify c name password).
    + destruct Hacc as [_ [Hch _]]. now apply SC.
    + destruct Hacc as [E _]. rewrite E. apply SC. reflexivity.
  - (* QUIT *) injection H as <-. apply SC. reflexivity.
  - eapply join_pkeeps; eauto.
  - eapply part_pkeeps; eauto.
  - eapply topic_pkeeps; eauto.
  - eapply S2; [|exact H]. now apply process_names_ok.
  - unfold process_list in H. destruct server; eapply S3; exact H.
  - apply SC. eapply chans_same_invite; eauto.
  - eapply kick_pkeeps; eauto.
  - unfold process_motd in H. destruct target; eapply S3; exact H.
  - unfold process_version in H. destruct target; eapply S3; exact H.
  - unfold process_admin in H. destruct target; eapply S3; exact H.
  - eapply S3; exact H.
  - unfold process_lusers in H. destruct (lusers_lines s (client_name c)); cbn [rbind] in H; [|discriminate]. eapply S3; exact H.
  - unfold process_time in H. destruct server; eapply S3; exact H.
  - unfold process_stats in H. destruct server; [eapply S3; exact H|].
    rewrite Ho in H. cbn [rbind] in H. rewrite Hg in H. cbn [rbind] in H. destruct (is_local_oper _); eapply S3; exact H.
  - unfold process_links in H. destruct remote_server, server_mask; eapply S3; exact H.
  - unfold process_help in H. destruct (help_topic _); eapply S3; exact H.
  - eapply S3; exact H.
  - (* MODE *)
    unfold process_mode in H. rewrite Ho in H. cbn [rbind] in H. destruct (validate_channel target).
    + destruct (chans s !! target) as [co|] eqn:Hco; [|eapply S3; exact H].
      destruct (ch_users co !! nick) as [rk|]; [|eapply S3; exact H].
      eapply mode_channel_pkeeps; eauto.
    + destruct (bool_decide (nick = target)).
      * destruct (mode_user_no_grant cfg i s c nick modes r u Hu H) as [m' [_ [Hch _]]]. now apply SC.
      * destruct (users s !! target); eapply S3; exact H.
  - eapply S2; [|exact H]. now apply process_privmsg_ok.
  - eapply S2; [|exact H]. now apply process_privmsg_ok.
  - eapply S2; [|exact H]. now apply process_who_ok.
  - eapply S2; [|exact H]. now apply process_whois_ok.
  - unfold process_whowas in H. destruct server; eapply S3; exact H.
  - apply SC. eapply chans_same_kill; eauto.
  - eapply S3; exact H.
  - eapply S3; exact H.
  - unfold process_squit in H. destruct (bool_decide _); [apply SC; eapply chans_same_die; eauto|eapply S3; exact H].
  - apply SC. eapply chans_same_away; eauto.
  - eapply S3; exact H.
  - eapply S2; [|exact H]. now apply process_wallops_ok.
  - eapply S3; exact H.
  - apply SC. eapply chans_same_die; eauto.
Qed.

Theorem line_pkeeps i s c l r : InvS s -> conn_ok i s c ->
  process_line cfg verify i s c l = Ok r -> pkeeps s (h_sh r).
Proof.
  intros I C H.
  assert (forall o, Ok {| h_sh := s; h_conn := c; h_out := o; h_quit := false |} = Ok r -> pkeeps s (h_sh r)) as Same.
  { intros o [= <-]. apply pkeeps_refl. }
  unfold process_line in H. destruct (tokenize l) as [msg|[| |]] eqn:Ht; try (eapply Same; exact H).
  destruct (command_of_message msg) as [cmd|e] eqn:Hcmd; [|eapply Same; exact H].
  destruct (needs_registration cmd && negb (c_auth c)) eqn:G; [eapply Same; exact H|].
  destruct (c_auth c) eqn:A.
  - eapply dispatch_pkeeps; eauto.
  - cbn in G. rewrite andb_true_r in G. apply pkeeps_chans_eq. eapply unauth_dispatch_chans; eauto.
Qed.

Theorem step_pkeeps w i e w' o cl : Inv w -> step cfg verify w i e = Ok (w', o, cl) -> pkeeps (sh w) (sh w').
Proof.
  intros I H. pose proof (InvK_of_Inv w I) as K. unfold step in H.
  destruct (step_raw cfg verify w i e) as [[[w1 o1] c1]|] eqn:Hr; [|discriminate]. cbn [rbind] in H.
  destruct (deliver_kills cfg w1) as [[[w2 o2] c2]|] eqn:Hk; [|discriminate]. cbn [rbind] in H. injection H as <- _ _.
  eapply pkeeps_trans; [|eapply deliver_kills_pkeeps; eauto]. clear Hk.
  assert (forall (o0 : outl) (cl0 : list nat),
            (let! wx := teardown i w in Ok (wx, o0, cl0)) = Ok (w1, o1, c1) -> pkeeps (sh w) (sh w1)) as TD.
  { intros o0 cl0 E. destruct (teardown i w) as [wx|] eqn:Ht; cbn [rbind] in E; [|discriminate]. injection E as <- _ _.
    eapply teardown_pkeeps; eauto. }
  assert (Ok (w, @nil (nat * str), @nil nat) = Ok (w1, o1, c1) -> pkeeps (sh w) (sh w1)) as Same.
  { intros [= <- _ _]. apply pkeeps_refl. }
  destruct e; cbn [step_raw] in Hr.
  - destruct (conns w !! i); [now apply Same|]. destruct (server_quit (sh w)); [injection Hr as <- _ _; apply pkeeps_refl|].
    destruct (match cfg_max_connections cfg with Some m => N.ltb (nconns w) m | None => true end); injection Hr as <- _ _; apply pkeeps_refl.
  - destruct (conns w !! i) as [c|] eqn:Hc; [|now apply Same].
    destruct (process_line cfg verify i (sh w) c l) as [r|] eqn:Hl; cbn [rbind] in Hr; [|discriminate].
    pose proof (line_pkeeps i (sh w) c l r (ik_s w K) (ik_cu w K i c Hc) Hl) as L.
    destruct (h_quit r).
    + destruct (teardown i _) as [wx|] eqn:Ht; cbn [rbind] in Hr; [|discriminate]. injection Hr as <- _ _.
      eapply pkeeps_trans; [exact L|]. apply (teardown_pkeeps i _ wx Ht).
    + injection Hr as <- _ _. exact L.
  - destruct (conns w !! i) as [c|] eqn:Hc; [|now apply Same]. eapply TD; eauto.
  - destruct (conns w !! i) as [c|] eqn:Hc; [|now apply Same]. eapply TD; eauto.
  - destruct (conns w !! i) as [c|] eqn:Hc; [|now apply Same]. eapply TD; eauto.
  - destruct (conns w !! i) as [c|] eqn:Hc; [|now apply Same]. injection Hr as <- _ _. apply pkeeps_refl.
  - destruct (conns w !! i) as [c|] eqn:Hc; [|now apply Same]. eapply TD; eauto.
Qed.

Lemma run_pkeeps evs : forall w w' outs, Inv w -> conn_bound cfg w -> run cfg verify w evs = Ok (w', outs) -> pkeeps (sh w) (sh w').
Proof.
  induction evs as [|[i e] evs IH]; intros w w' outs I B H; cbn [run] in H.
  - injection H as <- _. apply pkeeps_refl.
  - destruct (step cfg verify w i e) as [[[w1 o] cl]|] eqn:Hs; [|discriminate]. cbn [rbind] in H.
    destruct (step_frame cfg verify w i e w1 o cl I Hs) as [I1 [_ [_ [_ [_ B1]]]]].
    destruct (run cfg verify w1 evs) as [[w2 rest]|] eqn:Hrun; [|discriminate]. cbn [rbind] in H. injection H as <- _.
    eapply pkeeps_trans; [eapply step_pkeeps; eauto|eapply IH; eauto].
Qed.

(* in every reachable world every channel of the configuration exists, is marked preconfigured and carries the rank
   lists the configuration gives it *)
Theorem configured_channels_persist w name cc : reachable cfg verify w ->
  find_last (fun c => str_eqb (cc_name c) name) (cfg_channels cfg) = Some cc ->
  exists co, chans (sh w) !! name = Some co /\ ch_preconf co = true /\ ch_default co = ch_default (chan_of_cfg cc).
Proof.
  intros [evs [outs H]] Hf.
  assert (chans (sh (world_init cfg)) !! name = Some (chan_of_cfg cc)) as H0.
  { cbn [sh world_init]. rewrite shared_init_chans, Hf. reflexivity. }
  destruct (run_pkeeps evs (world_init cfg) w outs (Inv_init cfg) (conn_bound_init cfg) H name (chan_of_cfg cc) H0 eq_refl) as [co [A [B C]]].
  eauto.
Qed.

End frame.
