(* ParseP.v - classification of a tokenised message: unknown verb (421), too few parameters
   (461), or the command named by the verb / a parameter-specific error. *)
From IRC Require Import Str Parse.
From Coq Require Import List Bool NArith Lia.
Import ListNotations.
Open Scope N_scope.

Local Arguments lit : simpl never.

(* the arity table of the statement: minimal number of parameters per verb *)
Definition min_params (v : verb) : nat :=
  match v with
  | VUSER => 4
  | VOPER | VINVITE | VKICK | VPRIVMSG | VNOTICE | VKILL | VSQUIT => 2
  | VCAP | VPASS | VNICK | VPING | VPONG | VJOIN | VPART | VTOPIC | VCONNECT | VSTATS | VMODE
  | VWHO | VWHOIS | VWHOWAS | VUSERHOST | VWALLOPS | VISON => 1
  | _ => 0
  end%nat.

Theorem unknown_verb m :
  verb_of_name (to_ascii_upper (m_command m)) = None ->
  command_of_message m = inr (UnknownCommand (to_ascii_upper (m_command m))).
Proof. intros H. unfold command_of_message, parse_command. now rewrite H. Qed.

Theorem too_few_params m v :
  verb_of_name (to_ascii_upper (m_command m)) = Some v -> (length (m_params m) < min_params v)%nat ->
  command_of_message m = inr (NeedMoreParams v).
Proof.
  intros H Hl. unfold command_of_message, parse_command. rewrite H.
  destruct m as [src cmd ps]. cbn [m_params] in *.
  destruct v; cbn [min_params] in Hl;
    (destruct ps as [|a [|b [|c [|d ps]]]]; cbn [length] in Hl; try lia; reflexivity).
Qed.

(* with enough parameters the answer is never 421 / 461, and an accepted command is the one the verb names *)
Theorem executed_as_named m v c :
  verb_of_name (to_ascii_upper (m_command m)) = Some v ->
  command_of_message m = inl c -> verb_of_command c = v.
Proof.
  intros H. unfold command_of_message. destruct (parse_command m) as [c0|e] eqn:Hp; [|discriminate].
  destruct (validate_command c0); [discriminate|]. intros [= <-].
  unfold parse_command in Hp. rewrite H in Hp. destruct m as [src cmd ps]. cbn [m_params] in *.
  destruct v;
    repeat match type of Hp with
           | inl _ = inl _ => injection Hp as <-; reflexivity
           | inr _ = inl _ => discriminate Hp
           | context [match ?x with _ => _ end] => destruct x
           | context [if ?x then _ else _] => destruct x
           end.
Qed.

(* ---------------------------------------------------------------- the answer to a known verb with enough parameters is specific *)
Definition specific (e : cmd_error) : Prop :=
  match e with UnknownCommand _ | NeedMoreParams _ => False | _ => True end.

Lemma vcm_chars_specific target cs : forall idx set_ args e, vcm_chars target idx cs set_ args = Some e -> specific e.
Proof.
  induction cs as [|c cs IH]; intros idx set_ args e; cbn [vcm_chars]; [discriminate|].
  destruct (classify_mode c); try (apply IH).
  - destruct args as [|a args]; [intros [= <-]; exact I|]. destruct (validate_username_e a); [intros [= <-]; exact I|apply IH].
  - destruct set_.
    + destruct args as [|a args]; [intros [= <-]; exact I|]. destruct (parse_uint usize_max a); [apply IH|intros [= <-]; exact I].
    + destruct args as [|a args]; [apply IH|intros [= <-]; exact I].
  - destruct set_.
    + destruct args as [|a args]; [intros [= <-]; exact I|apply IH].
    + destruct args as [|a args]; [apply IH|intros [= <-]; exact I].
  - intros [= <-]. exact I.
Qed.

Lemma validate_channelmodes_specific target modes : forall idx e, validate_channelmodes target idx modes = Some e -> specific e.
Proof.
  induction modes as [|[ms margs] rest IH]; intros idx e; cbn [validate_channelmodes]; [discriminate|].
  destruct (is_empty ms); [intros [= <-]; exact I|].
  destruct (vcm_chars target idx ms false margs) as [e'|] eqn:E; [intros [= <-]; eapply vcm_chars_specific; eauto|apply IH].
Qed.

Lemma userhost_check_specific l : forall i e, userhost_check i l = Some e -> specific e.
Proof.
  induction l as [|n l IH]; intros i e; cbn [userhost_check]; [discriminate|].
  destruct (validate_username n); [apply IH|intros [= <-]; exact I].
Qed.

Lemma validate_usermodes_specific modes : forall idx e, validate_usermodes idx modes = Some e -> specific e.
Proof.
  induction modes as [|[ms margs] rest IH]; intros idx e; cbn [validate_usermodes]; [discriminate|].
  destruct (is_empty ms); [intros [= <-]; exact I|].
  destruct (negb (forallb is_umode_char ms)); [intros [= <-]; exact I|].
  destruct (negb (is_empty margs)); [intros [= <-]; exact I|apply IH].
Qed.

Lemma validate_specific c e : validate_command c = Some e -> specific e.
Proof.
  destruct c; cbn [validate_command]; try discriminate; unfold first_err;
    repeat match goal with
           | |- Some _ = Some _ -> _ => intros [= <-]; exact I
           | |- None = Some _ -> _ => discriminate
           | |- validate_channelmodes _ _ _ = Some _ -> _ => apply validate_channelmodes_specific
           | |- validate_usermodes _ _ = Some _ -> _ => apply validate_usermodes_specific
           | |- userhost_check _ _ = Some _ -> _ => apply userhost_check_specific
           | |- context [match ?x with _ => _ end] => destruct x
           | |- context [if ?x then _ else _] => destruct x
           end.
Qed.

Theorem enough_params_specific m v e :
  verb_of_name (to_ascii_upper (m_command m)) = Some v -> (min_params v <= length (m_params m))%nat ->
  command_of_message m = inr e -> specific e.
Proof.
  intros H Hl. unfold command_of_message. destruct (parse_command m) as [c0|e0] eqn:Hp.
  - destruct (validate_command c0) as [e1|] eqn:Hv; [|discriminate]. intros [= <-]. eapply validate_specific; eauto.
  - intros [= <-]. unfold parse_command in Hp. rewrite H in Hp. destruct m as [src cmd ps]. cbn [m_params] in *.
    destruct v; cbn [min_params] in Hl;
      (destruct ps as [|a [|b [|c [|d ps]]]]; cbn [length] in Hl; try lia);
      repeat match type of Hp with
             | inr _ = inr _ => injection Hp as <-; exact I
             | inl _ = inr _ => discriminate Hp
             | context [match ?x with _ => _ end] => destruct x
             | context [if ?x then _ else _] => destruct x
             end.
Qed.
