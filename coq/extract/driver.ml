(* driver.ml - runs the extracted Coq model (model.ml) on the same inputs as the Rust harness.
   Hand-written glue (trusted): hex / UTF-8 / JSON conversion, LinesCodec framing,
   config parsing, printing.  Modes:  pure  |  trace <file>  *)
open Model
type string = Stdlib.String.t
let compare = Stdlib.compare

(* ---------------------------------------------------------------- numbers *)
let rec pos_of_int (i : int) : positive =
  if i = 1 then XH else if i land 1 = 0 then XO (pos_of_int (i lsr 1)) else XI (pos_of_int (i lsr 1))
let n_of_int (i : int) : n = if i = 0 then N0 else Npos (pos_of_int i)
let rec int_of_pos = function XH -> 1 | XO p -> 2 * int_of_pos p | XI p -> 2 * int_of_pos p + 1
let int_of_n = function N0 -> 0 | Npos p -> int_of_pos p
let rec nat_of_int i = if i = 0 then O else S (nat_of_int (i - 1))
let rec int_of_nat = function O -> 0 | S k -> 1 + int_of_nat k

(* decimal rendering of arbitrarily large N (for limits up to 2^64-1) *)
let rec pos_to_digits (p : positive) : int list (* little endian decimal digits *) =
  let double_plus ds c =
    let rec go ds c = match ds with
      | [] -> if c = 0 then [] else [c]
      | d :: r -> let v = 2 * d + c in (v mod 10) :: go r (v / 10) in
    go ds c in
  match p with
  | XH -> [1]
  | XO q -> double_plus (pos_to_digits q) 0
  | XI q -> double_plus (pos_to_digits q) 1
let string_of_n = function
  | N0 -> "0"
  | Npos p -> String.concat "" (List.rev_map string_of_int (pos_to_digits p))
let n_of_decimal (s : string) : n =
  (* via repeated multiply by 10 on positives is overkill: values in configs are small *)
  n_of_int (int_of_string s)

(* ---------------------------------------------------------------- text *)
let unhex (s : string) : string =
  let n = String.length s / 2 in
  String.init n (fun i -> Char.chr (int_of_string ("0x" ^ String.sub s (2 * i) 2)))

exception Bad_utf8
(* strict UTF-8 decoding, as core::str::from_utf8 *)
let decode_utf8 (s : string) : int list =
  let n = String.length s in
  let b i = if i < n then Char.code s.[i] else raise Bad_utf8 in
  let cont i = let c = b i in if c land 0xC0 = 0x80 then c land 0x3F else raise Bad_utf8 in
  let rec go i acc =
    if i >= n then List.rev acc else
    let c = b i in
    if c < 0x80 then go (i + 1) (c :: acc)
    else if c < 0xC2 then raise Bad_utf8
    else if c < 0xE0 then go (i + 2) ((((c land 0x1F) lsl 6) lor cont (i + 1)) :: acc)
    else if c < 0xF0 then begin
      let c1 = b (i + 1) in
      if (c = 0xE0 && c1 < 0xA0) || (c = 0xED && c1 >= 0xA0) then raise Bad_utf8;
      go (i + 3) ((((c land 0x0F) lsl 12) lor (cont (i + 1) lsl 6) lor cont (i + 2)) :: acc)
    end else if c < 0xF5 then begin
      let c1 = b (i + 1) in
      if (c = 0xF0 && c1 < 0x90) || (c = 0xF4 && c1 >= 0x90) then raise Bad_utf8;
      go (i + 4) ((((c land 0x07) lsl 18) lor (cont (i + 1) lsl 12) lor (cont (i + 2) lsl 6)
                   lor cont (i + 3)) :: acc)
    end else raise Bad_utf8 in
  go 0 []

let str_of_bytes (s : string) : str = List.map n_of_int (decode_utf8 s)
let hs (h : string) : str = str_of_bytes (unhex h)

let encode_utf8 (buf : Buffer.t) (c : int) =
  if c < 0x80 then Buffer.add_char buf (Char.chr c)
  else if c < 0x800 then begin
    Buffer.add_char buf (Char.chr (0xC0 lor (c lsr 6)));
    Buffer.add_char buf (Char.chr (0x80 lor (c land 0x3F))) end
  else if c < 0x10000 then begin
    Buffer.add_char buf (Char.chr (0xE0 lor (c lsr 12)));
    Buffer.add_char buf (Char.chr (0x80 lor ((c lsr 6) land 0x3F)));
    Buffer.add_char buf (Char.chr (0x80 lor (c land 0x3F))) end
  else begin
    Buffer.add_char buf (Char.chr (0xF0 lor (c lsr 18)));
    Buffer.add_char buf (Char.chr (0x80 lor ((c lsr 12) land 0x3F)));
    Buffer.add_char buf (Char.chr (0x80 lor ((c lsr 6) land 0x3F)));
    Buffer.add_char buf (Char.chr (0x80 lor (c land 0x3F))) end

let bytes_of_str (s : str) : string =
  let buf = Buffer.create 64 in
  List.iter (fun c -> encode_utf8 buf (int_of_n c)) s;
  Buffer.contents buf

(* JSON string, same escaping as the Rust harness *)
let js_codes (cs : int list) : string =
  let buf = Buffer.create 64 in
  Buffer.add_char buf '"';
  List.iter (fun c ->
      if c = 0x22 then Buffer.add_string buf "\\\""
      else if c = 0x5C then Buffer.add_string buf "\\\\"
      else if c < 0x20 || c = 0x7F then Buffer.add_string buf (Printf.sprintf "\\u%04x" c)
      else encode_utf8 buf c) cs;
  Buffer.add_char buf '"';
  Buffer.contents buf
let js (s : str) : string = js_codes (List.map int_of_n s)
let js_ocaml (s : string) : string = js_codes (decode_utf8 s)

let cmp_str (a : str) (b : str) = compare (List.map int_of_n a) (List.map int_of_n b)
let sorted (l : str list) = List.sort cmp_str l
let jlist (l : str list) = "[" ^ String.concat "," (List.map js (sorted l)) ^ "]"
let jopt = function Some s -> js s | None -> "null"

(* ---------------------------------------------------------------- Rust Debug rendering *)
let dbg_char_body ~(in_str : bool) (c : int) : string =
  if c = 0 then "\\0" else if c = 9 then "\\t" else if c = 10 then "\\n" else if c = 13 then "\\r"
  else if c = 0x5C then "\\\\"
  else if c = 0x22 then (if in_str then "\\\"" else "\"")
  else if c = 0x27 then (if in_str then "'" else "\\'")
  else if c < 0x20 || (c >= 0x7F && c <= 0xA0) || c = 0xAD || c = 0x1680 || (c >= 0x2000 && c <= 0x200F)
          || (c >= 0x2028 && c <= 0x202F) || (c >= 0x205F && c <= 0x206F) || c = 0x3000 || c = 0xFEFF
  then Printf.sprintf "\\u{%x}" c
  else (let b = Buffer.create 4 in encode_utf8 b c; Buffer.contents b)
let dbg_str (s : str) : string =
  "\"" ^ String.concat "" (List.map (fun c -> dbg_char_body ~in_str:true (int_of_n c)) s) ^ "\""
let dbg_char (c : n) : string = "'" ^ dbg_char_body ~in_str:false (int_of_n c) ^ "'"
let dbg_list f l = "[" ^ String.concat ", " (List.map f l) ^ "]"
let dbg_opt f = function Some x -> "Some(" ^ f x ^ ")" | None -> "None"
let dbg_strs = dbg_list dbg_str

let verb_id (v : verb) : string = bytes_of_str (verb_name v) ^ "Id"

let dbg_message (m : message) : string =
  Printf.sprintf "Message { source: %s, command: %s, params: %s }"
    (dbg_opt dbg_str m.m_source) (dbg_str m.m_command) (dbg_strs m.m_params)

let dbg_command (c : command) : string =
  let o = dbg_opt dbg_str in
  match c with
  | CAP (sub, caps, v) ->
      Printf.sprintf "CAP { subcommand: %s, caps: %s, version: %s }"
        (match sub with CapLS -> "LS" | CapLIST -> "LIST" | CapREQ -> "REQ" | CapEND -> "END")
        (dbg_opt dbg_strs caps) (dbg_opt string_of_n v)
  | AUTHENTICATE -> "AUTHENTICATE"
  | PASS p -> Printf.sprintf "PASS { password: %s }" (dbg_str p)
  | NICK n -> Printf.sprintf "NICK { nickname: %s }" (dbg_str n)
  | USER (a, b, c, d) ->
      Printf.sprintf "USER { username: %s, hostname: %s, servername: %s, realname: %s }"
        (dbg_str a) (dbg_str b) (dbg_str c) (dbg_str d)
  | PING t -> Printf.sprintf "PING { token: %s }" (dbg_str t)
  | PONG t -> Printf.sprintf "PONG { token: %s }" (dbg_str t)
  | OPER (a, b) -> Printf.sprintf "OPER { name: %s, password: %s }" (dbg_str a) (dbg_str b)
  | QUIT -> "QUIT"
  | JOIN (chs, keys) ->
      Printf.sprintf "JOIN { channels: %s, keys: %s }" (dbg_strs chs) (dbg_opt dbg_strs keys)
  | PART (chs, r) -> Printf.sprintf "PART { channels: %s, reason: %s }" (dbg_strs chs) (o r)
  | TOPIC (ch, t) -> Printf.sprintf "TOPIC { channel: %s, topic: %s }" (dbg_str ch) (o t)
  | NAMES chs -> Printf.sprintf "NAMES { channels: %s }" (dbg_strs chs)
  | LIST (chs, s) -> Printf.sprintf "LIST { channels: %s, server: %s }" (dbg_strs chs) (o s)
  | INVITE (a, b) -> Printf.sprintf "INVITE { nickname: %s, channel: %s }" (dbg_str a) (dbg_str b)
  | KICK (ch, us, cm) ->
      Printf.sprintf "KICK { channel: %s, users: %s, comment: %s }" (dbg_str ch) (dbg_strs us) (o cm)
  | MOTD t -> Printf.sprintf "MOTD { target: %s }" (o t)
  | VERSION t -> Printf.sprintf "VERSION { target: %s }" (o t)
  | ADMIN t -> Printf.sprintf "ADMIN { target: %s }" (o t)
  | CONNECT (ts, p, rs) ->
      Printf.sprintf "CONNECT { target_server: %s, port: %s, remote_server: %s }"
        (dbg_str ts) (dbg_opt string_of_n p) (o rs)
  | LUSERS -> "LUSERS"
  | TIME s -> Printf.sprintf "TIME { server: %s }" (o s)
  | STATS (q, s) -> Printf.sprintf "STATS { query: %s, server: %s }" (dbg_char q) (o s)
  | LINKS (a, b) -> Printf.sprintf "LINKS { remote_server: %s, server_mask: %s }" (o a) (o b)
  | HELP s -> Printf.sprintf "HELP { subject: %s }" (o s)
  | INFO -> "INFO"
  | MODE (t, ms) ->
      Printf.sprintf "MODE { target: %s, modes: %s }" (dbg_str t)
        (dbg_list (fun (a, b) -> Printf.sprintf "(%s, %s)" (dbg_str a) (dbg_strs b)) ms)
  | PRIVMSG (ts, t) -> Printf.sprintf "PRIVMSG { targets: %s, text: %s }" (dbg_strs ts) (dbg_str t)
  | NOTICE (ts, t) -> Printf.sprintf "NOTICE { targets: %s, text: %s }" (dbg_strs ts) (dbg_str t)
  | WHO m -> Printf.sprintf "WHO { mask: %s }" (dbg_str m)
  | WHOIS (t, ms) -> Printf.sprintf "WHOIS { target: %s, nickmasks: %s }" (o t) (dbg_strs ms)
  | WHOWAS (n, c, s) ->
      Printf.sprintf "WHOWAS { nickname: %s, count: %s, server: %s }"
        (dbg_str n) (dbg_opt string_of_n c) (o s)
  | KILL (a, b) -> Printf.sprintf "KILL { nickname: %s, comment: %s }" (dbg_str a) (dbg_str b)
  | REHASH -> "REHASH"
  | RESTART -> "RESTART"
  | SQUIT (a, b) -> Printf.sprintf "SQUIT { server: %s, comment: %s }" (dbg_str a) (dbg_str b)
  | AWAY t -> Printf.sprintf "AWAY { text: %s }" (o t)
  | USERHOST ns -> Printf.sprintf "USERHOST { nicknames: %s }" (dbg_strs ns)
  | WALLOPS t -> Printf.sprintf "WALLOPS { text: %s }" (dbg_str t)
  | ISON ns -> Printf.sprintf "ISON { nicknames: %s }" (dbg_strs ns)
  | DIE m -> Printf.sprintf "DIE { message: %s }" (o m)

let dbg_cmd_error (e : cmd_error) : string =
  match e with
  | UnknownCommand s -> Printf.sprintf "UnknownCommand(%s)" (dbg_str s)
  | UnknownSubcommand (v, s) -> Printf.sprintf "UnknownSubcommand(%s, %s)" (verb_id v) (dbg_str s)
  | NeedMoreParams v -> Printf.sprintf "NeedMoreParams(%s)" (verb_id v)
  | ParameterDoesntMatch (v, i) -> Printf.sprintf "ParameterDoesntMatch(%s, %s)" (verb_id v) (string_of_n i)
  | WrongParameter (v, i) -> Printf.sprintf "WrongParameter(%s, %s)" (verb_id v) (string_of_n i)
  | UnknownMode (i, c, ch) -> Printf.sprintf "UnknownMode(%s, %s, %s)" (string_of_n i) (dbg_char c) (dbg_str ch)
  | UnknownUModeFlag i -> Printf.sprintf "UnknownUModeFlag(%s)" (string_of_n i)
  | InvalidModeParam (t, c, p, d) ->
      Printf.sprintf "InvalidModeParam { target: %s, modechar: %s, param: %s, description: %s }"
        (dbg_str t) (dbg_char c) (dbg_str p) (dbg_str d)

let dbg_msg_error = function
  | MEmpty -> "Empty" | MWrongSource -> "WrongSource" | MNoCommand -> "NoCommand"

(* ---------------------------------------------------------------- pure mode *)
let split_sp (l : string) = String.split_on_char ' ' l

let pure_main () =
  try
    while true do
      let line = input_line stdin in
      let f = Array.of_list (split_sp line) in
      let arg i = if i < Array.length f then hs f.(i) else [] in
      let r =
        match f.(0) with
        | "E" ->
            (* Frame.encode of every line, then Frame.feed on the result: hex of the bytes | framed lines | pending *)
            let raw i = List.init (String.length (unhex f.(i))) (fun k -> n_of_int (Char.code (unhex f.(i)).[k])) in
            let hexb (l : n list) = String.concat "" (List.map (fun c -> Printf.sprintf "%02x" (int_of_n c)) l) in
            let bytes = List.concat (List.init (Array.length f - 1) (fun k -> encode_x (raw (k + 1)))) in
            let (frames, rest) = feed_x [] bytes in
            hexb bytes ^ " | " ^ String.concat " " (List.map (function FTooLong -> "ERR:toolong" | FLine l -> hexb l) frames)
            ^ " | " ^ string_of_int (List.length rest)
        | "W" -> string_of_bool (wild_match_x (arg 1) (arg 2))
        | "WG" -> string_of_bool (glob_x (arg 1) (arg 2))
        | "N" -> js (normalize_mask_x (arg 1))
        | "M" -> (match tokenize_x (arg 1) with
                  | Inl m -> "OK " ^ js_ocaml (dbg_message m)
                  | Inr e -> "ERR " ^ dbg_msg_error e)
        | "P" -> (match tokenize_x (arg 1) with
                  | Inl m -> (match command_of_message_x m with
                              | Inl c -> "OK " ^ js_ocaml (dbg_command c)
                              | Inr e -> "CERR " ^ js_ocaml (dbg_cmd_error e))
                  | Inr e -> "ERR " ^ dbg_msg_error e)
        | "S" -> (match tokenize_x (arg 2) with
                  | Inl m -> js (to_string_with_source_x m (arg 1))
                  | Inr e -> "ERR " ^ dbg_msg_error e)
        | "V" -> let s = arg 2 in
                 string_of_bool (match f.(1) with
                   | "username" -> validate_username_x s
                   | "channel" -> validate_channel_x s
                   | "source" -> validate_source_x s
                   | "server" -> validate_server_x s
                   | "servermask" -> validate_server_mask_x s
                   | "prefixed" -> validate_prefixed_channel_x s
                   | "pwhash" -> valid_hash_x s
                   | _ -> false)
        | "KA" ->
            (* KA <pong_timeout> <horizon> <time>:<P|O|X> ...   (P = server PING, O = client PONG, X = other) *)
            let evs = List.filter_map (fun tok ->
              match String.split_on_char ':' tok with
              | [t; k] -> Some (n_of_decimal t, (match k with "P" -> KPing | "O" -> KPong | _ -> KOther))
              | _ -> None) (Array.to_list (Array.sub f 3 (Array.length f - 3))) in
            (match ka_run_x (n_of_decimal f.(1)) None evs (n_of_decimal f.(2)) with
             | Some t -> "closed " ^ string_of_int (int_of_n t)
             | None -> "open")
        | "FM" ->
            (* structured configuration: name=<hex> pw=<hex|-> cliname=<hex|-> cert=0/1 key=0/1 oper:<n>:<pw> user:<n>:<nick>:<pw|-> chan:<n> *)
            let toks = Array.to_list (Array.sub f 1 (Array.length f - 1)) in
            let name = ref [] and pw = ref None and cliname = ref None and cert = ref false and key = ref false in
            let opers = ref [] and users = ref [] and chans = ref [] in
            let o s = if s = "-" then None else Some (hs s) in
            List.iter (fun t ->
              match String.split_on_char ':' t with
              | ["oper"; n; p] -> opers := !opers @ [{ ro_name = hs n; ro_password = hs p }]
              | ["user"; n; k; p] -> users := !users @ [{ ru_name = hs n; ru_nick = hs k; ru_password = o p }]
              | ["chan"; n] -> chans := !chans @ [hs n]
              | _ ->
                (match String.index_opt t '=' with
                 | Some i ->
                     let k = String.sub t 0 i and v = String.sub t (i + 1) (String.length t - i - 1) in
                     (match k with
                      | "name" -> name := hs v | "pw" -> pw := o v | "cliname" -> cliname := o v
                      | "cert" -> cert := (v = "1") | "key" -> key := (v = "1") | _ -> ())
                 | None -> ())) toks;
            string_of_bool (config_accept_x
              { rw_name = !name; rw_password = !pw; rw_opers = !opers; rw_users = !users; rw_chans = !chans }
              { cl_name = !cliname; cl_cert = !cert; cl_key = !key })
        | "G" -> let (t, c) = target_type_x (arg 1) in
                 let bit b v = if b then v else 0 in
                 Printf.sprintf "%d %s"
                   (bit t.tt_channel 1 + bit t.tt_founder 2 + bit t.tt_protected 4 + bit t.tt_oper 8
                    + bit t.tt_half 16 + bit t.tt_voice 32) (js c)
        | _ -> "?" in
      print_endline r
    done
  with End_of_file -> ()

(* ---------------------------------------------------------------- config *)
let opt_hs (s : string) : str option = if s = "-" then None else Some (hs s)
let opt_n (s : string) : n option = if s = "-" then None else Some (n_of_decimal s)
let hs_list (s : string) : str list =
  if s = "" || s = "-" then [] else List.map hs (String.split_on_char ',' s)
let has c s = String.contains s c

let umodes_of (s : string) : umodes =
  { um_invisible = has 'i' s; um_oper = has 'o' s; um_local_oper = has 'O' s;
    um_registered = has 'r' s; um_wallops = has 'w' s }

let kv (tok : string) : string * string =
  match String.index_opt tok '=' with
  | Some i -> (String.sub tok 0 i, String.sub tok (i + 1) (String.length tok - i - 1))
  | None -> (tok, "")

type cfgacc = {
  mutable fields : (string * string) list;
  mutable opers : opercfg list; mutable cusers : usercfg list; mutable cchans : chancfg list;
  mutable pws : (str * str) list }

let new_acc () = { fields = []; opers = []; cusers = []; cchans = []; pws = [] }

let add_cfg_line (a : cfgacc) (f : string list) =
  match f with
  | "oper" :: name :: pw :: mask :: _ ->
      a.opers <- a.opers @ [{ oc_name = hs name; oc_password = hs pw; oc_mask = opt_hs mask }]
  | "user" :: name :: nick :: pw :: mask :: _ ->
      a.cusers <- a.cusers @ [{ uc_name = hs name; uc_nick = hs nick; uc_password = opt_hs pw;
                                uc_mask = opt_hs mask }]
  | "chan" :: name :: topic :: flags :: key :: limit :: rest ->
      let kvs = List.map kv rest in
      let g k = set_of_list (hs_list (try List.assoc k kvs with Not_found -> "")) in
      let m = { cm_ban = g "ban"; cm_exception = g "exception"; cm_limit = opt_n limit;
                cm_invex = g "invex"; cm_key = opt_hs key; cm_operators = g "operators";
                cm_half_operators = g "half_operators"; cm_voices = g "voices";
                cm_founders = g "founders"; cm_protecteds = g "protecteds";
                cm_invite_only = has 'i' flags; cm_moderated = has 'm' flags;
                cm_secret = has 's' flags; cm_protected_topic = has 't' flags;
                cm_noext = has 'n' flags } in
      a.cchans <- a.cchans @ [{ cc_name = hs name; cc_topic = opt_hs topic; cc_modes = m }]
  | "pw" :: pw :: hash :: _ -> a.pws <- (hs pw, hs hash) :: a.pws
  | k :: v :: _ -> a.fields <- (k, v) :: a.fields
  | _ -> ()

let build_cfg (a : cfgacc) : config =
  let g k = try List.assoc k a.fields with Not_found -> "-" in
  let gs k = match opt_hs (g k) with Some s -> s | None -> [] in
  { cfg_name = gs "name"; cfg_admin_info = gs "admin_info"; cfg_admin_info2 = opt_hs (g "admin_info2");
    cfg_admin_email = opt_hs (g "admin_email"); cfg_info = gs "info"; cfg_motd = gs "motd";
    cfg_network = gs "network"; cfg_password = opt_hs (g "password");
    cfg_max_connections = opt_n (g "max_connections"); cfg_max_joins = opt_n (g "max_joins");
    cfg_ping_timeout = (match opt_n (g "ping_timeout") with Some x -> x | None -> n_of_int 120);
    cfg_pong_timeout = (match opt_n (g "pong_timeout") with Some x -> x | None -> n_of_int 20);
    cfg_default_umodes = umodes_of (let v = g "default_modes" in if v = "-" then "" else v);
    cfg_operators = a.opers; cfg_users = a.cusers; cfg_channels = a.cchans;
    cfg_pkg_name = gs "pkg_name"; cfg_pkg_version = gs "pkg_version" }

(* ---------------------------------------------------------------- dump *)
let jbool b = if b then "true" else "false"

let dump_world (w : world) : string =
  let s = w.sh in
  let us = List.sort (fun (a, _) (b, _) -> cmp_str a b) (users_l s) in
  let user_s (n, (u : user)) =
    let ((hn, hh), hr) = u.u_hist in
    Printf.sprintf
      "%s:{\"name\":%s,\"realname\":%s,\"host\":%s,\"source\":%s,\"modes\":%s,\"away\":%s,\"channels\":%s,\"invited\":%s,\"kill_pending\":%s,\"sender_closed\":false,\"hist\":[%s,%s,%s]}"
      (js n) (js u.u_name) (js u.u_real) (js u.u_host) (js u.u_source) (js (umodes_str u.u_modes))
      (jopt u.u_away) (jlist (set_l u.u_chans)) (jlist (set_l u.u_invited))
      (jbool (u.u_kill <> None)) (js hn) (js hh) (js hr) in
  let cs = List.sort (fun (a, _) (b, _) -> cmp_str a b) (chans_l s) in
  let chan_s (n, (c : chan)) =
    let m = c.ch_modes in
    let flags = (if m.cm_invite_only then "i" else "") ^ (if m.cm_moderated then "m" else "")
                ^ (if m.cm_secret then "s" else "") ^ (if m.cm_protected_topic then "t" else "")
                ^ (if m.cm_noext then "n" else "") in
    let cu = List.sort (fun (a, _) (b, _) -> cmp_str a b) (members_l c) in
    let cu_s = String.concat "," (List.map (fun (n, (r : rank)) ->
        js n ^ ":\"" ^ (if r.r_founder then "q" else "") ^ (if r.r_protected then "a" else "")
        ^ (if r.r_operator then "o" else "") ^ (if r.r_half then "h" else "")
        ^ (if r.r_voice then "v" else "") ^ "\"") cu) in
    let bi = List.sort (fun (a, _) (b, _) -> cmp_str a b) (baninfo_l c) in
    let bi_s = String.concat "," (List.map (fun (k, v) -> js k ^ ":" ^ js v) bi) in
    let d = c.ch_default in
    Printf.sprintf
      "%s:{\"topic\":%s,\"flags\":\"%s\",\"key\":%s,\"limit\":%s,\"ban\":%s,\"exception\":%s,\"invex\":%s,\"founders\":%s,\"protecteds\":%s,\"operators\":%s,\"half_operators\":%s,\"voices\":%s,\"default\":{\"founders\":%s,\"protecteds\":%s,\"operators\":%s,\"half_operators\":%s,\"voices\":%s},\"ban_info\":{%s},\"users\":{%s},\"preconfigured\":%s}"
      (js n)
      (match c.ch_topic with Some (t, who) -> "[" ^ js t ^ "," ^ js who ^ "]" | None -> "null")
      flags (jopt m.cm_key)
      (match m.cm_limit with Some l -> string_of_n l | None -> "null")
      (jlist (set_l m.cm_ban)) (jlist (set_l m.cm_exception)) (jlist (set_l m.cm_invex))
      (jlist (set_l m.cm_founders)) (jlist (set_l m.cm_protecteds)) (jlist (set_l m.cm_operators))
      (jlist (set_l m.cm_half_operators)) (jlist (set_l m.cm_voices))
      (jlist (set_l d.d_founders)) (jlist (set_l d.d_protecteds)) (jlist (set_l d.d_operators))
      (jlist (set_l d.d_half_operators)) (jlist (set_l d.d_voices))
      bi_s cu_s (jbool c.ch_preconf) in
  let hist = List.sort (fun (a, _) (b, _) -> cmp_str a b) (hist_l s) in
  let hist_s = String.concat "," (List.map (fun (n, es) ->
      js n ^ ":[" ^ String.concat "," (List.map (fun ((a, b), c) ->
          "[" ^ js a ^ "," ^ js b ^ "," ^ js c ^ "]") es) ^ "]") hist) in
  Printf.sprintf
    "{\"users\":{%s},\"channels\":{%s},\"wallops\":%s,\"invisible_count\":%s,\"operators_count\":%s,\"max_users_count\":%s,\"histories\":{%s},\"conns_count\":%s,\"server_quit\":%s}"
    (String.concat "," (List.map user_s us)) (String.concat "," (List.map chan_s cs))
    (jlist (set_l s.wallops)) (string_of_n s.inv_count) (string_of_n s.op_count)
    (string_of_n s.max_users) hist_s (string_of_n w.nconns) (jbool s.server_quit)

let panic_name = function
  | P_unwrap_user -> "unwrap_user" | P_unwrap_channel -> "unwrap_channel"
  | P_unwrap_member -> "unwrap_member" | P_counter_underflow -> "counter_underflow"
  | P_lusers_underflow -> "lusers_underflow" | P_sender_taken -> "sender_taken"
  | P_mode_arg -> "mode_arg" | P_join_key_index -> "join_key_index"
  | P_mode_limit_parse -> "mode_limit_parse"

(* ---------------------------------------------------------------- trace mode *)
(* LinesCodec framing of the bytes received on one connection: the extracted Frame.feed
   (segmentation invariance: FrameP.feed_split); the pending bytes are kept per connection *)
let bytes_of_string (s : string) : n list = List.init (String.length s) (fun i -> n_of_int (Char.code s.[i]))
let string_of_bytes (l : n list) : string = String.init (List.length l) (fun i -> Char.chr (int_of_n (List.nth l i)))
let string_of_bytes (l : n list) : string =
  let b = Buffer.create 64 in List.iter (fun c -> Buffer.add_char b (Char.chr (int_of_n c))) l; Buffer.contents b

let run_trace (id : string) (a : cfgacc) (events : string list list) =
  let cfg = build_cfg a in
  let verify (p : str) (h : str) : bool =
    List.exists (fun (p', h') -> cmp_str p p' = 0 && cmp_str h h' = 0) a.pws in
  let w = ref (world_init_x cfg) in
  let bufs : (int, n list) Hashtbl.t = Hashtbl.create 8 in
  let dead = ref false in
  List.iteri (fun k ev ->
      if not !dead then begin
        let cid = match ev with _ :: c :: _ -> (try int_of_string c with _ -> 0) | _ -> 0 in
        let evs : event list =
          match ev with
          | "O" :: _ -> Hashtbl.replace bufs cid []; [EvOpen false]
          | ("L" | "B") :: _ :: h :: _ ->
              let bytes = unhex h ^ (if List.hd ev = "L" then "\r\n" else "") in
              let pending = (try Hashtbl.find bufs cid with Not_found -> []) in
              let (frames, rest) = feed_x pending (bytes_of_string bytes) in
              Hashtbl.replace bufs cid rest;
              List.map (function
                  | FTooLong -> EvTooLong
                  | FLine l -> (try EvLine (str_of_bytes (string_of_bytes l)) with Bad_utf8 -> EvBadUtf8))
                frames
          | "X" :: _ -> [EvClose]
          | _ -> [] in
        let outs : (int * str) list ref = ref [] in
        let closed : int list ref = ref [] in
        let panic = ref None in
        List.iter (fun e ->
            if !panic = None then
              match step_x cfg verify !w (nat_of_int cid) e with
              | Ok ((w', o), cl) ->
                  w := w';
                  outs := !outs @ List.map (fun (c, l) -> (int_of_nat c, l)) o;
                  closed := !closed @ List.map int_of_nat cl
              | Panic p -> panic := Some p) evs;
        let by_conn = Hashtbl.create 8 in
        List.iter (fun (c, l) ->
            Hashtbl.replace by_conn c ((try Hashtbl.find by_conn c with Not_found -> []) @ [l])) !outs;
        let keys = List.sort compare (Hashtbl.fold (fun k _ acc -> k :: acc) by_conn []) in
        let outs_s = String.concat "," (List.map (fun c ->
            Printf.sprintf "\"%d\":[%s]" c
              (String.concat "," (List.map js (Hashtbl.find by_conn c)))) keys) in
        let eof = List.sort_uniq compare !closed in
        Printf.printf "{\"t\":%s,\"k\":%d,\"out\":{%s},\"eof\":[%s],\"stall\":[],\"panics\":[%s],\"dump\":%s}\n"
          (js_ocaml id) k outs_s (String.concat ", " (List.map string_of_int eof))
          (match !panic with Some p -> "\"" ^ panic_name p ^ "\"" | None -> "")
          (dump_world !w);
        if !panic <> None then dead := true
      end) events

let trace_main (path : string) =
  let ic = open_in path in
  let id = ref "" and acc = ref (new_acc ()) and events = ref [] in
  (try
     while true do
       let line = input_line ic in
       match split_sp line with
       | "T" :: i :: _ -> id := i; acc := new_acc (); events := []
       | "C" :: _ -> ()
       | "MC" :: rest -> add_cfg_line !acc rest
       | "E" :: _ -> run_trace !id !acc (List.rev !events); flush stdout
       | [""] | [] -> ()
       | f -> events := f :: !events
     done
   with End_of_file -> ());
  close_in ic

let () =
  match Array.to_list Sys.argv with
  | _ :: "pure" :: _ -> pure_main ()
  | _ :: "trace" :: p :: _ -> trace_main p
  | _ -> prerr_endline "usage: ircmodel pure | trace <file>"; exit 2
