From IRC Require Import Export.
Require Import ExtrOcamlBasic.
Extraction Language OCaml.
Extraction "model.ml" users_l chans_l hist_l set_l baninfo_l members_l conns_l set_of_list
  tokenize_x command_of_message_x to_string_with_source_x wild_match_x glob_x normalize_mask_x
  target_type_x step_x world_init_x validate_username_x validate_channel_x validate_source_x
  validate_server_x validate_server_mask_x validate_prefixed_channel_x cmd_error_reply_x config_accept_x valid_hash_x ka_run_x feed_x encode_x.
