#!/usr/bin/env python3
"""check.py - entry point of the verification machinery.

  check.py setup                      build everything from files on disk
  check.py <Cxx> [--tier quick|thorough]
  check.py replay <path>

A check (1) rebuilds the Coq development target of the property and re-reads the axioms its
theorems depend on, (2) rebuilds the implementation harness from /repo's working tree,
(3) runs the correspondence between the Coq model and the implementation projected to the
property's observables, (4) evaluates the property's own oracle on the implementation,
(5) writes evidence/<id>.json and prints VIOLATION / KNOWN-FINDING lines."""
import json, os, re, subprocess, sys, time, glob, random, traceback

VERIF = os.path.dirname(os.path.abspath(__file__))
sys.path.insert(0, os.path.join(VERIF, "py"))
BUILD = os.path.join(VERIF, ".build")
COQ = os.path.join(VERIF, "coq")
ALLOWED_AXIOMS = set()   # none expected; stdlib axioms would be listed here by name

import irc  # noqa: E402


def sh(cmd, cwd=None, timeout=3600, env=None):
    e = dict(os.environ)
    e.update(env or {})
    p = subprocess.run(cmd, cwd=cwd, shell=isinstance(cmd, str), capture_output=True, text=True, timeout=timeout, env=e)
    return p.returncode, p.stdout + p.stderr


# ------------------------------------------------------------------ builds
def coq_makefile():
    if not os.path.exists(os.path.join(COQ, "Makefile")):
        sh("coq_makefile -f _CoqProject -o Makefile", cwd=COQ)


def build_coq(targets):
    """full .vo build of the given targets (and what they depend on)"""
    coq_makefile()
    os.makedirs(BUILD, exist_ok=True)
    rc, out = sh(["make", "-j16"] + targets, cwd=COQ, timeout=3000)
    open(os.path.join(BUILD, "coq_make_%s.log" % "_".join(t.replace("/", "-") for t in targets)[:80]), "w").write(out)
    return rc == 0, out


def build_model():
    ok, out = build_coq(["theories/Export.vo"])
    if not ok:
        return False, out
    ml = os.path.join(BUILD, "ml")
    os.makedirs(ml, exist_ok=True)
    exe = os.path.join(ml, "ircmodel")
    src = [os.path.join(COQ, "theories", "Export.vo"), os.path.join(COQ, "extract", "driver.ml"),
           os.path.join(COQ, "extract", "Extract.v")]
    if os.path.exists(exe) and all(os.path.getmtime(s) <= os.path.getmtime(exe) for s in src):
        return True, ""
    sh("cp %s/extract/Extract.v %s/extract/driver.ml ." % (COQ, COQ), cwd=ml)
    rc, out = sh("coqc -Q %s/theories IRC Extract.v" % COQ, cwd=ml, timeout=900)
    if rc != 0:
        return False, out
    rc, out = sh("ocamlfind ocamlopt -O2 -w -a model.mli model.ml driver.ml -o ircmodel.new && mv ircmodel.new ircmodel",
                 cwd=ml, timeout=900)
    return rc == 0, out


def build_rust(release=False):
    """rebuilds the harness (which compiles /repo/src by path) with the hooks enabled"""
    name, ver = irc.pkg_info()
    ct = os.path.join(VERIF, "rsharness", "Cargo.toml")
    txt = open(ct).read()
    new = re.sub(r'(\[package\][^\[]*?\nname = )"[^"]*"', r'\1"%s"' % name, txt, count=1, flags=re.S)
    new = re.sub(r'(\[package\][^\[]*?\nversion = )"[^"]*"', r'\1"%s"' % ver, new, count=1, flags=re.S)
    if new != txt:
        open(ct, "w").write(new)
    lock_src = "/repo/Cargo.lock"
    lock_dst = os.path.join(VERIF, "rsharness", "Cargo.lock")
    if not os.path.exists(lock_dst):
        txt = open(lock_src).read()
        open(lock_dst, "w").write(txt)
    cmd = ["cargo", "build", "--offline", "--target-dir", os.path.join(BUILD, "rs")]
    if release:
        cmd.append("--release")
    rc, out = sh(cmd, cwd=os.path.join(VERIF, "rsharness"), timeout=3000,
                 env={"RUSTFLAGS": "--cfg irc_verif", "CARGO_NET_OFFLINE": "true"})
    return rc == 0, out


def strip_coq(text):
    """removes (nested) comments and string literals, keeping line structure"""
    out, i, depth, n = [], 0, 0, len(text)
    while i < n:
        if text.startswith("(*", i):
            depth += 1
            i += 2
        elif depth and text.startswith("*)", i):
            depth -= 1
            i += 2
        elif depth:
            if text[i] == "\n":
                out.append("\n")
            i += 1
        elif text[i] == '"':
            j = i + 1
            while j < n and text[j] != '"':
                if text[j] == "\n":
                    out.append("\n")
                j += 1
            out.append('""')
            i = j + 1
        else:
            out.append(text[i])
            i += 1
    return "".join(out)


def hygiene():
    """no Admitted / Axiom / disabled checks anywhere in the development"""
    pat = re.compile(r"\b(Admitted|admit|Axiom|Axioms|Parameter|Parameters|Conjecture|Hypothesis|Hypotheses|Variable|Variables|Admit Obligations)\b|Unset Guard|bypass_check|type-in-type|impredicative-set|Unset Positivity|Unset Universe")
    bad = []
    for f in sorted(glob.glob(os.path.join(COQ, "**", "*.v"), recursive=True)):
        in_section = 0
        for i, l in enumerate(strip_coq(open(f).read()).split("\n"), 1):
            if re.match(r"\s*Section\b", l):
                in_section += 1
            if re.match(r"\s*End\b", l) and in_section:
                in_section -= 1
            m = pat.search(l)
            if m:
                if m.group(1) in ("Variable", "Variables", "Hypothesis", "Hypotheses") and in_section:
                    continue
                bad.append("%s:%d: %s" % (os.path.relpath(f, VERIF), i, l.strip()))
    return bad


def props_report(pid):
    """compiles props/<pid>.v afresh and reads theorem names and Print Assumptions output"""
    path = os.path.join(COQ, "props", pid + ".v")
    src = open(path).read()
    theorems = re.findall(r"^Theorem\s+(\w+)", src, re.M)
    outdir = os.path.join(BUILD, "props")
    os.makedirs(outdir, exist_ok=True)
    rc, out = sh("coqc -Q theories IRC -Q proofs IRCP -Q props IRCProps -o %s/%s.vo props/%s.v" % (outdir, pid, pid),
                 cwd=COQ, timeout=1800)
    closed = out.count("Closed under the global context")
    axioms = []
    for m in re.finditer(r"Axioms:\n((?:.+\n?)+?)(?:\n|$)", out):
        for ln in m.group(1).splitlines():
            mm = re.match(r"^(\S+)\s*:", ln)
            if mm:
                axioms.append(mm.group(1))
    printed = len(re.findall(r"^Print Assumptions\s+(\w+)", src, re.M))
    return {"ok": rc == 0, "theorems": theorems, "closed": closed, "axioms": sorted(set(axioms)),
            "print_assumptions": printed, "log": out[-3000:]}


# ------------------------------------------------------------------ result plumbing
class Result:
    def __init__(self, pid, tier, seed):
        self.pid, self.tier, self.seed = pid, tier, seed
        self.violations = []      # dicts: {what, replay(dict), failing_input_found(bool)}
        self.known = []
        self.coverage = {}
        self.assumptions = []
        self.t0 = time.time()

    def violation(self, what, replay, found=True):
        self.violations.append({"what": what, "replay": replay, "found": found})


def load_known():
    try:
        return json.load(open(os.path.join(VERIF, "known_findings.json")))
    except Exception:
        return {"findings": [], "fixed": []}


def finish(res):
    os.makedirs(os.path.join(VERIF, "evidence"), exist_ok=True)
    os.makedirs(os.path.join(VERIF, "replays"), exist_ok=True)
    lines = []
    for i, v in enumerate(res.violations):
        rp = os.path.join(VERIF, "replays", "%s_%s_%d.json" % (res.pid, res.tier, i))
        json.dump({"property": res.pid, "what": v["what"], "failing_input_found": v["found"], "replay": v["replay"],
                   "seed": res.seed, "tier": res.tier}, open(rp, "w"), indent=1, ensure_ascii=False)
        lines.append("VIOLATION property=%s replay=%s%s" % (res.pid, rp, "" if v["found"] else " no-failing-input-found"))
        lines.append("  what: " + " ".join(str(v["what"]).split())[:400])
    for k in res.known:
        print("KNOWN-FINDING: property=%s %s" % (res.pid, k))
    ev = {"property_id": res.pid, "tier": res.tier, "seed": res.seed, "level": "proof",
          "coverage": res.coverage, "assumptions": res.assumptions, "wall_s": round(time.time() - res.t0, 2),
          "violations": len(res.violations)}
    # development runs (proofs not rebuilt) never overwrite the evidence of record
    evdir = os.path.join(BUILD, "scratch", "evidence_dev") if os.environ.get("VERIF_DEV_SKIP_PROOF") else os.path.join(VERIF, "evidence")
    os.makedirs(evdir, exist_ok=True)
    json.dump(ev, open(os.path.join(evdir, res.pid + ".json"), "w"), indent=1, ensure_ascii=False)
    for l in lines[:40]:
        print(l)
    sys.stdout.flush()
    return 1 if res.violations else 0


TRUSTED_BASE = [
    "Coq 8.16.1 kernel (coqc full .vo build, no -vos/-vok); vm_compute only in Example sanity lemmas; no native_compute",
    "axioms: none declared; Print Assumptions of every property theorem is re-read on each run (expected: Closed under the global context)",
    "extraction: ExtrOcamlBasic only (Extract Inductive bool/option/unit/list/prod/sumbool/sumor, Extract Inlined Constant andb/orb/fst/snd...), OCaml 4.13.1, hand-written driver coq/extract/driver.ml (hex, UTF-8, LinesCodec framing, JSON printing)",
    "correspondence check: rsharness (compiles /repo/src/*.rs by #[path], catch_unwind/panic hook, in-process server on loopback, barrier = unknown command -> 421, queue drain = FIFO marker through hook verif_marker_all), py/irc.py canonicalisation (timestamps masked, 353/319 merged and sorted, per-step per-connection multisets)",
    "hook src/state/verif.rs (cfg irc_verif): read-only JSON dump of VolatileState",
    "modelled, not verified: the Gallina model is hand-written; tokio (scheduler, timers, select!, mpsc, RwLock), TCP, LinesCodec internals beyond the framing contract, argon2 (verify is a parameter of the model), serde/toml, clap, chrono, HashMap iteration order (abstracted by canonicalisation) are outside the model",
]


def common_proof_part(res, pid, extra_targets=()):
    """build + assumptions for the property's theorem file; returns False if the proof side broke"""
    ok, out = build_coq(["props/%s.vo" % pid] + list(extra_targets))
    hy = hygiene()
    rep = props_report(pid) if ok else {"ok": False, "theorems": [], "closed": 0, "axioms": [], "print_assumptions": 0,
                                        "log": out[-3000:]}
    n = len(rep["theorems"])
    bad_axioms = [a for a in rep["axioms"] if a not in ALLOWED_AXIOMS]
    # the statements themselves are pinned (coq/props/pins.json, py/mkpins.py): a theorem is never quietly weakened or dropped
    pin_bad = []
    try:
        sys.path.insert(0, os.path.join(VERIF, "py"))
        import mkpins
        pins = json.load(open(os.path.join(COQ, "props", "pins.json"))).get(pid, {})
        cur = mkpins.statements(os.path.join(COQ, "props", pid + ".v"))
        pin_bad = sorted(nm for nm in pins if cur.get(nm) != pins[nm])
    except Exception as ex:
        pin_bad = ["pins unreadable: %s" % ex]
    proof_ok = ok and rep["ok"] and not hy and not bad_axioms and n > 0 and rep["print_assumptions"] >= n and not pin_bad
    res.coverage.update({
        "obligations": n, "discharged": n if proof_ok else 0,
        "checker_cmd": "make -C coq props/%s.vo (coq_makefile full build) && coqc props/%s.v (Print Assumptions re-read)" % (pid, pid),
        "trusted_base": TRUSTED_BASE, "theorems": rep["theorems"],
        "axioms_reported": rep["axioms"], "closed_under_global_context": rep["closed"], "hygiene_hits": hy,
        "statements_differing_from_their_pins": pin_bad})
    if proof_ok and res.tier == "thorough":
        # independent re-check of the compiled theorem file and everything it depends on
        rc, out = sh("coqchk -o -silent -Q theories IRC -Q proofs IRCP -Q props IRCProps IRCProps.%s" % pid, cwd=COQ, timeout=3000)
        m = re.search(r"\* Axioms:\s*(.*?)\n\s*\n", out, re.S)
        ax = m.group(1).strip() if m else "?"
        res.coverage["coqchk"] = {"exit": rc, "axioms": ax, "cmd": "coqchk -o -silent ... IRCProps.%s" % pid}
        if rc != 0 or ax != "<none>":
            proof_ok = False
            out = "coqchk: exit %d, axioms %s\n%s" % (rc, ax, out[-1000:])
    if not proof_ok:
        res.proof_broken = {"build_ok": ok, "props_ok": rep["ok"], "hygiene": hy, "axioms": bad_axioms, "pinned_statements_changed": pin_bad,
                            "log_tail": (out if not ok else rep["log"])[-1500:]}
    else:
        res.proof_broken = None
    return proof_ok


def main():
    args = sys.argv[1:]
    if not args:
        print(__doc__)
        return 2
    if args[0] == "setup":
        t0 = time.time()
        coq_makefile()
        ok, out = build_coq([])
        if not ok:
            print(out[-3000:])
            return 1
        ok, out = build_model()
        if not ok:
            print(out[-3000:])
            return 1
        for rel in (False, True):
            ok, out = build_rust(release=rel)
            if not ok:
                print(out[-3000:])
                return 1
        print("setup ok in %.0fs" % (time.time() - t0))
        return 0
    if args[0] == "replay":
        import props
        return props.replay(args[1])
    pid = args[0]
    tier = os.environ.get("VERIF_TIER", "quick")
    if "--tier" in args:
        tier = args[args.index("--tier") + 1]
    seed = int(os.environ.get("VERIF_SEED", "20260930"))
    os.environ["VERIF_TIER"] = tier       # read by the time budgets in py/irc.py and py/props.py
    import props
    res = Result(pid, tier, seed)
    for old in glob.glob(os.path.join(VERIF, 'replays', '%s_%s_*.json' % (pid, tier))):
        os.remove(old)
    try:
        if os.environ.get('VERIF_DEV_SKIP_PROOF'):
            res.proof_broken = None
            res.coverage.update({'obligations': 0, 'discharged': 0, 'checker_cmd': 'skipped (development run)', 'trusted_base': []})
        else:
            common_proof_part(res, pid)
        okm, outm = build_model()
        okr, outr = build_rust(release=False)
        if tier == "thorough" and okr:
            okr2, outr2 = build_rust(release=True)
            okr = okr and okr2
            outr += outr2
        if not okr:
            res.violation("implementation does not build with hooks enabled", {"log": outr[-2000:]}, found=False)
        elif not okm:
            res.violation("model does not build", {"log": outm[-2000:]}, found=False)
        else:
            try:
                props.run(pid, res)
            except Exception:
                # an exception inside the exploration (a harness process that died, a timing-dependent read) is retried once
                # from scratch before it is reported; both tracebacks are logged
                with open(os.path.join(BUILD, "crash.log"), "a") as f:
                    f.write("== %s %s (first attempt, retried)\n%s\n" % (time.strftime("%Y-%m-%d %H:%M:%S"), pid, traceback.format_exc()))
                res.violations, res.known = [], []
                props.run(pid, res)
        if res.proof_broken:
            found_input = any(v["found"] for v in res.violations)
            if not found_input:
                res.violation("proof obligation no longer checks: props/%s.v" % pid, res.proof_broken, found=False)
    except Exception:
        tb = traceback.format_exc()
        try:
            with open(os.path.join(BUILD, "crash.log"), "a") as f:
                f.write("== %s %s %s\n%s\n" % (time.strftime("%Y-%m-%d %H:%M:%S"), pid, tier if "tier" in dir() else "", tb))
        except Exception:
            pass
        res.violation("check crashed", {"traceback": tb}, found=False)
    return finish(res)


if __name__ == "__main__":
    sys.exit(main())
